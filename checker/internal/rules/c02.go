package rules

import (
	"go/token"
	"go/types"
	"sort"
	"strings"

	"golang.org/x/tools/go/ssa"

	"pwv/internal/core"
)

func init() { Registry["C02"] = runC02 }

// reachesWriter computes the functions of S from which a *buffer.Writer primitive is reachable through static calls.
func (c *Ctx) reachesWriter() map[*ssa.Function]bool {
	direct := map[*ssa.Function]bool{}
	callers := map[*ssa.Function][]*ssa.Function{}
	for _, fn := range c.P.ScopeFuncs() {
		for _, ci := range core.Calls(fn) {
			if writerMethod(ci) != "" && !c.P.InPkg(fn, "buffer") {
				direct[fn] = true
			}
			if callee := core.StaticCallee(ci); callee != nil && c.P.InScope(callee) {
				callers[callee] = append(callers[callee], fn)
			}
		}
	}
	out := map[*ssa.Function]bool{}
	var mark func(fn *ssa.Function)
	mark = func(fn *ssa.Function) {
		if out[fn] {
			return
		}
		out[fn] = true
		for _, p := range callers[fn] {
			mark(p)
		}
	}
	for fn := range direct {
		mark(fn)
	}
	return out
}

// runFrameGrammar explores every function of package wire that can reach a Writer call, starting idle.
func (c *Ctx) runFrameGrammar(rule string) (frames map[string]int, roots, frags int, states int) {
	reach := c.reachesWriter()
	var fns []*ssa.Function
	for fn := range reach {
		if c.P.InPkg(fn, "wire") && fn.Parent() == nil {
			// unexported helpers that have callers in S are covered inside each caller's context
			syncCallers := 0
			for _, site := range c.P.CallSitesOf(fn) {
				if _, isGo := site.(*ssa.Go); !isGo { // a goroutine entry is a root of its own
					syncCallers++
				}
			}
			if !token.IsExported(fn.Name()) && syncCallers > 0 {
				continue
			}
			fns = append(fns, fn)
		}
	}
	for _, fn := range c.P.ScopeFuncs() { // closures are roots of their own (e.g. the AuthStrategy literal)
		if reach[fn] && fn.Parent() != nil {
			fns = append(fns, fn)
		}
	}
	sort.Slice(fns, func(i, j int) bool { return fname(fns[i]) < fname(fns[j]) })
	frames = map[string]int{}
	seen := map[string]bool{}
	for _, fn := range fns {
		fc := newFrameClient(c, rule)
		fc.seen = map[string]bool{}
		// buffer failures per root: a fragment helper analysed on its own is not a finding
		saved := c.R.Obls
		c.R.Obls = nil
		ts := core.NewTS(c.P, fc)
		ts.Relevant = reach
		fc.root = fn
		ts.Run(fn, fstate{}.String(), core.TSEnv{})
		mine := c.R.Obls
		c.R.Obls = saved
		states += ts.States
		for f := range ts.Funcs {
			c.R.Analysed(fname(f))
		}
		for _, p := range ts.Problem {
			c.R.Fail(rule, fkey(fn)+":unsupported", c.atFn(fn), "the function is analysable by the trace engine", p)
		}
		if fc.frag {
			frags++
			c.R.Note("%s is a frame fragment helper (adds fields to its caller's frame); it is checked inside each caller's frame", fname(fn))
			continue
		}
		roots++
		for _, o := range mine {
			base := o.Key
			if i := strings.LastIndex(base, "#"); i > 0 {
				base = base[:i]
			}
			if !seen[base+o.Detail] {
				seen[base+o.Detail] = true
				o.Key = base
				c.R.Obls = append(c.R.Obls, o)
			}
		}
		for k, n := range fc.Frames {
			frames[k] += n
		}
		for k, where := range fc.okSites {
			if !seen["ok:"+k] {
				seen["ok:"+k] = true
				c.R.OK(rule, k+":frame-accepted", where, "every path from Start to this End is accepted by the message grammar (fields, counts, terminators)", "CFG x grammar-automaton exploration, callees applied as summaries")
			}
		}
	}
	return
}

// rawRule: the raw (unframed) bytes of a connection are at most one SSL reply, before any message.
type rawRule struct{}

func (rawRule) step(tc *traceClient, x *core.TSCtx, site ssa.Instruction, q, ev string) string {
	switch {
	case strings.HasPrefix(ev, "RAW:"):
		if q != "r0" {
			why := "a second raw byte is written on the same connection: the client reads it as the type byte of a message"
			if q == "msg" {
				why = "a raw byte is written after a framed message"
			}
			tc.fail("C02.R5", x, site, "serve:raw-byte@"+q, "at most one raw one-byte SSL reply per connection, before any framed message", why)
			return q
		}
		if ev == "RAW:?" {
			tc.fail("C02.R5", x, site, "serve:raw-bytes-unknown", "raw connection writes are the one-byte SSL replies only", "a connection write of something other than the two SSL reply bytes")
		}
		return "r1"
	case strings.HasPrefix(ev, "M:"):
		return "msg"
	}
	return q
}

func (rawRule) ret(tc *traceClient, x *core.TSCtx, r *ssa.Return, q string, err core.ErrK) string {
	return q
}

func runC02(c *Ctx) {
	R := c.R
	defer c.include("C02.S1", "C09", []string{"C09.R1"}, "a DataRow field is framed by the length of exactly the bytes that follow it", 4)
	R.Technique = "typestate / grammar-inclusion over CFG paths with function summaries (frame bracket + field grammar + count agreement); who-may-write ownership of the connection; structural rules on the Writer implementation"
	R.Explanation = "Decides that every byte sequence the library can hand to the connection is a complete backend message of a known type whose body is in that type's grammar, on every path and for every handler behaviour: " +
		"(R1) only Writer.End and the two one-byte SSL replies write to the connection; the writer's embedded io.Writer and frame bytes are not reachable from outside pkg/buffer; the session writer wraps the connection returned by Handshake; the writer is never handed to another goroutine. " +
		"(R2) Start/Add*/End form a bracket on every path (no field outside a frame, no successful return with an open frame). " +
		"(R3) between Start(T) and End the emitted field sequence is accepted by T's grammar from the protocol documentation, T is a constant with a known grammar, ReadyForQuery's status is one of I/T/E at every call site, ErrorResponse fields are text, use protocol codes, are pairwise distinct, S/C/M are unconditional and one NUL closes the list; an announced Int16 count is int16(len(X)) and the items are emitted by exactly one loop over that same X, one item per iteration, never left early before End. " +
		"(R6) no raw message byte, and no string converted from raw message bytes, is copied verbatim into a text (fmt %s / %v / %c, errors.New, AddString) - strings from GetString are zero-free by construction. (R5) on every path of serve at most one raw one-byte SSL reply is written and it precedes every framed message. (R4) Writer.Start resets the frame before writing the 5-byte header, every Add* is guarded by the error latch, End writes the whole frame once, only on the nil-latch edge, after back-patching length = frame length - 1 into bytes 1..5, and resets on every exit. " +
		"Not decided (value-level): NUL bytes inside handler-supplied strings, counts above 32767, DataRow payload bytes produced by pgx."
	R.Assumptions = []string{"bytes.Buffer: writes append, Len() == len(Bytes()), Reset empties", "binary.BigEndian.PutUint32 stores 4 bytes big-endian", "handler callbacks touch the connection only through the objects the library hands them"}
	R.Trusted = []string{"go/types + go/ssa", "PostgreSQL v3 message formats (frozen grammar table in internal/rules/frames.go)"}
	R.Exhaustive = true

	// ---------- R2 + R3
	frames, roots, frags, states := c.runFrameGrammar("C02.R3")
	R.Count("ts_states", states)
	R.Count("frame_roots", roots)
	R.Count("fragment_helpers", frags)
	types14 := "123CDEGIRSTZnt"
	missing := ""
	for _, t := range types14 {
		if frames[string(t)] == 0 {
			missing += string(t)
		}
	}
	R.Check(missing == "", "C02.R3", "floor:message-types", "-", "every backend message type the library is known to emit was explored ("+types14+")", sprintf("%d distinct types explored: %v", len(frames), sortedKeys(frames)), "no Start site explored for message type(s) "+missing+": the anchor class shrank; the rule would pass vacuously for them")

	// ---------- R1: who may write to the connection
	c.c02Ownership()

	// ---------- R6: raw client bytes never become message text
	c.c02NoRawBytesInText()

	// ---------- R5: at most one raw SSL reply byte per connection, and nothing framed before it
	if serve := c.mustMethod("C02.R5", "wire", "Server", "serve"); serve != nil {
		tc := newTraceClient(c, rawRule{})
		ts := core.NewTS(c.P, tc)
		ts.Relevant = c.reachesEvents()
		if csc := c.P.Method("wire", "Session", "consumeSingleCommand"); csc != nil {
			ts.Opaque[csc] = true // R1: no raw write exists outside the negotiation
		}
		before := len(R.Obls)
		ts.Run(serve, joinState("", "r0"), core.TSEnv{})
		for _, p := range ts.Problem {
			R.Fail("C02.R5", "serve:unsupported", c.atFn(serve), "analysable", p)
		}
		R.Check(tc.Events["RAW:S"]+tc.Events["RAW:N"] >= 2, "C02.R5", "floor:raw-replies", c.atFn(serve), "both SSL reply sites were explored", sprintf("%v", tc.Events), "SSL reply sites not seen on the explored paths")
		if len(R.Obls) == before+1 {
			R.OK("C02.R5", "serve:at-most-one-raw-byte", c.atFn(serve), "on every path of a connection at most one raw one-byte SSL reply is written, and it precedes every framed message", sprintf("trace automaton r0 -RAW-> r1, RAW in r1 or after a message rejected; %d states", ts.States))
		}
	}

	// ---------- R4: Writer implementation
	c.c02WriterImpl()
}

func isConnLike(t types.Type) bool {
	return core.IsNamed(t, "net", "Conn") || core.IsNamed(t, "io", "Writer") || core.IsNamed(t, "crypto/tls", "Conn")
}

func (c *Ctx) writeThrough(rule string) {
	R := c.R
	// (a) every interface call of Write* on a connection-like value in S
	nWrites := 0
	for _, fn := range c.P.ScopeFuncs() {
		for _, ci := range core.Calls(fn) {
			cc := ci.Common()
			if !cc.IsInvoke() || !isConnLike(cc.Value.Type()) {
				continue
			}
			switch cc.Method.Name() {
			case "Write", "WriteString", "ReadFrom":
			default:
				continue
			}
			nWrites++
			key := fkey(fn) + ":conn-write"
			ok, why := false, ""
			if c.endUnit()[fn] {
				if fr, isf := core.FieldOfValue(cc.Value); isf && fr.Is(pkBuffer, "Writer", "Writer") {
					ok, why = true, "the frame write inside Writer.End"
				}
			} else if len(cc.Args) == 1 {
				if u, isu := core.Strip(cc.Args[0]).(*ssa.UnOp); isu && u.Op == token.MUL {
					if g, isg := u.X.(*ssa.Global); isg && c.isSSLReply(g) {
						ok, why = true, "one-byte SSL reply "+g.Name()
					}
				}
			}
			R.Check(ok, rule, key, c.at(ci), "the only writes to the client connection are Writer.End's frame write and the one-byte SSL replies", why, "a direct write to a connection-like value outside Writer.End that is not an SSL reply: bytes can reach the client unframed")
		}
	}
	R.Floor(rule, "connection write sites", nWrites, 3)

	// (b) the embedded io.Writer of buffer.Writer is touched only by NewWriter and End
	for _, fn := range c.P.ScopeFuncs() {
		for _, b := range fn.Blocks {
			for _, in := range b.Instrs {
				fa, ok := in.(*ssa.FieldAddr)
				if !ok {
					continue
				}
				fr, _ := core.FieldOfAddr(fa)
				if !fr.Is(pkBuffer, "Writer", "Writer") && !fr.Is(pkBuffer, "Writer", "frame") {
					continue
				}
				okFn := c.P.InPkg(fn, "buffer") && core.NamedOf(fnRecv(fn)) != nil && core.NamedOf(fnRecv(fn)).Obj().Name() == "Writer"
				if fr.Name == "Writer" {
					okFn = c.endUnit()[fn] || core.FuncIs(fn, pkBuffer, "NewWriter")
				}
				if fn.Name() == "NewWriter" && c.P.InPkg(fn, "buffer") {
					okFn = true
				}
				if !okFn {
					R.Fail(rule, fkey(fn)+":writer-internals:"+fr.Name, c.at(fa), "the writer's connection and frame buffer are accessed only by pkg/buffer's Writer methods", "field Writer."+fr.Name+" is accessed from "+fname(fn))
				}
			}
		}
	}
	R.OK(rule, "writer-internals", "-", "the writer's connection and frame buffer are accessed only by pkg/buffer's Writer methods", "who-may-access scan over every FieldAddr of buffer.Writer.{Writer,frame} in the scope")

	// (c) Bytes() is not used to leak or mutate the frame
	for _, fn := range c.P.ScopeFuncs() {
		for _, ci := range core.Calls(fn) {
			if isWriterMethod(ci, "Bytes") {
				R.Fail(rule, fkey(fn)+":frame-bytes-escape", c.at(ci), "library code does not obtain the raw frame bytes", "Writer.Bytes() is called from "+fname(fn)+": the frame can be mutated or written out of band")
			}
		}
	}

	// (d) the session writer wraps the connection returned by Handshake; exactly one writer per connection
	nw := c.P.Func("buffer", "NewWriter")
	sites := c.P.CallSitesOf(nw)
	var lib []ssa.CallInstruction
	for _, s := range sites {
		if c.P.InPkg(s.Parent(), "wire") {
			lib = append(lib, s)
		}
	}
	region := c.serveRegion()
	if len(lib) != 1 || !region[lib[0].Parent()] {
		R.Fail(rule, "session-writer", "-", "exactly one buffer.NewWriter call exists in package wire, on serve's path before the command loop", sprintf("%d NewWriter call sites in package wire", len(lib)))
	} else {
		hs := c.P.Method("wire", "Server", "Handshake")
		ok := hs != nil && c.flowsFromCallResult(lib[0].Common().Args[1], hs, 0, 0)
		R.Check(ok, rule, "session-writer:wraps-handshake-conn", c.at(lib[0]), "the session writer writes directly to the connection returned by Handshake (no buffering layer in between)", "argument is result #0 of Server.Handshake (directly or handed down through parameters)", "the writer's sink is not the connection returned by Handshake")
	}

	// (e) the connection's writer / reader / conn never cross into another goroutine
	for _, fn := range c.P.ScopeFuncs() {
		for _, ci := range core.Calls(fn) {
			g, ok := ci.(*ssa.Go)
			if !ok {
				continue
			}
			var vals []ssa.Value
			vals = append(vals, g.Call.Args...)
			if mc, ok := g.Call.Value.(*ssa.MakeClosure); ok {
				vals = append(vals, mc.Bindings...)
			}
			for _, v := range vals {
				t := v.Type()
				if p, ok := t.(*types.Pointer); ok { // captured variables are passed by reference
					if core.IsNamed(p.Elem(), pkBuffer, "Writer") || isPtrTo(p.Elem(), pkBuffer, "Writer") {
						R.Fail(rule, fkey(fn)+":writer-shared-with-goroutine", c.at(g), "the per-connection writer is used by one goroutine only", "a go statement receives the connection's *buffer.Writer: concurrent Start/End interleave frames")
					}
				}
			}
		}
	}
	R.OK(rule, "writer-single-goroutine", "-", "the per-connection writer is used by one goroutine only", "no go statement in the scope captures or receives a *buffer.Writer")
}

func (c *Ctx) c02Ownership() { c.writeThrough("C02.R1") }

func isPtrTo(t types.Type, pkg, name string) bool {
	p, ok := t.(*types.Pointer)
	return ok && core.IsNamed(p.Elem(), pkg, name)
}

func fnRecv(fn *ssa.Function) types.Type {
	if fn.Signature.Recv() == nil {
		return types.Typ[types.Invalid]
	}
	return fn.Signature.Recv().Type()
}

func isBytesBufferMethod(ci ssa.CallInstruction, names ...string) bool {
	f := core.StaticCallee(ci)
	for _, n := range names {
		if core.MethodIs(f, "bytes", "Buffer", n) {
			return true
		}
	}
	return false
}

// latchNilEdges returns the edges on which the writer's error latch is nil (loads of field err, or Error()).
func (c *Ctx) latchNilEdges(fn *ssa.Function) []edge {
	var out []edge
	for _, b := range fn.Blocks {
		for _, in := range b.Instrs {
			switch v := in.(type) {
			case *ssa.UnOp:
				if fr, ok := core.FieldOfValue(v); ok && fr.Is(pkBuffer, "Writer", "err") {
					out = append(out, nilEdges(v, true)...)
				}
			case *ssa.Call:
				if isWriterMethod(v, "Error") {
					out = append(out, nilEdges(v, true)...)
				}
			}
		}
	}
	return out
}

func (c *Ctx) c02WriterImpl() {
	R := c.R
	start := c.mustMethod("C02.R4", "buffer", "Writer", "Start")
	end := c.mustMethod("C02.R4", "buffer", "Writer", "End")
	if start == nil || end == nil {
		return
	}
	R.Analysed(fname(start))
	R.Analysed(fname(end))
	// --- Start: reset dominates header write; header is putbuf[:5] with byte 0 = type
	var hdr ssa.CallInstruction
	for _, ci := range core.Calls(start) {
		if isBytesBufferMethod(ci, "Write") {
			hdr = ci
		}
	}
	if hdr == nil {
		R.Fail("C02.R4", "Start:header-write", c.atFn(start), "Start writes the message header into the frame", "no frame.Write call found in Start")
	} else {
		reset := false
		for _, ci := range core.Calls(start) {
			if _, isDefer := ci.(*ssa.Defer); isDefer {
				continue
			}
			if (isWriterMethod(ci, "Reset") || isBytesBufferMethod(ci, "Reset")) && core.InstrDominates(ci, hdr) {
				reset = true
			}
		}
		R.Check(reset, "C02.R4", "Start:reset-before-header", c.at(hdr), "Start empties the frame before writing the header, so an abandoned partial frame never prefixes the next message", "a Reset call dominates the header write", "no frame reset dominates the header write in Start: bytes of an abandoned frame would be sent in front of the next message")
		sl, ok := hdr.Common().Args[1].(*ssa.Slice)
		five := false
		if ok && sl.Low == nil {
			if k, okk := core.ConstInt(sl.High); okk && k == 5 {
				five = true
			}
		}
		R.Check(five, "C02.R4", "Start:header-5-bytes", c.at(hdr), "the header written by Start is 5 bytes (type + length placeholder)", "argument is x[:5]", "the header slice is not x[:5]")
		typed := false
		for _, b := range start.Blocks {
			for _, in := range b.Instrs {
				st, ok := in.(*ssa.Store)
				if !ok {
					continue
				}
				ia, ok := st.Addr.(*ssa.IndexAddr)
				if !ok {
					continue
				}
				if k, okk := core.ConstInt(ia.Index); !okk || k != 0 {
					continue
				}
				if core.StripConv(st.Val) == ssa.Value(start.Params[1]) && core.InstrDominates(st, hdr) {
					typed = true
				}
			}
		}
		R.Check(typed, "C02.R4", "Start:type-byte", c.at(hdr), "byte 0 of the header is the message type passed to Start", "store of the type parameter to index 0 dominates the header write", "the type parameter is not stored to byte 0 of the header before it is written")
	}

	// --- Add*: every frame write outside Start is guarded by the error latch
	wn := c.P.Named("buffer", "Writer")
	guarded := 0
	for _, fn := range c.P.ScopeFuncs() {
		if !c.P.InPkg(fn, "buffer") || fn == start || fn.Signature.Recv() == nil || core.NamedOf(fn.Signature.Recv().Type()) != wn {
			continue
		}
		latch := c.latchNilEdges(fn)
		for _, ci := range core.Calls(fn) {
			if !isBytesBufferMethod(ci, "Write", "WriteByte", "WriteString", "WriteRune", "ReadFrom") {
				continue
			}
			guarded++
			R.Check(anyDominates(latch, ci.Block()), "C02.R4", fkey(fn)+":latch-guard", c.at(ci), "after the first failed append every further Add* is a no-op (error latch)", "the frame write is dominated by the err == nil edge of the latch", "a frame write in "+fname(fn)+" is not dominated by the latch's nil edge")
		}
	}
	R.Floor("C02.R4", "latch-guarded frame writes in Add* methods", guarded, 6)

	// --- End
	var connWrites []*ssa.Call
	wfn := end // the function that patches the length and writes the frame: End, or a private step End calls
	var flushCall ssa.CallInstruction
	writesIn := func(fn *ssa.Function) []*ssa.Call {
		var out []*ssa.Call
		for _, ci := range core.Calls(fn) {
			cc := ci.Common()
			if cc.IsInvoke() && cc.Method.Name() == "Write" {
				if call, ok := ci.(*ssa.Call); ok {
					out = append(out, call)
				}
			}
		}
		return out
	}
	connWrites = writesIn(end)
	if len(connWrites) == 0 {
		for _, ci := range core.Calls(end) {
			h := core.StaticCallee(ci)
			if h != nil && c.P.InPkg(h, "buffer") && h.Blocks != nil && c.onlyCaller(h) == ci && len(writesIn(h)) > 0 {
				wfn, flushCall, connWrites = h, ci, writesIn(h)
				R.Analysed(fname(h))
			}
		}
	}
	if len(connWrites) != 1 {
		R.Fail("C02.R4", "End:single-connection-write", c.atFn(end), "End hands the frame to the connection in exactly one Write call", sprintf("%d Write calls in End", len(connWrites)))
		return
	}
	w := connWrites[0]
	R.OK("C02.R4", "End:single-connection-write", c.at(w), "End hands the frame to the connection in exactly one Write call", "one invoke of io.Writer.Write")
	latched := anyDominates(c.latchNilEdges(wfn), w.Block())
	if flushCall != nil && anyDominates(c.latchNilEdges(end), flushCall.Block()) {
		latched = true
	}
	R.Check(latched, "C02.R4", "End:latch-before-write", c.at(w), "a frame with a latched error is never written", "the Write is dominated by the latch's nil edge", "the connection write is not dominated by the nil edge of the error latch")
	buf := w.Call.Args[0]
	bcall, ok := buf.(*ssa.Call)
	whole := ok && isBytesBufferMethod(bcall, "Bytes")
	// the frame may be completed by a private step that patches the length and hands back the bytes
	// (sealFrame() []byte): the back-patch is then looked for in that step, in front of its return
	pfn := wfn                  // where the back-patch lives
	var pAt ssa.Instruction = w // what it must dominate there
	if ok && !whole {
		if sf := core.StaticCallee(bcall); sf != nil && c.P.InPkg(sf, "buffer") && sf.Blocks != nil && c.onlyCaller(sf) == ssa.CallInstruction(bcall) {
			if rs := returns(sf); len(rs) == 1 && len(rs[0].Results) == 1 {
				if inner, isCall := rs[0].Results[0].(*ssa.Call); isCall && isBytesBufferMethod(inner, "Bytes") {
					whole = true
					pfn, pAt, buf = sf, rs[0], inner
					R.Analysed(fname(sf))
				}
			}
		}
	}
	R.Check(whole, "C02.R4", "End:writes-whole-frame", c.at(w), "End writes the whole frame (frame.Bytes()), not a sub-slice", "argument is frame.Bytes()", "the written value is not the result of frame.Bytes()")
	// length back-patch
	patched := false
	why := "no PutUint32 dominating the write"
	for _, ci := range core.Calls(pfn) {
		f := core.StaticCallee(ci)
		if f == nil || f.Name() != "PutUint32" || f.Pkg == nil || f.Pkg.Pkg.Path() != "encoding/binary" {
			continue
		}
		if !core.InstrDominates(ci, pAt) {
			why = "PutUint32 does not dominate the connection write"
			continue
		}
		args := ci.Common().Args
		sl, ok := args[len(args)-2].(*ssa.Slice)
		if !ok || sl.X != buf {
			why = "PutUint32 target is not a slice of the frame bytes"
			continue
		}
		lo, ok1 := core.ConstInt(sl.Low)
		hi, ok2 := core.ConstInt(sl.High)
		if sl.Low == nil || !ok1 || !ok2 || lo != 1 || hi != 5 {
			why = "PutUint32 target is not frame[1:5]"
			continue
		}
		// value == uint32(frame.Len() - 1)   (or len(bytes) - 1)
		val := core.StripConv(args[len(args)-1])
		sub, ok := val.(*ssa.BinOp)
		if !ok || sub.Op != token.SUB {
			why = "the patched value is not of the form length - 1"
			continue
		}
		k, okk := core.ConstInt(sub.Y)
		lenOK := false
		if lc, isCall := sub.X.(*ssa.Call); isCall {
			if isBytesBufferMethod(lc, "Len") {
				lenOK = true
			} else if x, isLen := core.IsLenOf(lc); isLen && x == buf {
				lenOK = true
			}
		}
		if !okk || k != 1 || !lenOK {
			why = "the patched value is not (frame length) - 1"
			continue
		}
		patched = true
	}
	R.Check(patched, "C02.R4", "End:length-backpatch", c.at(w), "before the frame is written its bytes 1..5 receive big-endian uint32(frame length - 1) = 4 + body size", "PutUint32(frame[1:5], uint32(Len()-1)) dominates the write", why)
	// reset on every exit
	resetAll := false
	for _, ci := range core.Calls(end) {
		if d, ok := ci.(*ssa.Defer); ok && (isWriterMethod(d, "Reset") || isBytesBufferMethod(d, "Reset")) {
			all := true
			for _, r := range returns(end) {
				if r.Block() == end.Recover {
					continue
				}
				if !core.InstrDominates(d, r) {
					all = false
				}
			}
			resetAll = all
		}
	}
	if !resetAll { // explicit reset on every path to a return
		resetAll = true
		for _, r := range returns(end) {
			if r.Block() == end.Recover {
				continue
			}
			found := false
			for _, ci := range core.Calls(end) {
				if _, isDefer := ci.(*ssa.Defer); !isDefer && (isWriterMethod(ci, "Reset") || isBytesBufferMethod(ci, "Reset")) && core.InstrDominates(ci, r) {
					found = true
				}
			}
			if !found {
				resetAll = false
			}
		}
	}
	// a failed (possibly partial) connection write is remembered: nothing is written to that connection afterwards
	sticky := false
	for _, b := range end.Blocks {
		for _, in := range b.Instrs {
			st, ok := in.(*ssa.Store)
			if !ok {
				continue
			}
			fr, ok := core.FieldOfAddr(st.Addr)
			if !ok || !fr.Is(pkBuffer, "Writer", fr.Name) {
				continue
			}
			// a field of the writer that receives the write's error / a flag on the write's failure edge, and is tested before the write
			if anyDominates(nilEdges(resultOf(w, 1), false), b) {
				for _, b2 := range end.Blocks {
					for _, i2 := range b2.Instrs {
						if u, ok := i2.(*ssa.UnOp); ok {
							if f2, ok := core.FieldOfValue(u); ok && f2.Name == fr.Name && core.InstrDominates(u, w) {
								sticky = true
							}
						}
					}
				}
			}
		}
	}
	R.Check(sticky, "C02.R4", "End:failed-write-is-final", c.at(w), "a failed or abandoned write never leaves partial bytes that corrupt the next message: after a connection write failed nothing more is written", "End records the failure in the writer and refuses to write again", "End forgets a failed connection write: after a short write (e.g. a write deadline) the next message - typically the ErrorResponse for that very error - is written behind the partial bytes and the client sees a corrupt stream")
	R.Check(resetAll, "C02.R4", "End:reset-on-every-exit", c.atFn(end), "End empties the frame and clears the latch on every exit, also when the write failed", "a deferred (or dominating) Reset covers every return", "some return of End is not covered by a frame Reset")
}

// c02NoRawBytesInText (R6): strings sent to the client are NUL-terminated fields, so a text that contains a zero byte
// cuts its field short and leaves stray bytes in the message. Strings obtained with GetString cannot contain a zero
// byte (they end at the first one); raw message bytes can. The rule: a raw message byte (an element of the message
// window or of a GetBytes result) or a string converted from raw message bytes is never formatted into a text with a
// verb that copies it verbatim (%s / %v of the string, %c of the byte), concatenated into one, or handed to AddString.
func (c *Ctx) c02NoRawBytesInText() {
	R := c.R
	var rawByte func(l *core.Lin, v ssa.Value, depth int) bool
	rawByte = func(l *core.Lin, v ssa.Value, depth int) bool {
		if depth > 5 {
			return false
		}
		switch x := v.(type) {
		case *ssa.UnOp:
			if ia, ok := x.X.(*ssa.IndexAddr); ok && x.Op == token.MUL {
				return msgDerived(l, ia.X, 0)
			}
		case *ssa.Index:
			return msgDerived(l, x.X, 0)
		case *ssa.Convert:
			if bt, ok := x.Type().Underlying().(*types.Basic); ok && bt.Info()&types.IsInteger != 0 {
				return rawByte(l, x.X, depth+1)
			}
		case *ssa.ChangeType:
			return rawByte(l, x.X, depth+1)
		case *ssa.Phi:
			for _, e := range x.Edges {
				if rawByte(l, e, depth+1) {
					return true
				}
			}
		case *ssa.Extract:
			// the type byte of a client message, as the frame reader hands it out
			if call, ok := x.Tuple.(*ssa.Call); ok && x.Index == 0 && (isReaderMethod(call, "ReadTypedMsg") || isReaderMethod(call, "ReadType")) {
				return true
			}
		case *ssa.MakeInterface:
			return rawByte(l, x.X, depth+1)
		case *ssa.Parameter:
			// a parameter of a function of the scope: what its callers pass
			for _, a := range c.argsOfParam(x) {
				if rawByte(core.NewLin(c.P, a.Parent(), c.modSets(), nil), a.v, depth+2) {
					return true
				}
			}
		}
		return false
	}
	var rawString func(l *core.Lin, v ssa.Value, depth int) bool
	rawString = func(l *core.Lin, v ssa.Value, depth int) bool {
		if depth > 5 {
			return false
		}
		switch x := v.(type) {
		case *ssa.Convert:
			if bt, ok := x.Type().Underlying().(*types.Basic); ok && bt.Info()&types.IsString != 0 {
				return rawByte(l, x.X, 0) || msgDerived(l, x.X, 0)
			}
		case *ssa.ChangeType:
			return rawString(l, x.X, depth+1)
		case *ssa.BinOp:
			if x.Op == token.ADD {
				return rawString(l, x.X, depth+1) || rawString(l, x.Y, depth+1)
			}
		case *ssa.Phi:
			for _, e := range x.Edges {
				if rawString(l, e, depth+1) {
					return true
				}
			}
		case *ssa.Parameter:
			for _, a := range c.argsOfParam(x) {
				if rawString(core.NewLin(c.P, a.Parent(), c.modSets(), nil), a.v, depth+2) {
					return true
				}
			}
		}
		return false
	}
	// the operands of a variadic ...any argument
	variadic := func(v ssa.Value) []ssa.Value {
		var out []ssa.Value
		sl, ok := v.(*ssa.Slice)
		if !ok {
			return nil
		}
		a, ok := sl.X.(*ssa.Alloc)
		if !ok {
			return nil
		}
		type el struct {
			idx int64
			v   ssa.Value
		}
		var els []el
		for _, r := range core.Referrers(a) {
			ia, ok := r.(*ssa.IndexAddr)
			if !ok {
				continue
			}
			k, _ := core.ConstInt(ia.Index)
			for _, r2 := range core.Referrers(ia) {
				if st, ok := r2.(*ssa.Store); ok {
					val := st.Val
					if mi, ok := val.(*ssa.MakeInterface); ok {
						val = mi.X
					}
					els = append(els, el{k, val})
				}
			}
		}
		sort.Slice(els, func(i, j int) bool { return els[i].idx < els[j].idx })
		for _, e := range els {
			out = append(out, e.v)
		}
		return out
	}
	verbs := func(format string) []byte {
		var out []byte
		for i := 0; i < len(format); i++ {
			if format[i] != '%' {
				continue
			}
			i++
			for i < len(format) && strings.IndexByte("+-# 0123456789.*[]", format[i]) >= 0 {
				i++
			}
			if i < len(format) && format[i] != '%' {
				out = append(out, format[i])
			}
		}
		return out
	}
	nText, nRaw := 0, 0
	for _, fn := range c.P.ScopeFuncs() {
		var l *core.Lin
		lin := func() *core.Lin {
			if l == nil {
				l = core.NewLin(c.P, fn, c.modSets(), nil)
			}
			return l
		}
		for _, ci := range core.Calls(fn) {
			callee := core.StaticCallee(ci)
			args := ci.Common().Args
			switch {
			case isWriterMethod(ci, "AddString"):
				nText++
				if rawString(lin(), args[1], 0) {
					nRaw++
					R.Fail("C02.R6", fkey(fn)+":raw-bytes-as-string", c.at(ci), "message text never contains raw client bytes (which may be zero)", "AddString receives a string converted from raw message bytes: a zero byte ends the field early and leaves stray bytes in the message")
				}
			case callee != nil && callee.Pkg != nil && callee.Pkg.Pkg.Path() == "errors" && callee.Name() == "New":
				nText++
				if rawString(lin(), args[0], 0) {
					nRaw++
					R.Fail("C02.R6", fkey(fn)+":raw-bytes-in-error-text", c.at(ci), "message text never contains raw client bytes (which may be zero)", "errors.New receives a string built from raw message bytes")
				}
			case callee != nil && callee.Pkg != nil && callee.Pkg.Pkg.Path() == "fmt" && (callee.Name() == "Errorf" || callee.Name() == "Sprintf"):
				nText++
				format, okF := core.ConstString(args[0])
				ops := variadic(args[len(args)-1])
				vs := verbs(format)
				for i, op := range ops {
					verb := byte('v')
					if okF && i < len(vs) {
						verb = vs[i]
					}
					bad := ""
					switch {
					case rawString(lin(), op, 0) && (verb == 's' || verb == 'v'):
						bad = "a string converted from raw message bytes is formatted with %" + string(verb)
					case rawByte(lin(), op, 0) && verb == 'c':
						bad = "a raw message byte is formatted with %c"
					case msgDerived(lin(), op, 0) && verb == 's':
						bad = "raw message bytes are formatted with %s"
					}
					if bad != "" {
						nRaw++
						R.Fail("C02.R6", fkey(fn)+":raw-bytes-in-text:"+callee.Name(), c.at(ci), "message text never contains raw client bytes (which may be zero)", bad+": for the byte 0 the text contains a zero byte, which ends the ErrorResponse field early and leaves stray bytes after the message's terminator (use %q / %d / %x)")
					}
				}
			case callee != nil && callee.Pkg != nil && callee.Pkg.Pkg.Path() == "fmt" && (callee.Name() == "Sprint" || callee.Name() == "Sprintln"):
				nText++
				for _, op := range variadic(args[len(args)-1]) {
					if rawString(lin(), op, 0) {
						nRaw++
						R.Fail("C02.R6", fkey(fn)+":raw-bytes-in-text:"+callee.Name(), c.at(ci), "message text never contains raw client bytes (which may be zero)", "a string converted from raw message bytes is printed verbatim")
					}
				}
			}
		}
	}
	R.Floor("C02.R6", "text-producing call sites inspected (AddString, fmt.Errorf / Sprintf / Sprint, errors.New)", nText, 20)
	if nRaw == 0 {
		R.OK("C02.R6", "no-raw-bytes-in-text", "-", "message text never contains raw client bytes (which may be zero)", sprintf("%d text-producing call sites, none takes a raw message byte / a string converted from raw message bytes verbatim", nText))
	}
}

// argAt is an argument value at one call site.
type argAt struct {
	v    ssa.Value
	site ssa.CallInstruction
}

func (a argAt) Parent() *ssa.Function { return a.site.Parent() }

// argsOfParam lists, for a parameter of a function of the scope, the values passed at its static call sites.
func (c *Ctx) argsOfParam(p *ssa.Parameter) []argAt {
	fn := p.Parent()
	if fn == nil || !c.P.InScope(fn) {
		return nil
	}
	idx := -1
	for i, q := range fn.Params {
		if q == p {
			idx = i
		}
	}
	var out []argAt
	for _, site := range c.P.CallSitesOf(fn) {
		if a := site.Common().Args; idx >= 0 && idx < len(a) && !site.Common().IsInvoke() {
			out = append(out, argAt{a[idx], site})
		}
	}
	return out
}
