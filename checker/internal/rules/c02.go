package rules

import (
	"go/token"
	"go/types"
	"sort"
	"strings"

	"golang.org/x/tools/go/ssa"

	"pwv/internal/core"
)

func init() { Registry["C02"] = runC02 }

// reachesWriter computes the functions of S from which a *buffer.Writer primitive is reachable through static calls.
func (c *Ctx) reachesWriter() map[*ssa.Function]bool {
	direct := map[*ssa.Function]bool{}
	callers := map[*ssa.Function][]*ssa.Function{}
	for _, fn := range c.P.ScopeFuncs() {
		for _, ci := range core.Calls(fn) {
			if writerMethod(ci) != "" && !c.P.InPkg(fn, "buffer") {
				direct[fn] = true
			}
			if callee := core.StaticCallee(ci); callee != nil && c.P.InScope(callee) {
				callers[callee] = append(callers[callee], fn)
			}
		}
	}
	out := map[*ssa.Function]bool{}
	var mark func(fn *ssa.Function)
	mark = func(fn *ssa.Function) {
		if out[fn] {
			return
		}
		out[fn] = true
		for _, p := range callers[fn] {
			mark(p)
		}
	}
	for fn := range direct {
		mark(fn)
	}
	return out
}

// runFrameGrammar explores every function of package wire that can reach a Writer call, starting idle.
func (c *Ctx) runFrameGrammar(rule string) (frames map[string]int, roots, frags int, states int) {
	reach := c.reachesWriter()
	var fns []*ssa.Function
	for fn := range reach {
		if c.P.InPkg(fn, "wire") && fn.Parent() == nil {
			// unexported helpers that have callers in S are covered inside each caller's context
			if !token.IsExported(fn.Name()) && len(c.P.CallSitesOf(fn)) > 0 {
				continue
			}
			fns = append(fns, fn)
		}
	}
	for _, fn := range c.P.ScopeFuncs() { // closures are roots of their own (e.g. the AuthStrategy literal)
		if reach[fn] && fn.Parent() != nil {
			fns = append(fns, fn)
		}
	}
	sort.Slice(fns, func(i, j int) bool { return fname(fns[i]) < fname(fns[j]) })
	frames = map[string]int{}
	seen := map[string]bool{}
	for _, fn := range fns {
		fc := newFrameClient(c, rule)
		fc.seen = map[string]bool{}
		// buffer failures per root: a fragment helper analysed on its own is not a finding
		saved := c.R.Obls
		c.R.Obls = nil
		ts := core.NewTS(c.P, fc)
		ts.Relevant = reach
		fc.root = fn
		ts.Run(fn, fstate{}.String(), core.TSEnv{})
		mine := c.R.Obls
		c.R.Obls = saved
		states += ts.States
		for f := range ts.Funcs {
			c.R.Analysed(fname(f))
		}
		for _, p := range ts.Problem {
			c.R.Fail(rule, fkey(fn)+":unsupported", c.atFn(fn), "the function is analysable by the trace engine", p)
		}
		if fc.frag {
			frags++
			c.R.Note("%s is a frame fragment helper (adds fields to its caller's frame); it is checked inside each caller's frame", fname(fn))
			continue
		}
		roots++
		for _, o := range mine {
			base := o.Key
			if i := strings.LastIndex(base, "#"); i > 0 {
				base = base[:i]
			}
			if !seen[base+o.Detail] {
				seen[base+o.Detail] = true
				o.Key = base
				c.R.Obls = append(c.R.Obls, o)
			}
		}
		for k, n := range fc.Frames {
			frames[k] += n
		}
		for k, where := range fc.okSites {
			if !seen["ok:"+k] {
				seen["ok:"+k] = true
				c.R.OK(rule, k+":frame-accepted", where, "every path from Start to this End is accepted by the message grammar (fields, counts, terminators)", "CFG x grammar-automaton exploration, callees applied as summaries")
			}
		}
	}
	return
}

func runC02(c *Ctx) {
	R := c.R
	R.Technique = "typestate / grammar-inclusion over CFG paths with function summaries (frame bracket + field grammar + count agreement); who-may-write ownership of the connection; structural rules on the Writer implementation"
	R.Explanation = "Decides that every byte sequence the library can hand to the connection is a complete backend message of a known type whose body is in that type's grammar, on every path and for every handler behaviour: " +
		"(R1) only Writer.End and the two one-byte SSL replies write to the connection; the writer's embedded io.Writer and frame bytes are not reachable from outside pkg/buffer; the session writer wraps the connection returned by Handshake; the writer is never handed to another goroutine. " +
		"(R2) Start/Add*/End form a bracket on every path (no field outside a frame, no successful return with an open frame). " +
		"(R3) between Start(T) and End the emitted field sequence is accepted by T's grammar from the protocol documentation, T is a constant with a known grammar, ReadyForQuery's status is one of I/T/E at every call site, ErrorResponse fields are text, use protocol codes, are pairwise distinct, S/C/M are unconditional and one NUL closes the list; an announced Int16 count is int16(len(X)) and the items are emitted by exactly one loop over that same X, one item per iteration, never left early before End. " +
		"(R4) Writer.Start resets the frame before writing the 5-byte header, every Add* is guarded by the error latch, End writes the whole frame once, only on the nil-latch edge, after back-patching length = frame length - 1 into bytes 1..5, and resets on every exit. " +
		"Not decided (value-level): NUL bytes inside handler-supplied strings, counts above 32767, DataRow payload bytes produced by pgx."
	R.Assumptions = []string{"bytes.Buffer: writes append, Len() == len(Bytes()), Reset empties", "binary.BigEndian.PutUint32 stores 4 bytes big-endian", "handler callbacks touch the connection only through the objects the library hands them"}
	R.Trusted = []string{"go/types + go/ssa", "PostgreSQL v3 message formats (frozen grammar table in internal/rules/frames.go)"}
	R.Exhaustive = true

	// ---------- R2 + R3
	frames, roots, frags, states := c.runFrameGrammar("C02.R3")
	R.Count("ts_states", states)
	R.Count("frame_roots", roots)
	R.Count("fragment_helpers", frags)
	types14 := "123CDEGIRSTZnt"
	missing := ""
	for _, t := range types14 {
		if frames[string(t)] == 0 {
			missing += string(t)
		}
	}
	R.Check(missing == "", "C02.R3", "floor:message-types", "-", "every backend message type the library is known to emit was explored ("+types14+")", sprintf("%d distinct types explored: %v", len(frames), sortedKeys(frames)), "no Start site explored for message type(s) "+missing+": the anchor class shrank; the rule would pass vacuously for them")

	// ---------- R1: who may write to the connection
	c.c02Ownership()

	// ---------- R4: Writer implementation
	c.c02WriterImpl()
}

func isConnLike(t types.Type) bool {
	return core.IsNamed(t, "net", "Conn") || core.IsNamed(t, "io", "Writer") || core.IsNamed(t, "crypto/tls", "Conn")
}

func (c *Ctx) c02Ownership() {
	R := c.R
	// (a) every interface call of Write* on a connection-like value in S
	nWrites := 0
	for _, fn := range c.P.ScopeFuncs() {
		for _, ci := range core.Calls(fn) {
			cc := ci.Common()
			if !cc.IsInvoke() || !isConnLike(cc.Value.Type()) {
				continue
			}
			switch cc.Method.Name() {
			case "Write", "WriteString", "ReadFrom":
			default:
				continue
			}
			nWrites++
			key := fkey(fn) + ":conn-write"
			ok, why := false, ""
			if core.MethodIs(fn, pkBuffer, "Writer", "End") {
				if fr, isf := core.FieldOfValue(cc.Value); isf && fr.Is(pkBuffer, "Writer", "Writer") {
					ok, why = true, "the frame write inside Writer.End"
				}
			} else if len(cc.Args) == 1 {
				if u, isu := core.Strip(cc.Args[0]).(*ssa.UnOp); isu && u.Op == token.MUL {
					if g, isg := u.X.(*ssa.Global); isg && (g == c.P.Global("wire", "sslSupported") || g == c.P.Global("wire", "sslUnsupported")) {
						ok, why = true, "one-byte SSL reply "+g.Name()
					}
				}
			}
			R.Check(ok, "C02.R1", key, c.at(ci), "the only writes to the client connection are Writer.End's frame write and the one-byte SSL replies", why, "a direct write to a connection-like value outside Writer.End that is not an SSL reply: bytes can reach the client unframed")
		}
	}
	R.Floor("C02.R1", "connection write sites", nWrites, 3)

	// (b) the embedded io.Writer of buffer.Writer is touched only by NewWriter and End
	for _, fn := range c.P.ScopeFuncs() {
		for _, b := range fn.Blocks {
			for _, in := range b.Instrs {
				fa, ok := in.(*ssa.FieldAddr)
				if !ok {
					continue
				}
				fr, _ := core.FieldOfAddr(fa)
				if !fr.Is(pkBuffer, "Writer", "Writer") && !fr.Is(pkBuffer, "Writer", "frame") {
					continue
				}
				okFn := c.P.InPkg(fn, "buffer") && core.NamedOf(fnRecv(fn)) != nil && core.NamedOf(fnRecv(fn)).Obj().Name() == "Writer"
				if fr.Name == "Writer" {
					okFn = core.MethodIs(fn, pkBuffer, "Writer", "End") || core.FuncIs(fn, pkBuffer, "NewWriter")
				}
				if fn.Name() == "NewWriter" && c.P.InPkg(fn, "buffer") {
					okFn = true
				}
				if !okFn {
					R.Fail("C02.R1", fkey(fn)+":writer-internals:"+fr.Name, c.at(fa), "the writer's connection and frame buffer are accessed only by pkg/buffer's Writer methods", "field Writer."+fr.Name+" is accessed from "+fname(fn))
				}
			}
		}
	}
	R.OK("C02.R1", "writer-internals", "-", "the writer's connection and frame buffer are accessed only by pkg/buffer's Writer methods", "who-may-access scan over every FieldAddr of buffer.Writer.{Writer,frame} in the scope")

	// (c) Bytes() is not used to leak or mutate the frame
	for _, fn := range c.P.ScopeFuncs() {
		for _, ci := range core.Calls(fn) {
			if isWriterMethod(ci, "Bytes") {
				R.Fail("C02.R1", fkey(fn)+":frame-bytes-escape", c.at(ci), "library code does not obtain the raw frame bytes", "Writer.Bytes() is called from "+fname(fn)+": the frame can be mutated or written out of band")
			}
		}
	}

	// (d) the session writer wraps the connection returned by Handshake; exactly one writer per connection
	nw := c.P.Func("buffer", "NewWriter")
	sites := c.P.CallSitesOf(nw)
	var lib []ssa.CallInstruction
	for _, s := range sites {
		if c.P.InPkg(s.Parent(), "wire") {
			lib = append(lib, s)
		}
	}
	region := c.serveRegion()
	if len(lib) != 1 || !region[lib[0].Parent()] {
		R.Fail("C02.R1", "session-writer", "-", "exactly one buffer.NewWriter call exists in package wire, on serve's path before the command loop", sprintf("%d NewWriter call sites in package wire", len(lib)))
	} else {
		hs := c.P.Method("wire", "Server", "Handshake")
		ok := hs != nil && c.flowsFromCallResult(lib[0].Common().Args[1], hs, 0, 0)
		R.Check(ok, "C02.R1", "session-writer:wraps-handshake-conn", c.at(lib[0]), "the session writer writes directly to the connection returned by Handshake (no buffering layer in between)", "argument is result #0 of Server.Handshake (directly or handed down through parameters)", "the writer's sink is not the connection returned by Handshake")
	}

	// (e) the connection's writer / reader / conn never cross into another goroutine
	for _, fn := range c.P.ScopeFuncs() {
		for _, ci := range core.Calls(fn) {
			g, ok := ci.(*ssa.Go)
			if !ok {
				continue
			}
			var vals []ssa.Value
			vals = append(vals, g.Call.Args...)
			if mc, ok := g.Call.Value.(*ssa.MakeClosure); ok {
				vals = append(vals, mc.Bindings...)
			}
			for _, v := range vals {
				t := v.Type()
				if p, ok := t.(*types.Pointer); ok { // captured variables are passed by reference
					if core.IsNamed(p.Elem(), pkBuffer, "Writer") || isPtrTo(p.Elem(), pkBuffer, "Writer") {
						R.Fail("C02.R1", fkey(fn)+":writer-shared-with-goroutine", c.at(g), "the per-connection writer is used by one goroutine only", "a go statement receives the connection's *buffer.Writer: concurrent Start/End interleave frames")
					}
				}
			}
		}
	}
	R.OK("C02.R1", "writer-single-goroutine", "-", "the per-connection writer is used by one goroutine only", "no go statement in the scope captures or receives a *buffer.Writer")
}

func isPtrTo(t types.Type, pkg, name string) bool {
	p, ok := t.(*types.Pointer)
	return ok && core.IsNamed(p.Elem(), pkg, name)
}

func fnRecv(fn *ssa.Function) types.Type {
	if fn.Signature.Recv() == nil {
		return types.Typ[types.Invalid]
	}
	return fn.Signature.Recv().Type()
}

func isBytesBufferMethod(ci ssa.CallInstruction, names ...string) bool {
	f := core.StaticCallee(ci)
	for _, n := range names {
		if core.MethodIs(f, "bytes", "Buffer", n) {
			return true
		}
	}
	return false
}

// latchNilEdges returns the edges on which the writer's error latch is nil (loads of field err, or Error()).
func (c *Ctx) latchNilEdges(fn *ssa.Function) []edge {
	var out []edge
	for _, b := range fn.Blocks {
		for _, in := range b.Instrs {
			switch v := in.(type) {
			case *ssa.UnOp:
				if fr, ok := core.FieldOfValue(v); ok && fr.Is(pkBuffer, "Writer", "err") {
					out = append(out, nilEdges(v, true)...)
				}
			case *ssa.Call:
				if isWriterMethod(v, "Error") {
					out = append(out, nilEdges(v, true)...)
				}
			}
		}
	}
	return out
}

func (c *Ctx) c02WriterImpl() {
	R := c.R
	start := c.mustMethod("C02.R4", "buffer", "Writer", "Start")
	end := c.mustMethod("C02.R4", "buffer", "Writer", "End")
	if start == nil || end == nil {
		return
	}
	R.Analysed(fname(start))
	R.Analysed(fname(end))
	// --- Start: reset dominates header write; header is putbuf[:5] with byte 0 = type
	var hdr ssa.CallInstruction
	for _, ci := range core.Calls(start) {
		if isBytesBufferMethod(ci, "Write") {
			hdr = ci
		}
	}
	if hdr == nil {
		R.Fail("C02.R4", "Start:header-write", c.atFn(start), "Start writes the message header into the frame", "no frame.Write call found in Start")
	} else {
		reset := false
		for _, ci := range core.Calls(start) {
			if _, isDefer := ci.(*ssa.Defer); isDefer {
				continue
			}
			if (isWriterMethod(ci, "Reset") || isBytesBufferMethod(ci, "Reset")) && core.InstrDominates(ci, hdr) {
				reset = true
			}
		}
		R.Check(reset, "C02.R4", "Start:reset-before-header", c.at(hdr), "Start empties the frame before writing the header, so an abandoned partial frame never prefixes the next message", "a Reset call dominates the header write", "no frame reset dominates the header write in Start: bytes of an abandoned frame would be sent in front of the next message")
		sl, ok := hdr.Common().Args[1].(*ssa.Slice)
		five := false
		if ok && sl.Low == nil {
			if k, okk := core.ConstInt(sl.High); okk && k == 5 {
				five = true
			}
		}
		R.Check(five, "C02.R4", "Start:header-5-bytes", c.at(hdr), "the header written by Start is 5 bytes (type + length placeholder)", "argument is x[:5]", "the header slice is not x[:5]")
		typed := false
		for _, b := range start.Blocks {
			for _, in := range b.Instrs {
				st, ok := in.(*ssa.Store)
				if !ok {
					continue
				}
				ia, ok := st.Addr.(*ssa.IndexAddr)
				if !ok {
					continue
				}
				if k, okk := core.ConstInt(ia.Index); !okk || k != 0 {
					continue
				}
				if core.StripConv(st.Val) == ssa.Value(start.Params[1]) && core.InstrDominates(st, hdr) {
					typed = true
				}
			}
		}
		R.Check(typed, "C02.R4", "Start:type-byte", c.at(hdr), "byte 0 of the header is the message type passed to Start", "store of the type parameter to index 0 dominates the header write", "the type parameter is not stored to byte 0 of the header before it is written")
	}

	// --- Add*: every frame write outside Start is guarded by the error latch
	wn := c.P.Named("buffer", "Writer")
	guarded := 0
	for _, fn := range c.P.ScopeFuncs() {
		if !c.P.InPkg(fn, "buffer") || fn == start || fn.Signature.Recv() == nil || core.NamedOf(fn.Signature.Recv().Type()) != wn {
			continue
		}
		latch := c.latchNilEdges(fn)
		for _, ci := range core.Calls(fn) {
			if !isBytesBufferMethod(ci, "Write", "WriteByte", "WriteString", "WriteRune", "ReadFrom") {
				continue
			}
			guarded++
			R.Check(anyDominates(latch, ci.Block()), "C02.R4", fkey(fn)+":latch-guard", c.at(ci), "after the first failed append every further Add* is a no-op (error latch)", "the frame write is dominated by the err == nil edge of the latch", "a frame write in "+fname(fn)+" is not dominated by the latch's nil edge")
		}
	}
	R.Floor("C02.R4", "latch-guarded frame writes in Add* methods", guarded, 6)

	// --- End
	var connWrites []*ssa.Call
	for _, ci := range core.Calls(end) {
		cc := ci.Common()
		if cc.IsInvoke() && cc.Method.Name() == "Write" {
			if call, ok := ci.(*ssa.Call); ok {
				connWrites = append(connWrites, call)
			}
		}
	}
	if len(connWrites) != 1 {
		R.Fail("C02.R4", "End:single-connection-write", c.atFn(end), "End hands the frame to the connection in exactly one Write call", sprintf("%d Write calls in End", len(connWrites)))
		return
	}
	w := connWrites[0]
	R.OK("C02.R4", "End:single-connection-write", c.at(w), "End hands the frame to the connection in exactly one Write call", "one invoke of io.Writer.Write")
	R.Check(anyDominates(c.latchNilEdges(end), w.Block()), "C02.R4", "End:latch-before-write", c.at(w), "a frame with a latched error is never written", "the Write is dominated by the latch's nil edge", "the connection write is not dominated by the nil edge of the error latch")
	buf := w.Call.Args[0]
	bcall, ok := buf.(*ssa.Call)
	whole := ok && isBytesBufferMethod(bcall, "Bytes")
	R.Check(whole, "C02.R4", "End:writes-whole-frame", c.at(w), "End writes the whole frame (frame.Bytes()), not a sub-slice", "argument is frame.Bytes()", "the written value is not the result of frame.Bytes()")
	// length back-patch
	patched := false
	why := "no PutUint32 dominating the write"
	for _, ci := range core.Calls(end) {
		f := core.StaticCallee(ci)
		if f == nil || f.Name() != "PutUint32" || f.Pkg == nil || f.Pkg.Pkg.Path() != "encoding/binary" {
			continue
		}
		if !core.InstrDominates(ci, w) {
			why = "PutUint32 does not dominate the connection write"
			continue
		}
		args := ci.Common().Args
		sl, ok := args[len(args)-2].(*ssa.Slice)
		if !ok || sl.X != buf {
			why = "PutUint32 target is not a slice of the frame bytes"
			continue
		}
		lo, ok1 := core.ConstInt(sl.Low)
		hi, ok2 := core.ConstInt(sl.High)
		if sl.Low == nil || !ok1 || !ok2 || lo != 1 || hi != 5 {
			why = "PutUint32 target is not frame[1:5]"
			continue
		}
		// value == uint32(frame.Len() - 1)   (or len(bytes) - 1)
		val := core.StripConv(args[len(args)-1])
		sub, ok := val.(*ssa.BinOp)
		if !ok || sub.Op != token.SUB {
			why = "the patched value is not of the form length - 1"
			continue
		}
		k, okk := core.ConstInt(sub.Y)
		lenOK := false
		if lc, isCall := sub.X.(*ssa.Call); isCall {
			if isBytesBufferMethod(lc, "Len") {
				lenOK = true
			} else if x, isLen := core.IsLenOf(lc); isLen && x == buf {
				lenOK = true
			}
		}
		if !okk || k != 1 || !lenOK {
			why = "the patched value is not (frame length) - 1"
			continue
		}
		patched = true
	}
	R.Check(patched, "C02.R4", "End:length-backpatch", c.at(w), "before the frame is written its bytes 1..5 receive big-endian uint32(frame length - 1) = 4 + body size", "PutUint32(frame[1:5], uint32(Len()-1)) dominates the write", why)
	// reset on every exit
	resetAll := false
	for _, ci := range core.Calls(end) {
		if d, ok := ci.(*ssa.Defer); ok && (isWriterMethod(d, "Reset") || isBytesBufferMethod(d, "Reset")) {
			all := true
			for _, r := range returns(end) {
				if r.Block() == end.Recover {
					continue
				}
				if !core.InstrDominates(d, r) {
					all = false
				}
			}
			resetAll = all
		}
	}
	if !resetAll { // explicit reset on every path to a return
		resetAll = true
		for _, r := range returns(end) {
			if r.Block() == end.Recover {
				continue
			}
			found := false
			for _, ci := range core.Calls(end) {
				if _, isDefer := ci.(*ssa.Defer); !isDefer && (isWriterMethod(ci, "Reset") || isBytesBufferMethod(ci, "Reset")) && core.InstrDominates(ci, r) {
					found = true
				}
			}
			if !found {
				resetAll = false
			}
		}
	}
	R.Check(resetAll, "C02.R4", "End:reset-on-every-exit", c.atFn(end), "End empties the frame and clears the latch on every exit, also when the write failed", "a deferred (or dominating) Reset covers every return", "some return of End is not covered by a frame Reset")
}
