package rules

import (
	"go/token"
	"go/types"
	"strings"

	"golang.org/x/tools/go/ssa"

	"pwv/internal/core"
)

func init() { Registry["C07"] = runC07 }

// mentionsNamed reports whether type t structurally contains one of the named wire types.
func mentionsNamed(t types.Type, names map[string]bool, seen map[types.Type]bool) bool {
	if seen[t] {
		return false
	}
	seen[t] = true
	switch x := t.(type) {
	case *types.Named:
		if x.Obj().Pkg() != nil && x.Obj().Pkg().Path() == pkWire && names[x.Obj().Name()] {
			return true
		}
		return false // do not look inside other named types (sync.*, slog.Logger, ...)
	case *types.Pointer:
		return mentionsNamed(x.Elem(), names, seen)
	case *types.Slice:
		return mentionsNamed(x.Elem(), names, seen)
	case *types.Array:
		return mentionsNamed(x.Elem(), names, seen)
	case *types.Map:
		return mentionsNamed(x.Key(), names, seen) || mentionsNamed(x.Elem(), names, seen)
	case *types.Chan:
		return mentionsNamed(x.Elem(), names, seen)
	case *types.Struct:
		for i := 0; i < x.NumFields(); i++ {
			if mentionsNamed(x.Field(i).Type(), names, seen) {
				return true
			}
		}
	}
	return false
}

// serverStores lists stores into fields of the shared *Server from connection scope.
func (c *Ctx) serverStores() []*ssa.Store {
	var out []*ssa.Store
	for fn := range c.connectionScope() {
		for _, b := range fn.Blocks {
			for _, in := range b.Instrs {
				st, ok := in.(*ssa.Store)
				if !ok {
					continue
				}
				if fr, ok := core.FieldOfAddr(st.Addr); ok && fr.Is(pkWire, "Server", fr.Name) {
					out = append(out, st)
				}
			}
		}
	}
	return out
}

// getStrings returns the GetString calls of fn ordered by dominance.
func getStrings(fn *ssa.Function) []*ssa.Call {
	var out []*ssa.Call
	for _, ci := range core.Calls(fn) {
		if call, ok := ci.(*ssa.Call); ok && isReaderMethod(call, "GetString") {
			out = append(out, call)
		}
	}
	for i := 0; i < len(out); i++ {
		for j := i + 1; j < len(out); j++ {
			if core.InstrDominates(out[j], out[i]) {
				out[i], out[j] = out[j], out[i]
			}
		}
	}
	return out
}

func cacheInvoke(iface, method string) func(ssa.CallInstruction) bool {
	return func(ci ssa.CallInstruction) bool { return core.InvokeIs(ci.Common(), pkWire, iface, method) }
}

func runC07(c *Ctx) {
	R := c.R
	defer c.include("C07.S2", "C15", []string{"C15.R1"}, "statements of one connection are never altered by another: connection code stores only into objects it allocated itself", 20)
	defer c.include("C07.S1", "C18", []string{"C18.R4", "C18.R1", "C18.R2"}, "a portal keeps that Bind's parameters and result formats, and the names the caches are keyed by stay what the client sent: their containers are allocated per message and the bytes they view are never brought back under the message window", 8)
	R.Technique = "ownership / provenance rules: allocation-site freshness, who-may-write on Statement/Portal fields, map-update dominance, access-path identity of the values handed to the statement function"
	R.Explanation = "Decides the structural conditions under which names resolve to the latest definition, per connection, for every history and schedule: (R1) each connection's caches come from factory calls made in serve, the default factories and Set/Bind allocate fresh objects, no package-level variable and no field of the shared Server holds statements, portals or caches, and connection code never stores into the Server; " +
		"(R2) Statement and Portal fields are written only while the object is being constructed (immutability after publication), Set stores a new Statement on every call - so a portal keeps the definition it was bound to even if the name is parsed again; (R3) Set/Bind update the map under the given name on every successful path without an existence test (re-use replaces), Get/Execute look the given name up; " +
		"(R4) Execute invokes the function, columns, formats and parameters of the single portal it looked up; Describe-portal uses that portal's formats and its statement's columns; (R5) the wire fields reach the right sinks (Bind: portal name, statement name; Parse: name, query; Execute/Describe: name). (R6) Close must remove the name - open known finding: no removal operation exists. Not decided: user-supplied caches."
	R.Explanation += " (R6, beyond the open finding) removals from the cache maps are reachable only through the Close arm of handleCommand, the maps are replaced only by the nil-guarded lazy initialisation, updates happen only in Set / Bind, and a cache operation keyed by the Close message's name is applied to the cache of the message's own kind ('S' / 'P' name spaces are separate)."
	R.Trusted = []string{"go/types + go/ssa"}
	guarded := map[string]bool{"Statement": true, "Portal": true, "PreparedStatement": true, "StatementCache": true, "PortalCache": true, "DefaultStatementCache": true, "DefaultPortalCache": true, "Parameter": true}

	// ---------- R1
	serve := c.mustMethod("C07.R1", "wire", "Server", "serve")
	if serve != nil {
		R.Analysed(fname(serve))
		n := 0
		var regionBlocks []*ssa.BasicBlock
		for fn := range c.serveRegion() {
			regionBlocks = append(regionBlocks, fn.Blocks...)
		}
		for _, b := range regionBlocks {
			for _, in := range b.Instrs {
				st, ok := in.(*ssa.Store)
				if !ok {
					continue
				}
				fr, ok := core.FieldOfAddr(st.Addr)
				if !ok || !(fr.Is(pkWire, "Session", "Statements") || fr.Is(pkWire, "Session", "Portals")) {
					continue
				}
				n++
				call, isCall := st.Val.(*ssa.Call)
				want := map[string]string{"Statements": "newStatementCache", "Portals": "newPortalCache"}[fr.Name]
				_, fresh := fr.Base.(*ssa.Alloc)
				R.Check(isCall && callbackName(call) == want && fresh, "C07.R1", "serve:session-cache:"+fr.Name, c.at(st), "each connection gets its own "+fr.Name+" cache from the factory, in a Session allocated for it", "store of a Server."+fr.Name+"() call result into a fresh Session", "Session."+fr.Name+" is not the result of a per-connection factory call")
			}
		}
		R.Floor("C07.R1", "cache stores into the per-connection Session", n, 2)
		// the Session that runs the command loop is allocated for this connection on every path (not taken from a pool,
		// a field or a package variable: a recycled Session brings the previous connection's statements and portals)
		nLoop := 0
		cc := c.P.Method("wire", "Session", "consumeCommands")
		for fn := range c.serveRegion() {
			for _, ci := range callsIn(fn, calleeIs(cc)) {
				nLoop++
				R.Check(c.freshAlloc(ci.Common().Args[0], 4), "C07.R1", "serve:session-is-fresh", c.at(ci), "the Session that serves a connection is allocated for that connection", "the receiver of the command loop is a new allocation on every path", "the Session handed to the command loop is not a fresh allocation on every path (e.g. recycled through a sync.Pool): names, statements and portals of an earlier connection are visible to this one")
			}
		}
		R.Floor("C07.R1", "command-loop calls in the serve region", nLoop, 1)
	}
	for _, fnName := range []string{"DefaultStatementCacheFn", "DefaultPortalCacheFn"} {
		if fn := c.mustFunc("C07.R1", "wire", fnName); fn != nil {
			fresh := len(returns(fn)) > 0
			for _, r := range returns(fn) {
				v := r.Results[0]
				if mi, ok := v.(*ssa.MakeInterface); ok {
					v = mi.X
				}
				if a, ok := v.(*ssa.Alloc); !ok || !a.Heap {
					fresh = false
				}
			}
			R.Check(fresh, "C07.R1", fnName+":fresh", c.atFn(fn), "the default cache factory returns a new, empty cache on every call", "returns a fresh allocation", "the factory can return a shared cache object")
		}
	}
	// no global / Server field can hold statements, portals or caches
	for short, pkg := range c.P.Scope {
		for name, m := range pkg.Members {
			g, ok := m.(*ssa.Global)
			if !ok {
				continue
			}
			if mentionsNamed(g.Type(), guarded, map[types.Type]bool{}) {
				R.Fail("C07.R1", "global:"+short+"."+name, c.P.Pos(g.Pos()), "no package-level variable holds statements, portals or caches", "package-level variable "+name+" of type "+g.Type().String()+" can share prepared state between connections")
			}
		}
	}
	R.OK("C07.R1", "no-shared-globals", "-", "no package-level variable holds statements, portals or caches", "scan of every package-level variable of the scope")
	if sn := c.P.Named("wire", "Server"); sn != nil {
		st := sn.Underlying().(*types.Struct)
		for i := 0; i < st.NumFields(); i++ {
			f := st.Field(i)
			if sig, isFunc := f.Type().Underlying().(*types.Signature); isFunc && sig != nil {
				continue // factories / callbacks
			}
			if mentionsNamed(f.Type(), guarded, map[types.Type]bool{}) {
				R.Fail("C07.R1", "Server-field:"+f.Name(), c.P.Pos(f.Pos()), "the shared Server holds no statements, portals or caches (only factories)", "field Server."+f.Name()+" of type "+f.Type().String()+" is shared by all connections")
			}
		}
		R.OK("C07.R1", "no-shared-server-fields", "-", "the shared Server holds no statements, portals or caches (only factories)", sprintf("%d fields inspected", st.NumFields()))
	}
	stores := c.serverStores()
	for _, st := range stores {
		fr, _ := core.FieldOfAddr(st.Addr)
		R.Fail("C07.R1", fkey(st.Parent())+":store-to-Server."+fr.Name, c.at(st), "connection code never writes to the shared Server", "store to Server."+fr.Name+" from connection scope: state written by one connection is visible to all others")
	}
	R.Check(len(stores) == 0, "C07.R1", "no-server-stores-from-connection-scope", "-", "connection code never writes to the shared Server", sprintf("%d functions in connection scope, no store to a Server field", len(c.connectionScope())), "see the reported stores")

	// ---------- R2: immutability of Statement / Portal
	c.constructOnly("C07.R2", "a published statement / portal is never modified (a portal keeps the definition it was bound to)", "portals bound earlier observe the change")

	// ---------- R3: map discipline of the default caches
	type cacheFn struct{ typ, method, mapField string }
	for _, cf := range []cacheFn{{"DefaultStatementCache", "Set", "statements"}, {"DefaultPortalCache", "Bind", "portals"}} {
		fn := c.mustMethod("C07.R3", "wire", cf.typ, cf.method)
		if fn == nil {
			continue
		}
		R.Analysed(fname(fn))
		// the update: in the method itself, or in a helper method of the cache that receives key and value as parameters
		var upd ssa.Instruction
		var updKey, updVal ssa.Value
		findUpdate := func(f *ssa.Function) *ssa.MapUpdate {
			for _, b := range f.Blocks {
				for _, in := range b.Instrs {
					if mu, ok := in.(*ssa.MapUpdate); ok {
						if _, p := pathOf(mu.Map); p == "."+cf.mapField {
							return mu
						}
					}
				}
			}
			return nil
		}
		if mu := findUpdate(fn); mu != nil {
			upd, updKey, updVal = mu, mu.Key, mu.Value
		} else {
			for _, ci := range core.Calls(fn) {
				h := core.StaticCallee(ci)
				if h == nil || h.Signature.Recv() == nil || h.Blocks == nil || !types.Identical(h.Signature.Recv().Type(), fn.Signature.Recv().Type()) {
					continue
				}
				mu := findUpdate(h)
				if mu == nil {
					continue
				}
				dominatesAll := true
				for _, r := range returns(h) {
					if !core.InstrDominates(mu, r) {
						dominatesAll = false
					}
				}
				arg := func(v ssa.Value) ssa.Value {
					for i, p := range h.Params {
						if ssa.Value(p) == v && i < len(ci.Common().Args) {
							return ci.Common().Args[i]
						}
					}
					return nil
				}
				if dominatesAll {
					upd, updKey, updVal = ci, arg(mu.Key), arg(mu.Value)
				}
			}
		}
		if upd == nil {
			R.Fail("C07.R3", cf.typ+"."+cf.method+":map-update", c.atFn(fn), cf.method+" stores the definition under the given name", "no update of the "+cf.mapField+" map (in the method or in a helper of the cache that always performs it)")
			continue
		}
		nameParam := fn.Params[2]
		R.Check(updKey == ssa.Value(nameParam), "C07.R3", cf.typ+"."+cf.method+":key-is-name", c.at(upd), "the definition is stored under exactly the name given", "map key is the name parameter", "the map key is not the name parameter")
		okAll := true
		for _, r := range returns(fn) {
			if r.Block() == fn.Recover {
				continue
			}
			cls := c.Err().Classify(errOperand(r), r.Block())
			if cls.MayBeNil() && !core.InstrDominates(upd, r) {
				okAll = false
			}
		}
		R.Check(okAll, "C07.R3", cf.typ+"."+cf.method+":always-replaces", c.at(upd), "every successful "+cf.method+" (re)defines the name - an existing definition is replaced, never kept", "the map update dominates every return that may be nil", "a successful return is reachable without the map update (e.g. guarded by an existence test)")
		// the value stored is a fresh object
		fresh := c.freshAlloc(updVal, 3) // allocated here, or by a constructor of the scope that always allocates
		R.Check(fresh, "C07.R3", cf.typ+"."+cf.method+":fresh-definition", c.at(upd), "each definition is a new object (earlier portals keep the object they were bound to)", "the stored value is allocated in this call", "the stored value is not a fresh allocation")
	}
	for _, cf := range []cacheFn{{"DefaultStatementCache", "Get", "statements"}, {"DefaultPortalCache", "Get", "portals"}, {"DefaultPortalCache", "Execute", "portals"}} {
		fn := c.mustMethod("C07.R3", "wire", cf.typ, cf.method)
		if fn == nil {
			continue
		}
		R.Analysed(fname(fn))
		key, _, site, ok := c.cacheLookup(fn, cf.mapField, 0)
		if !ok {
			R.Fail("C07.R3", cf.typ+"."+cf.method+":lookup", c.atFn(fn), cf.method+" looks the name up in the "+cf.mapField+" map", "no lookup in the "+cf.mapField+" map found (directly or through a helper method of the cache)")
			continue
		}
		R.Check(key == ssa.Value(fn.Params[2]), "C07.R3", cf.typ+"."+cf.method+":lookup-by-name", c.at(site), cf.method+" resolves exactly the name given", "lookup key is the name parameter", "the lookup key is not the name parameter")
	}

	// ---------- R4: portal provenance in Execute and Describe
	if ex := c.P.Method("wire", "DefaultPortalCache", "Execute"); ex != nil {
		_, portal, _, _ := c.cacheLookup(ex, "portals", 0)
		n := 0
		for _, ci := range core.Calls(ex) {
			if callbackName(ci) != "stmt" {
				continue
			}
			n++
			cc := ci.Common()
			root, p := pathOf(cc.Value)
			R.Check(portal != nil && root == portal && p == ".statement.fn", "C07.R4", "Execute:function-of-looked-up-portal", c.at(ci), "Execute runs the statement the looked-up portal was bound to", "callee is portal.statement.fn of the lookup result", "the function executed is not the looked-up portal's statement function")
			root, p = pathOf(cc.Args[2])
			R.Check(root == portal && p == ".parameters", "C07.R4", "Execute:parameters-of-looked-up-portal", c.at(ci), "Execute passes that Bind's parameters", "argument is portal.parameters", "the parameters passed are not the looked-up portal's")
			if call, ok := core.Strip(cc.Args[1]).(*ssa.Call); ok && core.FuncIs(core.StaticCallee(call), pkWire, "NewDataWriter") {
				r1, p1 := pathOf(call.Call.Args[1])
				r2, p2 := pathOf(call.Call.Args[2])
				R.Check(r1 == portal && p1 == ".statement.columns" && r2 == portal && p2 == ".formats", "C07.R4", "Execute:columns-and-formats-of-looked-up-portal", c.at(call), "the result writer uses that portal's statement columns and that Bind's result formats", "NewDataWriter(portal.statement.columns, portal.formats)", "the result writer is built from other columns / formats than the looked-up portal's")
			} else {
				R.Fail("C07.R4", "Execute:writer", c.at(ci), "the statement function receives a writer built for the portal", "the DataWriter argument is not a NewDataWriter result")
			}
		}
		R.Floor("C07.R4", "statement invocations in Execute", n, 1)
	}
	if hd := c.mustMethod("C07.R4", "wire", "Session", "handleDescribe"); hd != nil {
		R.Analysed(fname(hd))
		nSink := 0
		gs := getStrings(hd)
		var msgName ssa.Value
		if len(gs) >= 1 {
			msgName = resultOf(gs[len(gs)-1], 0)
		}
		for _, root := range c.describeRoots() {
			hdTop := hd
			hd := root
			sinks := c.describeSinks(hd)
			name := msgName
			if hd != hdTop {
				// a per-kind helper: the name is the parameter that receives the message's name at the call
				R.Analysed(fname(hd))
				name = nil
				for _, w := range callsIn(hdTop, calleeIs(hd)) {
					for i, a := range w.Common().Args {
						if msgName != nil && a == msgName && i < len(hd.Params) {
							name = hd.Params[i]
						}
					}
				}
			}
			for _, kind := range []string{"StatementCache", "PortalCache"} {
				for _, ci := range callsIn(hd, cacheInvoke(kind, "Get")) {
					call := ci.(*ssa.Call)
					R.Check(name != nil && call.Call.Args[1] == name, "C07.R5", "Describe:"+kind+":name", c.at(call), "Describe looks up the name carried by the message", "lookup name is the message's string field", "the lookup name is not the message's name field")
					obj := resultOf(call, 0)
					for _, w := range sinks {
						if !anyDominates(nilEdges(obj, false), w.where) {
							continue
						}
						nSink++
						rc, pc := pathOf(w.cols)
						if kind == "PortalCache" {
							rf, pf := pathOf(w.fm)
							R.Check(rc == obj && pc == ".statement.columns" && rf == obj && pf == ".formats", "C07.R4", "Describe-portal:uses-looked-up-portal", c.at(w.at), "Describe-portal announces the looked-up portal's statement columns with that Bind's result formats", "writeColumnDescription(portal.formats, portal.statement.columns)", "the description is not built from the looked-up portal")
						} else {
							R.Check(rc == obj && pc == ".columns" && core.IsNilConst(w.fm), "C07.R4", "Describe-statement:uses-looked-up-statement", c.at(w.at), "Describe-statement announces the looked-up statement's columns (formats unknown yet)", "writeColumnDescription(nil, statement.columns)", "the description is not built from the looked-up statement")
						}
					}
					if kind == "StatementCache" {
						for _, s := range c.paramDescriptionSites() {
							for i, w := range s.at {
								R.Check(s.countRoot[i] == obj && s.countPath[i] == ".parameters", "C07.R4", "Describe-statement:parameter-list", c.at(w), "ParameterDescription announces the looked-up statement's declared parameter types", "writeParameterDescription(statement.parameters)", "the parameter list announced is not the looked-up statement's")
							}
						}
					}
				}
			}
		}
		R.Floor("C07.R4", "descriptions built from a looked-up object in handleDescribe", nSink, 2)
	}

	// ---------- R5: wire field -> sink
	if hb := c.mustMethod("C07.R5", "wire", "Session", "handleBind"); hb != nil {
		R.Analysed(fname(hb))
		// the Bind unit: handleBind and the helpers of package wire it calls directly (a decoding half, a binding half);
		// values are compared after following them through carriers, helper results and helper parameters
		unit := []*ssa.Function{hb}
		for _, ci := range core.Calls(hb) {
			if h := core.StaticCallee(ci); h != nil && c.P.InPkg(h, "wire") && h.Blocks != nil && h.Signature.Recv() != nil && c.onlyCaller(h) == ci {
				unit = append(unit, h)
				R.Analysed(fname(h))
			}
		}
		rp, rc := c.bindDecoders()
		stop := map[*ssa.Function]bool{rp: true, rc: true}
		res := func(v ssa.Value) ssa.Value { return c.resolveFlow(v, stop, 6) }
		var gs []*ssa.Call
		for _, fn := range unit {
			if g := getStrings(fn); len(g) == 2 && len(gs) == 0 {
				gs = g
			}
		}
		if len(gs) != 2 {
			R.Fail("C07.R5", "Bind:fields", c.atFn(hb), "Bind reads the portal name and the statement name", sprintf("%d GetString calls", len(gs)))
		} else {
			portalName, stmtName := resultOf(gs[0], 0), resultOf(gs[1], 0)
			var got *ssa.Call
			nBind := 0
			for _, fn := range unit {
				for _, ci := range callsIn(fn, cacheInvoke("StatementCache", "Get")) {
					got = ci.(*ssa.Call)
					R.Check(res(got.Call.Args[1]) == stmtName, "C07.R5", "Bind:statement-name", c.at(ci), "Bind resolves the statement named by the message's second string", "Get(name = 2nd string)", "Statements.Get is not called with the message's statement name")
				}
			}
			for _, fn := range unit {
				for _, ci := range callsIn(fn, cacheInvoke("PortalCache", "Bind")) {
					nBind++
					a := ci.Common().Args
					okStmt := got != nil && a[2] == resultOf(got, 0)
					R.Check(res(a[1]) == portalName && okStmt, "C07.R5", "Bind:portal-name-and-statement", c.at(ci), "the portal is created under the message's first string and attached to the statement just resolved", "Bind(name = 1st string, stmt = Get result)", "Portals.Bind does not receive the message's portal name and the resolved statement")
					okP, okF := false, false
					if ex, ok := res(a[3]).(*ssa.Extract); ok {
						if call, ok := ex.Tuple.(*ssa.Call); ok && c.tailTarget(core.StaticCallee(call), 2) == rp && ex.Index == 0 {
							okP = true
						}
					}
					if ex, ok := res(a[4]).(*ssa.Extract); ok {
						if call, ok := ex.Tuple.(*ssa.Call); ok && c.tailTarget(core.StaticCallee(call), 2) == rc && ex.Index == 0 {
							okF = true
						}
					}
					R.Check(okP && okF, "C07.R5", "Bind:parameters-and-formats", c.at(ci), "the portal stores this Bind's parameters and result formats", "Bind(readParameters result, readColumnTypes result)", "Portals.Bind does not receive this message's decoded parameters / result formats")
				}
			}
			R.Floor("C07.R5", "Portals.Bind calls in the Bind unit", nBind, 1)
		}
	}
	if hp := c.mustMethod("C07.R5", "wire", "Session", "handleParse"); hp != nil {
		R.Analysed(fname(hp))
		gs := getStrings(hp)
		var name, query ssa.Value
		if len(gs) == 2 {
			name, query = resultOf(gs[0], 0), resultOf(gs[1], 0)
		} else if len(gs) == 0 {
			// the leading fields may be read by a helper that hands them back as results
			for _, ci := range core.Calls(hp) {
				h := core.StaticCallee(ci)
				call, isCall := ci.(*ssa.Call)
				if h == nil || !isCall || !c.P.InPkg(h, "wire") || h.Blocks == nil || len(getStrings(h)) != 2 {
					continue
				}
				hgs := getStrings(h)
				for _, r := range returns(h) {
					if cls := c.Err().Classify(errOperand(r), r.Block()); !cls.MayBeNil() {
						continue
					}
					for i, rv := range r.Results {
						if rv == resultOf(hgs[0], 0) {
							name = resultOf(call, i)
						}
						if rv == resultOf(hgs[1], 0) {
							query = resultOf(call, i)
						}
					}
				}
				R.Analysed(fname(h))
			}
		}
		if name == nil || query == nil {
			R.Fail("C07.R5", "Parse:fields", c.atFn(hp), "Parse reads the statement name and the query", sprintf("%d GetString calls", len(gs)))
		} else {
			var parsed *ssa.Call
			for _, ci := range core.Calls(hp) {
				if callbackName(ci) == "parse" {
					parsed = ci.(*ssa.Call)
					R.Check(parsed.Call.Args[1] == query, "C07.R5", "Parse:query", c.at(ci), "the parser receives the message's query string", "parse(query = 2nd string)", "the parser is not called with the message's query")
				}
			}
			for _, ci := range callsIn(hp, cacheInvoke("StatementCache", "Set")) {
				a := ci.Common().Args
				okStmt := false
				// the statement handed to Set is taken from the parser's result: through a selecting helper of package
				// wire that receives that result, or as an element of the returned list
				if ex, ok := a[2].(*ssa.Extract); ok && ex.Index == 0 && parsed != nil {
					if call, ok := ex.Tuple.(*ssa.Call); ok && core.StaticCallee(call) != nil && c.P.InPkg(core.StaticCallee(call), "wire") {
						for _, sa := range call.Call.Args {
							if e2, ok := sa.(*ssa.Extract); ok && e2.Tuple == ssa.Value(parsed) {
								okStmt = true
							}
						}
					}
				}
				if root, pth := pathOf(a[2]); parsed != nil && pth == "[]" {
					if e2, ok := root.(*ssa.Extract); ok && e2.Tuple == ssa.Value(parsed) && e2.Index == 0 {
						okStmt = true
					}
				}
				R.Check(a[1] == name && okStmt, "C07.R5", "Parse:name-and-statement", c.at(ci), "the statement just parsed is stored under the message's name", "Set(name = 1st string, singleStatement(parse(query)))", "Statements.Set does not receive the message's name and the statement parsed from its query")
			}
		}
	}
	if he := c.mustMethod("C07.R5", "wire", "Session", "handleExecute"); he != nil {
		R.Analysed(fname(he))
		gs := getStrings(he)
		for _, ci := range callsIn(he, cacheInvoke("PortalCache", "Execute")) {
			R.Check(len(gs) == 1 && ci.Common().Args[1] == resultOf(gs[0], 0), "C07.R5", "Execute:portal-name", c.at(ci), "Execute runs the portal named by the message", "Execute(name = the message's string)", "Portals.Execute is not called with the message's portal name")
		}
	}

	// ---------- R6: Close removes the name
	removal := false
	for _, fn := range c.P.ScopeFuncs() {
		for _, ci := range core.Calls(fn) {
			if core.BuiltinName(ci.Common()) == "delete" {
				if _, p := pathOf(ci.Common().Args[0]); strings.HasSuffix(p, ".statements") || strings.HasSuffix(p, ".portals") {
					removal = true
				}
			}
		}
	}
	// who may forget or rebind a name: a bound name stays resolvable until Close (or a re-definition through
	// Set / Bind). Removals are reachable only through the Close arm; the maps are replaced only by the lazy
	// nil-guarded initialisation; updates happen only in the designated Set / Bind methods.
	nonClose := c.reachOutsideArm('C')
	nMut := 0
	for _, fn := range c.P.ScopeFuncs() {
		for _, b := range fn.Blocks {
			for _, in := range b.Instrs {
				switch v := in.(type) {
				case ssa.CallInstruction:
					bn := core.BuiltinName(v.Common())
					if bn != "delete" && bn != "clear" {
						continue
					}
					_, p := pathOf(v.Common().Args[0])
					if !strings.HasSuffix(p, ".statements") && !strings.HasSuffix(p, ".portals") {
						continue
					}
					nMut++
					host := fn
					for host.Parent() != nil {
						host = host.Parent()
					}
					R.Check(!nonClose[host], "C07.R6", fkey(fn)+":removal-outside-Close:"+bn+p, c.at(in), "a statement / portal name is removed only when the client closes it", "the removal is reachable only through the Close arm of handleCommand", bn+"() on "+p+" in "+fname(fn)+" is reachable from a message other than Close: a bound name silently becomes unresolvable (a later Execute / Describe of that portal fails)")
				case *ssa.Store:
					fr, ok := core.FieldOfAddr(v.Addr)
					if !ok || !(fr.Is(pkWire, "DefaultStatementCache", "statements") || fr.Is(pkWire, "DefaultPortalCache", "portals")) {
						continue
					}
					nMut++
					lazy := false
					for _, b2 := range fn.Blocks {
						for _, i2 := range b2.Instrs {
							if cmp, isCmp := i2.(*ssa.BinOp); isCmp {
								if x, _, isNil := core.NilTest(cmp); isNil {
									if f2, ok2 := core.FieldOfValue(x); ok2 && f2.Name == fr.Name && f2.Struct == fr.Struct && anyDominates(nilEdges(x, true), b) {
										lazy = true
									}
								}
							}
						}
					}
					R.Check(lazy, "C07.R6", fkey(fn)+":map-replaced:"+fr.Name, c.at(in), "the cache map is created once (lazily, while it is nil) and never replaced", "the store is dominated by the map == nil edge", "the "+fr.Name+" map is replaced in "+fname(fn)+": every name defined so far becomes unresolvable")
				case *ssa.MapUpdate:
					_, p := pathOf(v.Map)
					var arm byte
					var armName string
					switch {
					case strings.HasSuffix(p, ".statements"):
						arm, armName = 'P', "Parse"
					case strings.HasSuffix(p, ".portals"):
						arm, armName = 'B', "Bind"
					default:
						continue
					}
					nMut++
					host := fn
					for host.Parent() != nil {
						host = host.Parent()
					}
					R.Check(!c.reachOutsideArm(arm)[host], "C07.R6", fkey(fn)+":map-update"+p, c.at(in), "a name is (re)defined only by a "+armName+" message", "the update is reachable only through the "+armName+" arm of handleCommand", "the map "+p+" is updated in "+fname(fn)+", which is reachable from a message other than "+armName+": a name can change what it resolves to without a "+armName+" of that name")
				}
			}
		}
	}
	R.Floor("C07.R6", "mutation sites of the cache maps (updates, lazy initialisations, removals)", nMut, 4)
	// a portal is not removed under the name of a statement (the two name spaces are separate)
	c.c07CloseKinds()
	R.Check(removal, "C07.R6", "Close:no-removal", "-", "Close makes the statement / portal name unresolvable (a removal from the cache map is reachable from the Close arm)", "a delete on the cache maps exists", "no delete() on the statement or portal map exists anywhere in the library and the Close arm reads no name: Close is acknowledged but removes nothing")
}

// cacheLookup finds the map lookup of a cache method: directly in fn, or in a helper method of the same
// receiver whose key is its own parameter. It returns the key and the looked-up value in fn's terms.
func (c *Ctx) cacheLookup(fn *ssa.Function, mapField string, depth int) (key, val ssa.Value, site ssa.Instruction, ok bool) {
	for _, b := range fn.Blocks {
		for _, in := range b.Instrs {
			lk, isLk := in.(*ssa.Lookup)
			if !isLk {
				continue
			}
			if _, p := pathOf(lk.X); p != "."+mapField {
				continue
			}
			v := ssa.Value(lk)
			if lk.CommaOk {
				for _, r := range core.Referrers(lk) {
					if e, isE := r.(*ssa.Extract); isE && e.Index == 0 {
						v = e
					}
				}
			}
			return lk.Index, v, lk, true
		}
	}
	if depth > 1 {
		return nil, nil, nil, false
	}
	for _, ci := range core.Calls(fn) {
		call, isCall := ci.(*ssa.Call)
		if !isCall {
			continue
		}
		h := core.StaticCallee(call)
		if h == nil || h == fn || h.Signature.Recv() == nil || fn.Signature.Recv() == nil || !types.Identical(h.Signature.Recv().Type(), fn.Signature.Recv().Type()) {
			continue
		}
		hk, hv, _, hok := c.cacheLookup(h, mapField, depth+1)
		if !hok {
			continue
		}
		// the helper's key must be its parameter, and it must return the looked-up value
		pi := -1
		for i, p := range h.Params {
			if hk == ssa.Value(p) {
				pi = i
			}
		}
		if pi < 0 || call.Call.Args[0] != ssa.Value(fn.Params[0]) {
			continue
		}
		ri := -1
		for _, r := range returns(h) {
			for i, res := range r.Results {
				if res == hv {
					ri = i
				}
			}
		}
		if ri < 0 {
			continue
		}
		return call.Call.Args[pi], resultOf(call, ri), call, true
	}
	return nil, nil, nil, false
}

// reachOutsideArm returns the functions reachable (CHA) from serve without passing through the
// handleCommand arm of client message type arm.
func (c *Ctx) reachOutsideArm(arm byte) map[*ssa.Function]bool {
	if c.armReach == nil {
		c.armReach = map[byte]map[*ssa.Function]bool{}
	}
	if m, ok := c.armReach[arm]; ok {
		return m
	}
	m := c.reachOutsideArm0(arm)
	c.armReach[arm] = m
	return m
}

func (c *Ctx) reachOutsideArm0(arm byte) map[*ssa.Function]bool {
	hc, _ := c.dispatcher()
	skip := map[*ssa.BasicBlock]bool{}
	if hc != nil {
		for _, p := range hc.Params {
			if !core.IsNamed(p.Type(), pkTypes, "ClientMessage") {
				continue
			}
			for _, e := range constEqEdges(p, int64(arm), true) {
				for _, b := range hc.Blocks {
					if e.dominates(b) {
						skip[b] = true
					}
				}
			}
		}
	}
	out := map[*ssa.Function]bool{}
	cg := c.P.CHA()
	var walk func(fn *ssa.Function)
	walk = func(fn *ssa.Function) {
		if fn == nil || out[fn] || !c.P.InScope(fn) {
			return
		}
		out[fn] = true
		n := cg.Nodes[fn]
		if n == nil {
			return
		}
		for _, e := range n.Out {
			if e.Site != nil && skip[e.Site.Block()] {
				continue
			}
			walk(e.Callee.Func)
		}
	}
	walk(c.P.Method("wire", "Server", "serve"))
	return out
}

// c07CloseKinds: in the function that dispatches on the Close message's kind byte ('S' / 'P'), a call
// that carries the message's name and a portal-cache operand is not made on the statement edge (and
// vice versa): that would remove the portal that happens to share the statement's name.
func (c *Ctx) c07CloseKinds() {
	R := c.R
	hc, _ := c.dispatcher()
	if hc == nil {
		return
	}
	kindOf := func(ci ssa.CallInstruction) string {
		vals := append([]ssa.Value{}, ci.Common().Args...)
		if ci.Common().IsInvoke() {
			vals = append(vals, ci.Common().Value)
		}
		for _, a := range vals {
			x := core.Strip(a)
			for {
				if mi, ok := x.(*ssa.MakeInterface); ok {
					x = core.Strip(mi.X)
					continue
				}
				if ci2, ok := x.(*ssa.ChangeInterface); ok {
					x = core.Strip(ci2.X)
					continue
				}
				break
			}
			if core.IsNamed(x.Type(), pkWire, "PortalCache") || core.IsNamed(x.Type(), pkWire, "DefaultPortalCache") {
				return "P"
			}
			if core.IsNamed(x.Type(), pkWire, "StatementCache") || core.IsNamed(x.Type(), pkWire, "DefaultStatementCache") {
				return "S"
			}
		}
		return ""
	}
	for _, fn := range c.P.ScopeFuncs() {
		if !c.P.InPkg(fn, "wire") || fn == hc {
			continue
		}
		// functions that compare a message byte with both 'S' and 'P' and are reached from the Close arm only
		var names []ssa.Value
		for _, ci := range core.Calls(fn) {
			if isReaderMethod(ci, "GetString") {
				if call, ok := ci.(*ssa.Call); ok {
					names = append(names, resultOf(call, 0))
				}
			}
		}
		if len(names) == 0 {
			continue
		}
		edgesOf := map[string][]edge{}
		for _, b := range fn.Blocks {
			for _, in := range b.Instrs {
				cmp, ok := in.(*ssa.BinOp)
				if !ok || cmp.Op != token.EQL {
					continue
				}
				for _, k := range []byte{'S', 'P'} {
					if kv, ok := core.ConstInt(cmp.Y); ok && kv == int64(k) {
						edgesOf[string(k)] = append(edgesOf[string(k)], constEqEdges(cmp.X, int64(k), true)...)
					}
				}
			}
		}
		if len(edgesOf["S"]) == 0 || len(edgesOf["P"]) == 0 {
			continue
		}
		if c.reachOutsideArm('C')[fn] {
			continue // Describe also dispatches on 'S' / 'P'
		}
		for _, ci := range core.Calls(fn) {
			k := kindOf(ci)
			if k == "" {
				continue
			}
			carries := false
			for _, a := range ci.Common().Args {
				for _, n := range names {
					if a == n {
						carries = true
					}
				}
			}
			if !carries {
				continue
			}
			other := map[string]string{"S": "P", "P": "S"}[k]
			wrong := anyDominates(edgesOf[other], ci.Block()) && !anyDominates(edgesOf[k], ci.Block())
			what := map[string]string{"S": "statement", "P": "portal"}
			R.Check(!wrong, "C07.R6", fkey(fn)+":close-kind:"+callDescr(ci), c.at(ci), "Close of a "+what[other]+" does not touch the "+what[k]+" that happens to have the same name (separate name spaces)", "the "+what[k]+"-cache operation keyed by the message's name is not on the '"+other+"' edge", callDescr(ci)+" applies the Close message's name to the "+what[k]+" cache on the '"+other+"' (close "+what[other]+") edge: an unrelated "+what[k]+" of the same name is removed")
		}
	}
}

// constructOnly: fields of Statement / Portal are stored only into an object allocated in the same function.
func (c *Ctx) constructOnly(rule, desc, consequence string) {
	R := c.R
	nStores := 0
	for _, fn := range c.P.ScopeFuncs() {
		for _, b := range fn.Blocks {
			for _, in := range b.Instrs {
				st, ok := in.(*ssa.Store)
				if !ok {
					continue
				}
				fr, ok := core.FieldOfAddr(st.Addr)
				if !ok || !(fr.Is(pkWire, "Statement", fr.Name) || fr.Is(pkWire, "Portal", fr.Name)) {
					continue
				}
				nStores++
				a, fresh := fr.Base.(*ssa.Alloc)
				fresh = fresh && a.Parent() == fn
				R.Check(fresh, rule, fkey(fn)+":construct-only:"+fr.Struct.Obj().Name()+"."+fr.Name, c.at(st), desc, "store into an object allocated in the same function", "store to "+fr.Struct.Obj().Name()+"."+fr.Name+" of an existing object: "+consequence)
			}
		}
	}
	R.Floor(rule, "field stores constructing Statement / Portal", nStores, 6)
}

// freshAlloc: v is, on every path, an object allocated by the code that produced it - an allocation, a merge of such,
// or the result of a function of the scope that returns one.
func (c *Ctx) freshAlloc(v ssa.Value, depth int) bool {
	if depth == 0 {
		return false
	}
	switch x := core.Strip(v).(type) {
	case *ssa.Alloc:
		return true
	case *ssa.Phi:
		for _, e := range x.Edges {
			if !c.freshAlloc(e, depth-1) {
				return false
			}
		}
		return len(x.Edges) > 0
	case *ssa.Call:
		callee := core.StaticCallee(x)
		if callee == nil || !c.P.InScope(callee) || len(returns(callee)) == 0 {
			return false
		}
		for _, r := range returns(callee) {
			if len(r.Results) != 1 || !c.freshAlloc(r.Results[0], depth-1) {
				return false
			}
		}
		return true
	}
	return false
}

// resolveFlow follows a value to where it was produced across the functions of one message handler: through a carrier
// struct, from a parameter of a private helper to the argument its only caller passes, and from a result of a helper of
// package wire to the single value that helper returns in that position on its successful returns. Calls of the
// functions in stop are not looked into (their result is the thing asked for).
func (c *Ctx) resolveFlow(v ssa.Value, stop map[*ssa.Function]bool, depth int) ssa.Value {
	for ; depth > 0; depth-- {
		v = core.Strip(v)
		if r, h := c.throughCarrier(v); h != nil {
			v = r
			continue
		}
		if prm, ok := v.(*ssa.Parameter); ok {
			if a, _ := c.callerArg(prm); a != nil {
				v = a
				continue
			}
			return v
		}
		ex, ok := v.(*ssa.Extract)
		if !ok {
			return v
		}
		call, ok := ex.Tuple.(*ssa.Call)
		if !ok {
			return v
		}
		h := core.StaticCallee(call)
		if h == nil || stop[h] || stop[c.tailTarget(h, 2)] || !c.P.InPkg(h, "wire") || h.Blocks == nil {
			return v
		}
		var uniq ssa.Value
		okU := true
		for _, r := range returns(h) {
			if cls := c.Err().Classify(errOperand(r), r.Block()); !cls.MayBeNil() {
				continue
			}
			if ex.Index >= len(r.Results) {
				okU = false
				continue
			}
			rv := forwardLoad(r.Results[ex.Index])
			if uniq != nil && uniq != rv {
				okU = false
			}
			uniq = rv
		}
		if !okU || uniq == nil {
			return v
		}
		v = uniq
	}
	return v
}
