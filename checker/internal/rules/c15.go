package rules

import (
	"go/token"
	"go/types"
	"sort"
	"strings"

	"golang.org/x/tools/go/ssa"

	"pwv/internal/core"
)

func init() { Registry["C15"] = runC15 }

// concurrency-safe referent types (frozen table): values of these types may be shared between connections.
func safeShared(t types.Type) (bool, string) {
	if p, ok := t.(*types.Pointer); ok {
		t = p.Elem()
	}
	if core.IsErrorType(t) {
		return true, "sentinel error value (initialised once, compared and returned only)"
	}
	switch u := t.Underlying().(type) {
	case *types.Basic:
		return true, "immutable basic value"
	case *types.Signature:
		return true, "function value (user callback: its own state is the user's concern)"
	case *types.Chan:
		return true, "channel"
	case *types.Interface:
		_ = u
	}
	n := core.NamedOf(t)
	if n != nil && n.Obj().Pkg() != nil {
		switch n.Obj().Pkg().Path() + "." + n.Obj().Name() {
		case "sync.WaitGroup", "sync.RWMutex", "sync.Mutex", "sync.Once", "sync/atomic.Bool", "sync/atomic.Int32", "sync/atomic.Int64",
			"log/slog.Logger", "crypto/tls.Config", "net.Listener", "regexp.Regexp":
			return true, "documented safe for concurrent use"
		}
	}
	return false, ""
}

func runC15(c *Ctx) {
	R := c.R
	R.Technique = "shared-state inventory over the connection scope (CHA call graph from serve): who-may-write on Server fields / package variables / captured variables, freshness of context-slot values, capture analysis of go statements, lockset-free by construction"
	R.Explanation = "Data-race freedom and isolation are argued from the absence of shared mutable state, which is what is decided here for all schedules: (R1) inventory of everything two connections can both reach - the fields of the shared Server and the package-level variables of the library - and for each: connection code never stores to it, and reference-typed members are only read (maps / slices: lookup, range, len, clone) unless their type is documented as safe for concurrent use; closures that run per connection never store to variables captured from configuration-time functions; " +
		"(R2) the values placed in the per-connection context slots are created per connection: the type map is a fresh pgtype.NewMap() result (pgtype.Map memoises encode/scan plans without synchronisation), the parameter maps are fresh (C12.R3), the remote address comes from the connection; (R3) statement / portal caches are per connection (C07.R1 rules re-run), the per-connection reader and writer are created in serve and never handed to another goroutine, and variables captured by the accept loop's goroutines are allocated per iteration and not touched by the spawner afterwards. " +
		"'Transcript equals the solo run' follows from this absence of shared state; handler-owned state is out of scope and the observed equality of transcripts is not something static analysis decides."
	R.Assumptions = []string{"types in the safe table are safe for concurrent use as documented (sync.*, atomic.*, *slog.Logger, *tls.Config, net.Listener, *regexp.Regexp)", "user callbacks manage their own state"}
	R.Explanation += " (R1) also: no atomic write, sync.Once, sync.Map or sync.Pool operation on a Server field or package variable from connection code (locks, the wait group and atomic loads are shutdown coordination); no element store into a slice the function did not allocate itself (handler-supplied tables are read-only)."
	R.Trusted = []string{"go/types + go/ssa", "CHA call graph (over-approximates the connection scope)"}
	G := c.connectionScope()
	for fn := range G {
		R.Analysed(fname(fn))
	}
	R.Floor("C15.R1", "functions in connection scope", len(G), 60)

	// ---------- R1a: no store to Server fields / globals / configuration-time captured variables from G
	nStores := 0
	for fn := range G {
		for _, b := range fn.Blocks {
			for _, in := range b.Instrs {
				st, ok := in.(*ssa.Store)
				if !ok {
					continue
				}
				nStores++
				addr := st.Addr
				switch a := addr.(type) {
				case *ssa.Global:
					R.Fail("C15.R1", fkey(fn)+":store-to-global:"+a.Name(), c.at(st), "connection code never writes package-level variables", "store to package-level variable "+a.Name()+" from connection scope (unsynchronised write shared by all connections)")
				case *ssa.FreeVar:
					if !G[fn.Parent()] && !perSpawnCapture(fn, a) {
						R.Fail("C15.R1", fkey(fn)+":store-to-captured:"+a.Name(), c.at(st), "per-connection closures never write variables captured from configuration-time code", "store to captured variable "+a.Name()+" of "+fname(fn.Parent())+", which is shared by every connection that runs this closure")
					}
				case *ssa.FieldAddr:
					if fr, ok := core.FieldOfAddr(a); ok && fr.Is(pkWire, "Server", fr.Name) {
						R.Fail("C15.R1", fkey(fn)+":store-to-Server."+fr.Name, c.at(st), "connection code never writes to the shared Server", "store to Server."+fr.Name+" from connection scope")
					}
				}
			}
		}
	}
	// synchronised shared state is still shared: connection code may take the server's locks and register with its
	// wait group (shutdown coordination) and read atomics, but an atomic write, sync.Once, sync.Map or sync.Pool on a
	// Server field or package variable makes one connection's behaviour depend on what other connections did
	nSync := 0
	for fn := range G {
		for _, ci := range core.Calls(fn) {
			callee := core.StaticCallee(ci)
			if callee == nil || callee.Pkg == nil || callee.Signature.Recv() == nil || len(ci.Common().Args) == 0 {
				continue
			}
			pp := callee.Pkg.Pkg.Path()
			if pp != "sync" && pp != "sync/atomic" {
				continue
			}
			recv := ci.Common().Args[0]
			where := ""
			if fr, ok := core.FieldOfAddr(recv); ok && fr.Is(pkWire, "Server", fr.Name) {
				where = "Server." + fr.Name
			} else if g, ok := recv.(*ssa.Global); ok {
				where = "package variable " + g.Name()
			} else {
				continue
			}
			nSync++
			rt := core.NamedOf(callee.Signature.Recv().Type())
			tn := ""
			if rt != nil {
				tn = rt.Obj().Name()
			}
			okOp := false
			switch {
			case pp == "sync/atomic":
				okOp = callee.Name() == "Load"
			case tn == "Mutex" || tn == "RWMutex" || tn == "WaitGroup":
				okOp = true
			}
			R.Check(okOp, "C15.R1", fkey(fn)+":shared-sync-state:"+where+"."+callee.Name(), c.at(ci), "connection code uses server-wide synchronisation objects only for shutdown coordination (locks, wait group, reading atomics)", where+"."+callee.Name()+" ("+pp+"."+tn+")", where+"."+callee.Name()+" modifies server-wide state from connection code ("+pp+"."+tn+"): race-free, but what one connection observes now depends on what other connections did before")
		}
	}
	R.Floor("C15.R1", "operations of connection code on server-wide sync objects", nSync, 3)
	// element stores into slices the function did not allocate itself: the backing array belongs to the caller
	// (handler-supplied column tables, format lists, configured slices) and may be shared between connections
	nElem := 0
	for fn := range G {
		if !c.P.InPkg(fn, "wire") {
			continue
		}
		for _, b := range fn.Blocks {
			for _, in := range b.Instrs {
				st, ok := in.(*ssa.Store)
				if !ok {
					continue
				}
				addr := st.Addr
				for {
					if fa, isFA := addr.(*ssa.FieldAddr); isFA {
						if _, isIdx := fa.X.(*ssa.IndexAddr); isIdx {
							addr = fa.X
							continue
						}
					}
					break
				}
				ia, ok := addr.(*ssa.IndexAddr)
				if !ok {
					continue
				}
				if _, isSlice := ia.X.Type().Underlying().(*types.Slice); !isSlice {
					continue
				}
				nElem++
				var srcs []ssa.Value
				leaves(ia.X, map[ssa.Value]bool{}, &srcs)
				for _, src := range srcs {
					if c.freshSlice(src, 3) {
						continue
					}
					root, p := pathOf(src)
					if prm, isParam := root.(*ssa.Parameter); isParam && p != "" {
						if n := core.NamedOf(prm.Type()); n != nil && perConnectionOwner[n.Obj().Name()] {
							continue // a field of an object that exists once per connection / statement call
						}
					}
					R.Fail("C15.R1", fkey(fn)+":element-store-into-foreign-slice:"+p, c.at(st), "connection code writes only to slices it allocated itself (never into a caller-supplied backing array, which may be shared by all connections)", sprintf("store into an element of %s%s, which %s did not allocate: a handler-supplied or configured table shared between connections is modified (data race; one connection's output depends on another's)", rootDescr(root), p, fname(fn)))
				}
			}
		}
	}
	R.Floor("C15.R1", "element stores into slices inspected", nElem, 3)
	// stores into objects a user callback returned: the handler may hand out the same object to every connection
	// (a memoised prepared statement, a package-level table), the library only reads it
	nCB := 0
	for fn := range G {
		if !c.P.InPkg(fn, "wire") {
			continue
		}
		for _, b := range fn.Blocks {
			for _, in := range b.Instrs {
				st, ok := in.(*ssa.Store)
				if !ok {
					continue
				}
				switch st.Addr.(type) {
				case *ssa.FieldAddr, *ssa.IndexAddr:
				default:
					continue
				}
				nCB++
				if cb := c.callbackRoot(st.Addr, 8, map[ssa.Value]bool{}); cb != nil {
					_, p := pathOf(st.Addr)
					R.Fail("C15.R1", fkey(fn)+":store-into-callback-result:"+p, c.at(st), "connection code only reads what a user callback returned (the handler may return the same object to every connection)", sprintf("store to %s of an object returned by the callback invoked at %s: a statement / table the handler shares between connections is modified by whichever connection gets there first (data race; one connection's replies depend on another's traffic)", p, c.at(cb)))
				}
			}
		}
	}
	R.Floor("C15.R1", "field / element stores checked against callback results", nCB, 20)
	R.OK("C15.R1", "no-shared-stores", "-", "connection code stores only to per-connection objects (no store to a Server field, package variable or configuration-time captured variable)", sprintf("%d stores in %d functions inspected", nStores, len(G)))

	// ---------- R1b: reference-typed Server fields and globals are only read in G
	type use struct {
		what string
		ok   bool
		why  string
	}
	fieldUses := map[string][]use{}
	seenUse := map[ssa.Value]bool{}
	var checkUses func(name string, v ssa.Value, t types.Type, at func(ssa.Instruction) string)
	checkUses = func(name string, v ssa.Value, t types.Type, at func(ssa.Instruction) string) {
		if ok, why := safeShared(t); ok {
			fieldUses[name] = append(fieldUses[name], use{"load", true, why})
			return
		}
		if seenUse[v] {
			return
		}
		seenUse[v] = true
		for _, r := range core.Referrers(v) {
			d := ""
			okUse := false
			switch x := r.(type) {
			case *ssa.Lookup:
				okUse, d = x.X == v, "map lookup"
			case *ssa.Range:
				okUse, d = true, "range"
			case *ssa.Index:
				okUse, d = true, "index read"
			case *ssa.IndexAddr:
				okUse, d = true, "element address"
				for _, r2 := range core.Referrers(x) {
					if _, isStore := r2.(*ssa.Store); isStore {
						okUse, d = false, "element store"
					}
				}
			case *ssa.BinOp:
				okUse, d = true, "comparison"
			case *ssa.MapUpdate:
				okUse, d = x.Map != v, "map update"
			case *ssa.Phi:
				okUse, d = true, "copy"
				checkUses(name, x, t, at) // the merged value is still the shared object on this edge
			case *ssa.ChangeType:
				okUse, d = true, "copy"
				checkUses(name, x, t, at)
			case *ssa.MakeInterface, *ssa.ChangeInterface:
				okUse, d = true, "copy"
			case *ssa.FieldAddr:
				okUse, d = true, "field read"
				if fr, ok := core.FieldOfAddr(x); ok {
					d = "field " + fr.Name
					for _, r2 := range core.Referrers(x) {
						if _, isStore := r2.(*ssa.Store); isStore {
							okUse, d = false, "store to field "+fr.Name
						}
					}
				}
			case *ssa.Store:
				okUse, d = x.Val == v && !isSharedAddr(x.Addr), "stored into a per-connection object"
			case ssa.CallInstruction:
				cc := x.Common()
				switch {
				case core.BuiltinName(cc) == "len" || core.BuiltinName(cc) == "cap":
					okUse, d = true, "len"
				case core.BuiltinName(cc) == "delete" || core.BuiltinName(cc) == "clear" || core.BuiltinName(cc) == "append":
					okUse, d = false, core.BuiltinName(cc)
				case cc.IsInvoke() && cc.Method.Name() == "Write" && len(cc.Args) == 1:
					okUse, d = true, "argument of Write (io.Writer contract: Write must not modify the slice, even temporarily)"
				default:
					callee := core.StaticCallee(x)
					if callee != nil && callee.Origin() != nil {
						callee = callee.Origin()
					}
					if callee != nil && callee.Name() == "Clone" && callee.Pkg != nil && (callee.Pkg.Pkg.Path() == "maps" || callee.Pkg.Pkg.Path() == "slices") {
						okUse, d = true, "maps.Clone"
					} else if callee != nil && callee.Pkg != nil && callee.Pkg.Pkg.Path() == "maps" && callee.Name() == "Copy" && len(cc.Args) == 2 && cc.Args[1] == v && cc.Args[0] != v {
						okUse, d = true, "source of maps.Copy (read only)"
					} else if callee != nil && callee.Pkg != nil && (callee.Pkg.Pkg.Path() == "bytes" || callee.Pkg.Pkg.Path() == "strings") {
						okUse, d = true, "read-only argument of "+callee.Pkg.Pkg.Path()+"."+callee.Name()
					} else if callee != nil && c.P.InScope(callee) {
						okUse, d = true, "argument of "+fkey(callee)+" (followed into the callee)"
						if !cc.IsInvoke() {
							for i, a := range cc.Args {
								if a == v && i < len(callee.Params) {
									checkUses(name, callee.Params[i], t, at)
								}
							}
						}
					} else {
						okUse, d = false, "argument of "+callDescr(x)
					}
				}
			default:
				okUse, d = false, "other use"
			}
			fieldUses[name] = append(fieldUses[name], use{d, okUse, ""})
			if !okUse {
				R.Fail("C15.R1", "shared:"+name+":"+d, at(r), "shared reference-typed state is only read by connection code", name+" (type "+t.String()+", not in the concurrency-safe table) is used by connection code for: "+d)
			}
		}
	}
	for fn := range G {
		for _, b := range fn.Blocks {
			for _, in := range b.Instrs {
				u, ok := in.(*ssa.UnOp)
				if !ok || u.Op != token.MUL {
					continue
				}
				if fr, ok := core.FieldOfValue(u); ok && fr.Is(pkWire, "Server", fr.Name) {
					checkUses("Server."+fr.Name, u, u.Type(), c.at)
				}
				if g, ok := u.X.(*ssa.Global); ok && g.Pkg != nil && c.P.InScope(fn) {
					for _, sp := range c.P.Scope {
						if sp == g.Pkg {
							checkUses("var "+g.Name(), u, u.Type(), c.at)
						}
					}
				}
			}
		}
	}
	// package-level variables of the library whose address is used by connection code (method calls on
	// struct-typed variables such as a sync.Pool): only concurrency-safe, non-sharing types are accepted
	for fn := range G {
		for _, b := range fn.Blocks {
			for _, in := range b.Instrs {
				if _, isLoad := in.(*ssa.UnOp); isLoad {
					continue
				}
				if _, isStore := in.(*ssa.Store); isStore {
					continue
				}
				for _, op := range in.Operands(nil) {
					g, ok := (*op).(*ssa.Global)
					if !ok || g.Pkg == nil {
						continue
					}
					inScope := false
					for _, sp := range c.P.Scope {
						if sp == g.Pkg {
							inScope = true
						}
					}
					if !inScope {
						continue
					}
					elem := g.Type().(*types.Pointer).Elem()
					if ok, why := safeShared(elem); ok {
						fieldUses["var "+g.Name()] = append(fieldUses["var "+g.Name()], use{"address", true, why})
						continue
					}
					fieldUses["var "+g.Name()] = append(fieldUses["var "+g.Name()], use{"address", false, ""})
					R.Fail("C15.R1", "shared:var "+g.Name()+":address-used", c.at(in), "package-level state reachable from connection code is immutable or documented safe and non-sharing", "package-level variable "+g.Name()+" of type "+elem.String()+" is used by address from connection code: objects or state flow between connections through it (e.g. a pool of buffers that earlier connections still reference)")
				}
			}
		}
	}
	var names []string
	for n := range fieldUses {
		names = append(names, n)
	}
	sort.Strings(names)
	for _, n := range names {
		okAll := true
		kinds := map[string]bool{}
		for _, u := range fieldUses[n] {
			kinds[u.what] = true
			if !u.ok {
				okAll = false
			}
		}
		if okAll {
			R.OK("C15.R1", "shared:"+n, "-", "shared state "+n+" is concurrency-safe or only read by connection code", "uses: "+strings.Join(sortedKeys(kinds), ", "))
		}
	}
	R.Floor("C15.R1", "shared locations used by connection code", len(names), 10)

	// ---------- R2: context slots
	serve := c.mustMethod("C15.R2", "wire", "Server", "serve")
	if serve != nil {
		sti := c.P.Func("wire", "setTypeInfo")
		n := 0
		for _, ci := range callsIn(serve, calleeIs(sti)) {
			n++
			arg := ci.Common().Args[1]
			fresh, why := c.freshPerCall(arg, 0)
			R.Check(fresh, "C15.R2", "serve:type-map-per-connection", c.at(ci), "each connection gets its own type map (pgtype.Map memoises plans without synchronisation)", why, "the type map placed in the connection context is "+why+": all connections encode through one unsynchronised map (data race, 'concurrent map writes')")
		}
		R.Floor("C15.R2", "setTypeInfo calls in serve", n, 1)
		sra := c.P.Func("wire", "setRemoteAddress")
		for _, ci := range callsIn(serve, calleeIs(sra)) {
			call, ok := ci.Common().Args[1].(*ssa.Call)
			R.Check(ok && call.Call.IsInvoke() && call.Call.Method.Name() == "RemoteAddr", "C15.R2", "serve:remote-address-of-this-connection", c.at(ci), "the remote-address slot holds this connection's address", "conn.RemoteAddr()", "the remote address slot is not conn.RemoteAddr()")
		}
	}
	// who writes the slots: only the four setters
	nWV := 0
	for _, fn := range c.P.ScopeFuncs() {
		for _, ci := range core.Calls(fn) {
			if f := core.StaticCallee(ci); f != nil && core.FuncIs(f, "context", "WithValue") {
				nWV++
				key := ci.Common().Args[1]
				if mi, ok := key.(*ssa.MakeInterface); ok {
					key = mi.X
				}
				// a setter: a one-block function that hands back the derived context and does nothing else with it
				setter := fn.Parent() == nil && len(core.Calls(fn)) == 1
				if setter {
					hands, only := false, true
					for _, r := range returns(fn) {
						if len(r.Results) != 1 {
							only = false
							continue
						}
						_, isParam := r.Results[0].(*ssa.Parameter)
						switch {
						case r.Results[0] == ci.(ssa.Value):
							hands = true
						case isParam && isCtxType(r.Results[0].Type()):
							// the unchanged context (nothing to store)
						default:
							only = false
						}
					}
					setter = hands && only
				}
				ok := core.IsNamed(key.Type(), pkWire, "ctxKey") && setter
				R.Check(ok, "C15.R2", fkey(fn)+":context-slot-writer", c.at(ci), "context slots are keyed by the unexported ctxKey type and written only by the setter functions", "context.WithValue with a ctxKey constant inside a setter", "context.WithValue outside the slot setters or with a foreign key type")
			}
		}
	}
	R.Floor("C15.R2", "context.WithValue sites", nWV, 4)

	// ---------- R3: goroutines
	for _, fn := range c.P.ScopeFuncs() {
		loops := core.Loops(fn)
		for _, ci := range core.Calls(fn) {
			g, ok := ci.(*ssa.Go)
			if !ok {
				continue
			}
			mc, ok := g.Call.Value.(*ssa.MakeClosure)
			if !ok {
				continue
			}
			var loop *core.Loop
			for _, l := range loops {
				if l.Body[g.Block()] {
					loop = l
				}
			}
			for bi, b := range mc.Bindings {
				a, isAlloc := b.(*ssa.Alloc)
				if !isAlloc {
					continue // captured by value (parameter) - immutable
				}
				if !mutatedCapture(fn, a, mc, bi) {
					continue // never assigned after its initialisation: read-only sharing
				}
				name := a.Comment
				if loop != nil {
					R.Check(loop.Body[a.Block()], "C15.R3", fkey(fn)+":go-capture-per-iteration:"+name, c.at(g), "a variable captured by a goroutine started in a loop is allocated per iteration", "variable "+name+" is allocated inside the loop body", "variable "+name+" is declared outside the loop and captured by every goroutine the loop starts: the goroutines (and the loop) share and overwrite it")
				}
				// the spawner does not touch the variable after the go statement (within the same iteration)
				touched := false
				for _, r := range core.Referrers(a) {
					if r == ssa.Instruction(mc) || r.Parent() != fn {
						continue
					}
					if core.InstrDominates(g, r) {
						touched = true
					}
				}
				R.Check(!touched, "C15.R3", fkey(fn)+":spawner-leaves-captured:"+name, c.at(g), "after starting the goroutine the spawner does not access the variables it captured", "no access to "+name+" is dominated by the go statement", "the spawner accesses captured variable "+name+" after the go statement (unsynchronised with the goroutine)")
			}
			// reader / writer / conn objects are not passed to helper goroutines (C02.R1e re-stated)
			for _, b := range append(append([]ssa.Value{}, mc.Bindings...), g.Call.Args...) {
				t := b.Type()
				if p, ok := t.(*types.Pointer); ok {
					if isPtrTo(p.Elem(), pkBuffer, "Writer") || isPtrTo(p.Elem(), pkBuffer, "Reader") || core.IsNamed(p.Elem(), pkBuffer, "Writer") || core.IsNamed(p.Elem(), pkBuffer, "Reader") {
						R.Fail("C15.R3", fkey(fn)+":io-object-shared-with-goroutine", c.at(g), "a connection's reader and writer are used by one goroutine only", "a go statement captures the connection's buffer reader / writer")
					}
				}
			}
		}
	}
	// caches per connection (C07.R1 core facts)
	for _, fnName := range []string{"DefaultStatementCacheFn", "DefaultPortalCacheFn"} {
		if fn := c.P.Func("wire", fnName); fn != nil {
			fresh := len(returns(fn)) > 0
			for _, r := range returns(fn) {
				v := r.Results[0]
				if mi, ok := v.(*ssa.MakeInterface); ok {
					v = mi.X
				}
				if a, ok := v.(*ssa.Alloc); !ok || !a.Heap {
					fresh = false
				}
			}
			R.Check(fresh, "C15.R3", fnName+":fresh", c.atFn(fn), "statement / portal caches are created per connection", "the default factory returns a fresh allocation", "the default factory can return a shared cache")
		}
	}
	// reader / writer creation sites are in the per-connection path only
	for _, ctor := range []string{"NewReader", "NewWriter"} {
		f := c.P.Func("buffer", ctor)
		for _, site := range c.P.CallSitesOf(f) {
			if !c.P.InPkg(site.Parent(), "wire") {
				continue
			}
			R.Check(G[site.Parent()], "C15.R3", fkey(site.Parent())+":"+ctor+"-per-connection", c.at(site), "readers and writers are created per connection", "constructed inside the connection scope", "constructed outside the connection scope (possibly shared)")
		}
	}
}

// mutatedCapture reports whether the captured variable (cell a, binding bi of closure mc) is assigned
// anywhere other than its single initialisation before the closure is made.
func mutatedCapture(parent *ssa.Function, a *ssa.Alloc, mc *ssa.MakeClosure, bi int) bool {
	n := 0
	loops := core.Loops(parent)
	for _, r := range core.Referrers(a) {
		if st, ok := r.(*ssa.Store); ok && st.Addr == ssa.Value(a) {
			n++
			if !core.InstrDominates(st, mc) {
				return true
			}
			for _, l := range loops { // assigned again on every iteration of a loop the cell lives outside of
				if l.Body[st.Block()] && !l.Body[a.Block()] {
					return true
				}
			}
		}
	}
	if n > 1 {
		return true
	}
	if cl, ok := mc.Fn.(*ssa.Function); ok && bi < len(cl.FreeVars) {
		for _, r := range core.Referrers(cl.FreeVars[bi]) {
			if st, ok := r.(*ssa.Store); ok && st.Addr == ssa.Value(cl.FreeVars[bi]) {
				return true
			}
		}
	}
	return false
}

// perSpawnCapture reports whether free variable fv of closure fn is bound to a cell that is allocated
// anew for every closure instance (inside the loop body that creates the closure).
func perSpawnCapture(fn *ssa.Function, fv *ssa.FreeVar) bool {
	parent := fn.Parent()
	if parent == nil {
		return false
	}
	idx := -1
	for i, v := range fn.FreeVars {
		if v == fv {
			idx = i
		}
	}
	loops := core.Loops(parent)
	for _, b := range parent.Blocks {
		for _, in := range b.Instrs {
			mc, ok := in.(*ssa.MakeClosure)
			if !ok || mc.Fn != ssa.Value(fn) || idx < 0 || idx >= len(mc.Bindings) {
				continue
			}
			a, ok := mc.Bindings[idx].(*ssa.Alloc)
			if !ok {
				return false
			}
			for _, l := range loops {
				if l.Body[mc.Block()] && l.Body[a.Block()] {
					return true
				}
			}
		}
	}
	return false
}

func isSharedAddr(a ssa.Value) bool {
	switch x := a.(type) {
	case *ssa.Global:
		return true
	case *ssa.FieldAddr:
		if fr, ok := core.FieldOfAddr(x); ok && fr.Is(pkWire, "Server", fr.Name) {
			return true
		}
	}
	return false
}

// freshPerCall reports whether v is created anew each time the enclosing code runs: the result of a
// constructor of another package (pgtype.NewMap), or of a function of S all of whose results are such.
func (c *Ctx) freshPerCall(v ssa.Value, depth int) (bool, string) {
	if depth > 4 {
		return false, "too deep"
	}
	v = core.Strip(v)
	switch x := v.(type) {
	case *ssa.Alloc:
		return x.Heap, "a fresh allocation"
	case *ssa.MakeMap, *ssa.MakeSlice:
		return true, "a fresh allocation"
	case *ssa.Call:
		callee := core.StaticCallee(x)
		if callee == nil {
			return false, "the result of a dynamic call"
		}
		if !c.P.InScope(callee) {
			if strings.HasPrefix(callee.Name(), "New") && callee.Signature.Recv() == nil {
				return true, "the result of " + callee.Pkg.Pkg.Name() + "." + callee.Name() + "() called for this connection"
			}
			return false, "the result of " + callDescr(x)
		}
		for _, r := range returns(callee) {
			ok, why := c.freshPerCall(r.Results[0], depth+1)
			if !ok {
				return false, why + " (returned by " + fkey(callee) + ")"
			}
		}
		return true, "the result of " + fkey(callee) + ", which returns a fresh pgtype.NewMap() on every call"
	case *ssa.UnOp:
		if fr, ok := core.FieldOfValue(x); ok {
			return false, "a load of shared field " + fr.Name
		}
		if g, ok := x.X.(*ssa.Global); ok {
			return false, "a load of package variable " + g.Name()
		}
	case *ssa.Phi:
		for _, e := range x.Edges {
			if ok, why := c.freshPerCall(e, depth+1); !ok {
				return false, why
			}
		}
		return true, "fresh on every path"
	}
	return false, "not a per-connection allocation"
}

// freshSlice reports whether slice value v is allocated by the current function (make, a slice of a local
// array, append onto such a slice, or the result of a callee of package wire that returns a fresh slice).
func (c *Ctx) freshSlice(v ssa.Value, depth int) bool {
	switch x := v.(type) {
	case *ssa.MakeSlice:
		return true
	case *ssa.Slice:
		if a, ok := x.X.(*ssa.Alloc); ok {
			_ = a
			return true
		}
		return c.freshSlice(x.X, depth)
	case *ssa.Phi:
		for _, e := range x.Edges {
			if e != v && !c.freshSlice(e, depth) {
				return false
			}
		}
		return true
	case *ssa.Call:
		if core.BuiltinName(&x.Call) == "append" {
			return c.freshSlice(x.Call.Args[0], depth) || core.IsNilConst(x.Call.Args[0])
		}
		if depth > 0 {
			if f := core.StaticCallee(x); f != nil && c.P.InScope(f) && len(f.Blocks) > 0 {
				for _, r := range returns(f) {
					if len(r.Results) == 0 || !c.freshSlice(forwardLoad(r.Results[0]), depth-1) {
						return false
					}
				}
				return true
			}
		}
	case *ssa.Const:
		return x.Value == nil
	}
	return false
}

func rootDescr(v ssa.Value) string {
	switch x := v.(type) {
	case *ssa.Parameter:
		return "parameter " + x.Name()
	case *ssa.Global:
		return "package variable " + x.Name()
	case *ssa.FreeVar:
		return "captured variable " + x.Name()
	case nil:
		return "value"
	}
	return v.Name()
}

// perConnectionOwner lists the library types whose instances are created per connection (or per statement
// call / COPY operation) and never shared: a slice held in one of their fields is connection-local storage.
var perConnectionOwner = map[string]bool{
	"Session": true, "dataWriter": true, "CopyReader": true, "BinaryCopyReader": true,
	"Reader": true, "Writer": true, "DefaultStatementCache": true, "DefaultPortalCache": true,
}

// callbackRoot: the object addressed by v was obtained from a call through a function value (a user callback: the
// parse hook, a statement function, a session hook). Follows loads, field / element selection, tuples, merges,
// locals and parameters (through the call sites of the function).
func (c *Ctx) callbackRoot(v ssa.Value, depth int, seen map[ssa.Value]bool) ssa.CallInstruction {
	if v == nil || depth <= 0 || seen[v] {
		return nil
	}
	seen[v] = true
	switch x := v.(type) {
	case *ssa.FieldAddr:
		// a field that holds a value (not a pointer) is part of the object itself
		return c.callbackRoot(x.X, depth, seen)
	case *ssa.IndexAddr:
		return c.callbackRoot(x.X, depth, seen)
	case *ssa.Field:
		return c.callbackRoot(x.X, depth, seen)
	case *ssa.Index:
		return c.callbackRoot(x.X, depth, seen)
	case *ssa.UnOp:
		if x.Op != token.MUL {
			return nil
		}
		if al, isAlloc := x.X.(*ssa.Alloc); isAlloc {
			for _, r := range core.Referrers(al) {
				if st, isSt := r.(*ssa.Store); isSt && st.Addr == ssa.Value(al) {
					if cb := c.callbackRoot(st.Val, depth-1, seen); cb != nil {
						return cb
					}
				}
			}
			return nil
		}
		return c.callbackRoot(x.X, depth-1, seen)
	case *ssa.Extract:
		return c.callbackRoot(x.Tuple, depth, seen)
	case *ssa.Phi:
		for _, e := range x.Edges {
			if cb := c.callbackRoot(e, depth-1, seen); cb != nil {
				return cb
			}
		}
	case *ssa.ChangeType:
		return c.callbackRoot(x.X, depth, seen)
	case *ssa.Convert:
		return c.callbackRoot(x.X, depth, seen)
	case *ssa.TypeAssert:
		return c.callbackRoot(x.X, depth, seen)
	case *ssa.MakeInterface:
		return c.callbackRoot(x.X, depth, seen)
	case *ssa.Slice:
		return c.callbackRoot(x.X, depth, seen)
	case *ssa.Lookup:
		return c.callbackRoot(x.X, depth, seen)
	case *ssa.Next:
		if rg, isR := x.Iter.(*ssa.Range); isR {
			return c.callbackRoot(rg.X, depth, seen)
		}
	case *ssa.Call:
		cc := x.Common()
		if cc.IsInvoke() {
			return nil
		}
		if _, isB := cc.Value.(*ssa.Builtin); isB {
			return nil
		}
		callee := core.StaticCallee(x)
		if callee == nil {
			return x // call through a function value
		}
		if !c.P.InScope(callee) || callee.Blocks == nil {
			return nil
		}
		for _, r := range returns(callee) {
			for _, res := range r.Results {
				if _, isPtrish := res.Type().Underlying().(*types.Basic); isPtrish {
					continue
				}
				if cb := c.callbackRoot(res, depth-2, seen); cb != nil {
					return cb
				}
			}
		}
	case *ssa.Parameter:
		fn := x.Parent()
		idx := -1
		for i, q := range fn.Params {
			if q == x {
				idx = i
			}
		}
		for _, s := range c.P.CallSitesOf(fn) {
			if idx >= 0 && idx < len(s.Common().Args) {
				if cb := c.callbackRoot(s.Common().Args[idx], depth-2, seen); cb != nil {
					return cb
				}
			}
		}
	}
	return nil
}
