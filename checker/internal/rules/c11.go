package rules

import (
	"go/token"
	"go/types"
	"sort"

	"golang.org/x/tools/go/ssa"

	"pwv/internal/core"
)

func init() { Registry["C11"] = runC11 }

// sslByte returns the single byte a package-level SSL reply variable is initialised to.
func (c *Ctx) sslByte(g *ssa.Global) (byte, bool) {
	if g == nil {
		return 0, false
	}
	n := 0
	var val byte
	ok := false
	for fn := range c.P.AllFuncs {
		for _, b := range fn.Blocks {
			for _, in := range b.Instrs {
				st, isSt := in.(*ssa.Store)
				if !isSt || st.Addr != ssa.Value(g) {
					continue
				}
				n++
				if !(fn.Name() == "init" && fn.Pkg == g.Pkg) {
					return 0, false
				}
				sl, isSl := core.Strip(st.Val).(*ssa.Slice)
				if !isSl {
					return 0, false
				}
				a, isA := sl.X.(*ssa.Alloc)
				if !isA {
					return 0, false
				}
				arr, isArr := a.Type().(*types.Pointer).Elem().(*types.Array)
				if !isArr || arr.Len() != 1 {
					return 0, false
				}
				for _, r := range core.Referrers(a) {
					if ia, isIA := r.(*ssa.IndexAddr); isIA {
						for _, r2 := range core.Referrers(ia) {
							if s2, isS2 := r2.(*ssa.Store); isS2 {
								if k, isK := core.ConstInt(s2.Val); isK {
									val, ok = byte(k), true
								}
							}
						}
					}
				}
			}
		}
	}
	return val, ok && n == 1
}

// sslReplies: the package-level byte slices of package wire that hold the one-byte SSL replies, identified by what
// they are initialised to ('S', 'N'), whatever they are called.
func (c *Ctx) sslReplies() (s, n *ssa.Global) {
	if c.sslDone {
		return c.sslS, c.sslN
	}
	c.sslDone = true
	pkg := c.P.Scope["wire"]
	if pkg == nil {
		return nil, nil
	}
	var names []string
	for name := range pkg.Members {
		names = append(names, name)
	}
	sort.Strings(names)
	for _, name := range names {
		g, ok := pkg.Members[name].(*ssa.Global)
		if !ok {
			continue
		}
		pt, ok := g.Type().(*types.Pointer)
		if !ok {
			continue
		}
		sl, ok := pt.Elem().Underlying().(*types.Slice)
		if !ok {
			continue
		}
		if bt, isB := sl.Elem().Underlying().(*types.Basic); !isB || bt.Kind() != types.Uint8 {
			continue
		}
		b, ok := c.sslByte(g)
		if !ok {
			continue
		}
		switch {
		case b == 'S' && c.sslS == nil:
			c.sslS = g
		case b == 'N' && c.sslN == nil:
			c.sslN = g
		}
	}
	if c.sslS == nil {
		c.sslS = c.P.Global("wire", "sslSupported")
	}
	if c.sslN == nil {
		c.sslN = c.P.Global("wire", "sslUnsupported")
	}
	return c.sslS, c.sslN
}

// usesOf returns the instructions in blocks dominated by `from` (strictly after it in its own block) that use v.
func usesAfter(v ssa.Value, from ssa.Instruction) []ssa.Instruction {
	var out []ssa.Instruction
	for _, r := range core.Referrers(v) {
		if r == from {
			continue
		}
		if core.InstrDominates(from, r) {
			out = append(out, r)
		}
	}
	return out
}

// staleUsesAfter returns the uses of this instance of v that can execute after call: instructions
// reachable from the call without re-executing v's definition (for a loop phi, re-entering its block
// creates a new instance), and phi edges taken after the call.
func staleUsesAfter(v ssa.Value, call ssa.Instruction) []ssa.Instruction {
	var defBlock *ssa.BasicBlock
	if in, ok := v.(ssa.Instruction); ok {
		defBlock = in.Block()
	}
	reach := map[*ssa.BasicBlock]bool{}
	var walk func(b *ssa.BasicBlock)
	walk = func(b *ssa.BasicBlock) {
		if reach[b] || b == defBlock {
			return
		}
		reach[b] = true
		for _, s := range b.Succs {
			walk(s)
		}
	}
	for _, s := range call.Block().Succs {
		walk(s)
	}
	var out []ssa.Instruction
	for _, r := range core.Referrers(v) {
		if r == call {
			continue
		}
		if _, isDbg := r.(*ssa.DebugRef); isDbg {
			continue
		}
		if phi, isPhi := r.(*ssa.Phi); isPhi {
			for i, e := range phi.Edges {
				if e == v && i < len(phi.Block().Preds) {
					if p := phi.Block().Preds[i]; reach[p] || p == call.Block() {
						out = append(out, r)
					}
				}
			}
			continue
		}
		if reach[r.Block()] || (r.Block() == call.Block() && core.InstrIndex(r) > core.InstrIndex(call)) {
			out = append(out, r)
		}
	}
	return out
}

func runC11(c *Ctx) {
	R := c.R
	R.Technique = "value-provenance and use-after-point rules on the handshake functions (which connection / reader value is live after the SSL reply), guard dominance of the reply bytes, who-may-construct readers"
	R.Explanation = "Decides the structural conditions that make 'everything after S is inside TLS, nothing before it is trusted' true for every client behaviour: (R1) the SSL replies are one-byte constants ('S', 'N') that are never reassigned; 'S' is written only on the edge TLSConfig != nil and len(Certificates) != 0, the 'N' path is the only other way out; " +
		"(R2) after 'S' has been written the plaintext connection value is used for nothing but tls.Server, the pre-upgrade reader (which may hold stuffed plaintext) is dead, every return of the upgraded branch hands out the TLS connection and a reader newly constructed on that TLS connection; in serve the writer, the command loop and all further reads use Handshake's results, the accepted connection value is only closed / asked for its address, and a failed handshake writes nothing (so nothing is ever written in plaintext after 'S'); " +
		"(R3) after 'N' the same connection and the same reader continue and a CancelRequest is refused; buffer.NewReader is constructed exactly at the two designated places; (R4) no code inspects the dynamic type of the connection, so TLS and plaintext sessions run the same code. Not decided: crypto/tls itself; the behaviour of a TLS client."
	R.Assumptions = []string{"tls.Server returns a connection on which all I/O happens inside the TLS session; the handshake runs lazily on first use"}
	R.Explanation += " Also decided: in the caller chain of the upgrade step the connection / reader values handed to it are dead after the call (no use of this instance is reachable from the call); the reader built on the TLS connection takes the same Server fields (logger, size) as the plaintext reader."
	R.Trusted = []string{"go/types + go/ssa", "crypto/tls"}

	// ---------- R1
	gs, gn := c.sslReplies()
	bs, ok1 := c.sslByte(gs)
	bn, ok2 := c.sslByte(gn)
	R.Check(ok1 && bs == 'S', "C11.R1", "sslSupported:constant-S", "-", "the positive SSL reply is the single byte 'S', never reassigned", "initialised once to a 1-byte literal 'S'", sprintf("sslSupported is not a write-once 1-byte 'S' (resolved=%v value=%q)", ok1, bs))
	R.Check(ok2 && bn == 'N', "C11.R1", "sslUnsupported:constant-N", "-", "the negative SSL reply is the single byte 'N', never reassigned", "initialised once to a 1-byte literal 'N'", sprintf("sslUnsupported is not a write-once 1-byte 'N' (resolved=%v value=%q)", ok2, bn))
	// the reply slices are only read for Write (never mutated)
	for _, g := range []*ssa.Global{gs, gn} {
		if g == nil {
			continue
		}
		for fn := range c.P.AllFuncs {
			if !c.P.InScope(fn) || fn.Name() == "init" {
				continue
			}
			for _, b := range fn.Blocks {
				for _, in := range b.Instrs {
					if ia, ok := in.(*ssa.IndexAddr); ok {
						if u, ok := core.Strip(ia.X).(*ssa.UnOp); ok && u.X == ssa.Value(g) {
							R.Fail("C11.R1", fkey(fn)+":reply-byte-indexed:"+g.Name(), c.at(ia), "the reply bytes are never modified", "an element of "+g.Name()+" is addressed")
						}
					}
				}
			}
		}
	}

	// the function that answers 'S' (potentialConnUpgrade, or a helper extracted from it)
	var pcu *ssa.Function
	for _, fn := range c.P.ScopeFuncs() {
		if !c.P.InPkg(fn, "wire") {
			continue
		}
		for _, ci := range core.Calls(fn) {
			cc := ci.Common()
			if cc.IsInvoke() && cc.Method.Name() == "Write" && len(cc.Args) == 1 {
				if u, ok := core.Strip(cc.Args[0]).(*ssa.UnOp); ok && u.X == ssa.Value(gs) {
					pcu = fn
				}
			}
		}
	}
	if pcu == nil {
		R.Fail("C11.R2", "anchor:S-reply", "-", "some function of package wire answers an SSLRequest with 'S'", "no Write(sslSupported) found")
	}
	// the function that answers 'N' (sslUnsupported, or the upgrade step itself when the two are merged)
	var sun *ssa.Function
	var nWriteSite ssa.CallInstruction
	for _, fn := range c.P.ScopeFuncs() {
		if !c.P.InPkg(fn, "wire") {
			continue
		}
		for _, ci := range core.Calls(fn) {
			cc := ci.Common()
			if cc.IsInvoke() && cc.Method.Name() == "Write" && len(cc.Args) == 1 {
				if u, ok := core.Strip(cc.Args[0]).(*ssa.UnOp); ok && u.X == ssa.Value(gn) {
					sun, nWriteSite = fn, ci
				}
			}
		}
	}
	if sun == nil {
		R.Fail("C11.R3", "anchor:N-reply", "-", "some function of package wire answers an SSLRequest with 'N'", "no Write(sslUnsupported) found")
	}
	serve := c.mustMethod("C11.R2", "wire", "Server", "serve")
	hs := c.mustMethod("C11.R2", "wire", "Server", "Handshake")
	if pcu == nil || sun == nil || serve == nil || hs == nil {
		return
	}
	R.Analysed(fname(pcu))
	R.Analysed(fname(sun))
	R.Analysed(fname(serve))
	R.Analysed(fname(hs))
	var connP, readerP, connP2, readerP2 *ssa.Parameter
	for _, p := range pcu.Params {
		if core.IsNamed(p.Type(), "net", "Conn") {
			connP = p
		}
		if core.IsNamed(p.Type(), pkBuffer, "Reader") {
			readerP = p
		}
	}
	// the 'S' write
	var sWrite *ssa.Call
	for _, ci := range core.Calls(pcu) {
		cc := ci.Common()
		if cc.IsInvoke() && cc.Method.Name() == "Write" && len(cc.Args) == 1 {
			if u, ok := core.Strip(cc.Args[0]).(*ssa.UnOp); ok && u.X == ssa.Value(gs) {
				sWrite, _ = ci.(*ssa.Call)
			}
		}
	}
	if sWrite == nil || connP == nil || readerP == nil {
		R.Fail("C11.R1", "potentialConnUpgrade:S-write", c.atFn(pcu), "potentialConnUpgrade answers an SSLRequest with 'S' on the plaintext connection", "the Write(sslSupported) call or the conn / reader parameters were not found")
		return
	}
	R.Check(sWrite.Call.Value == ssa.Value(connP), "C11.R1", "potentialConnUpgrade:S-on-plain-conn", c.at(sWrite), "'S' is written on the plaintext connection the request came from", "receiver is the conn parameter", "'S' is written to a different connection value")
	// guards: TLSConfig != nil and len(Certificates) != 0
	cfgNonNil, certsNonEmpty := c.certGuards(pcu, 2)
	guardAt := sWrite.Block()
	guardFn := pcu
	if len(cfgNonNil) == 0 && len(certsNonEmpty) == 0 {
		// the certificate test lives in the caller: it must dominate the call of this function
		for _, site := range c.P.CallSitesOf(pcu) {
			guardFn = site.Parent()
			guardAt = site.Block()
		}
		cfgNonNil, certsNonEmpty = c.certGuards(guardFn, 2)
	}
	R.Check(anyDominates(cfgNonNil, guardAt) && anyDominates(certsNonEmpty, guardAt), "C11.R1", "potentialConnUpgrade:S-only-with-certificates", c.at(sWrite), "'S' is sent only when a TLS configuration with at least one certificate exists", "dominated by TLSConfig != nil and len(Certificates) != 0", "the 'S' reply is not dominated by both the TLSConfig != nil and the certificates-present edges")
	// crypto/tls also accepts configurations that supply their certificate through GetCertificate / GetConfigForClient
	usesCallbacks := false
	for _, b := range guardFn.Blocks {
		for _, in := range b.Instrs {
			if fa, ok := in.(*ssa.FieldAddr); ok {
				if fr, ok := core.FieldOfAddr(fa); ok && fr.Struct != nil && fr.Struct.Obj().Pkg() != nil && fr.Struct.Obj().Pkg().Path() == "crypto/tls" && (fr.Name == "GetCertificate" || fr.Name == "GetConfigForClient") {
					usesCallbacks = true
				}
			}
		}
	}
	for _, ci := range core.Calls(guardFn) { // or a helper that looks at them
		if h := core.StaticCallee(ci); h != nil && c.P.InPkg(h, "wire") {
			for _, b := range h.Blocks {
				for _, in := range b.Instrs {
					if fa, ok := in.(*ssa.FieldAddr); ok {
						if fr, ok := core.FieldOfAddr(fa); ok && (fr.Name == "GetCertificate" || fr.Name == "GetConfigForClient") {
							usesCallbacks = true
						}
					}
				}
			}
		}
	}
	R.Check(usesCallbacks, "C11.R1", "S-guard:callback-certificates", c.at(sWrite), "every TLS configuration that crypto/tls can serve a certificate from counts as 'certificates configured'", "the certificate test also considers GetCertificate / GetConfigForClient", "the certificate test looks at len(TLSConfig.Certificates) only: a configuration that supplies its certificate through GetCertificate or GetConfigForClient is answered with 'N' and the session silently continues in plaintext")
	// the only other exit after an SSLRequest is the 'N' path
	nCalls := callsIn(guardFn, calleeIs(sun))
	if guardFn != pcu {
		for _, p := range guardFn.Params {
			if core.IsNamed(p.Type(), "net", "Conn") {
				connP2 = p
			}
			if core.IsNamed(p.Type(), pkBuffer, "Reader") {
				readerP2 = p
			}
		}
	} else {
		connP2, readerP2 = connP, readerP
	}
	if sun == guardFn {
		// merged form: the 'N' write is in the same function; the two replies exclude each other and 'N' is not
		// sent on the certificate edges
		excl := true
		for b := range reachableAvoiding(sWrite.Block(), func(*ssa.BasicBlock) bool { return false }) {
			if b == nWriteSite.Block() {
				excl = false
			}
		}
		for b := range reachableAvoiding(nWriteSite.Block(), func(*ssa.BasicBlock) bool { return false }) {
			if b == sWrite.Block() {
				excl = false
			}
		}
		onCert := anyDominates(cfgNonNil, nWriteSite.Block()) && anyDominates(certsNonEmpty, nWriteSite.Block())
		R.Check(excl && !onCert, "C11.R1", "potentialConnUpgrade:N-path", c.at(nWriteSite), "without certificates the request is answered by the 'N' path, and only then", "the 'S' and 'N' writes exclude each other and 'N' is not on the certificate edges", sprintf("'S' and 'N' exclude each other: %v; 'N' on the certificates-present edges: %v", excl, onCert))
		R.Check(nWriteSite.Common().Value == ssa.Value(connP), "C11.R3", "potentialConnUpgrade:N-same-conn-and-reader", c.at(nWriteSite), "the 'N' path continues on the same connection with the same reader", "'N' is written on the function's own connection parameter", "'N' is not written on the connection the request came from")
	} else {
		R.Check(len(nCalls) == 1, "C11.R1", "potentialConnUpgrade:N-path", c.atFn(guardFn), "without certificates the request is answered by the 'N' path", "one call of sslUnsupported", sprintf("%d calls of sslUnsupported", len(nCalls)))
	}
	for _, ci := range nCalls {
		a := ci.Common().Args
		R.Check(a[1] == ssa.Value(connP2) && a[2] == ssa.Value(readerP2), "C11.R3", "potentialConnUpgrade:N-same-conn-and-reader", c.at(ci), "the 'N' path continues on the same connection with the same reader", "sslUnsupported(conn, reader) with the function's own parameters", "the 'N' path does not receive the original connection and reader")
	}

	// ---------- R2: after 'S'
	okEdge := nilEdges(resultOf(sWrite, 1), true)
	var tlsCall *ssa.Call
	var wrapCall *ssa.Call // the call of a wrapping helper that holds tlsCall
	var wrapParam *ssa.Parameter
	for _, u := range usesAfter(connP, sWrite) {
		if !anyDominates(okEdge, u.Block()) {
			continue // the write-error edge: the connection ends
		}
		call, isCall := u.(*ssa.Call)
		if isCall && core.FuncIs(core.StaticCallee(call), "crypto/tls", "Server") {
			tlsCall = call
			continue
		}
		// a private helper that does nothing with the connection but wrap it, and hands back the TLS connection and a
		// reader built on it (secureConn(conn) (net.Conn, *buffer.Reader))
		if isCall {
			if h := core.StaticCallee(call); h != nil && c.P.InPkg(h, "wire") && h.Blocks != nil && c.onlyCaller(h) == ssa.CallInstruction(call) {
				var hp *ssa.Parameter
				for i, a := range call.Call.Args {
					if a == ssa.Value(connP) && i < len(h.Params) {
						hp = h.Params[i]
					}
				}
				var t *ssa.Call
				onlyWrap := hp != nil
				if hp != nil {
					for _, r := range core.Referrers(hp) {
						switch x := r.(type) {
						case *ssa.Call:
							if core.FuncIs(core.StaticCallee(x), "crypto/tls", "Server") && x.Call.Args[0] == ssa.Value(hp) {
								t = x
							} else {
								onlyWrap = false
							}
						case *ssa.DebugRef:
						default:
							onlyWrap = false
						}
					}
				}
				okRet := t != nil && onlyWrap && len(returns(h)) > 0
				for _, r := range returns(h) {
					if len(r.Results) != 2 {
						okRet = false
						continue
					}
					rc := core.Strip(connRes(r))
					if mi, ok := rc.(*ssa.MakeInterface); ok {
						rc = mi.X
					}
					nrc, isNR := readerRes(r).(*ssa.Call)
					if !isNR || core.StaticCallee(nrc) != c.P.Func("buffer", "NewReader") {
						okRet = false
						continue
					}
					src := core.Strip(nrc.Call.Args[1])
					if mi, ok := src.(*ssa.MakeInterface); ok {
						src = mi.X
					}
					if rc != ssa.Value(t) || src != ssa.Value(t) {
						okRet = false
					}
				}
				if okRet {
					tlsCall, wrapCall, wrapParam = t, call, hp
					R.Analysed(fname(h))
					continue
				}
			}
		}
		R.Fail("C11.R2", "potentialConnUpgrade:plain-conn-used-after-S:"+instrDescr(u), c.at(u), "after 'S' the plaintext connection is used only to build the TLS connection", "the plaintext connection is used after 'S' by: "+instrDescr(u)+" - bytes can be read or written outside TLS")
	}
	R.Check(tlsCall != nil, "C11.R2", "potentialConnUpgrade:wraps-in-tls", c.at(sWrite), "after 'S' the connection is wrapped by tls.Server", "tls.Server(conn, config) on the success edge of the 'S' write", "no tls.Server(conn, ..) after the 'S' write")
	for _, u := range usesAfter(readerP, sWrite) {
		if !anyDominates(okEdge, u.Block()) {
			continue
		}
		R.Fail("C11.R2", "potentialConnUpgrade:old-reader-used-after-S:"+instrDescr(u), c.at(u), "the pre-upgrade reader (which may hold plaintext pushed ahead of the handshake) is never used after 'S'", "the pre-upgrade reader is used after 'S' by: "+instrDescr(u)+" - buffered plaintext would be interpreted as protocol messages")
	}
	if tlsCall != nil {
		R.Check(tlsCall.Call.Args[0] == ssa.Value(connP) || (wrapParam != nil && tlsCall.Call.Args[0] == ssa.Value(wrapParam)), "C11.R2", "potentialConnUpgrade:tls-over-same-conn", c.at(tlsCall), "the TLS session runs over the connection that received 'S'", "tls.Server(conn, ..) on the conn parameter", "tls.Server wraps a different connection")
		if fr, ok := core.FieldOfValue(tlsCall.Call.Args[1]); !ok || !fr.Is(pkWire, "Server", "TLSConfig") {
			R.Fail("C11.R2", "potentialConnUpgrade:tls-config", c.at(tlsCall), "the TLS session uses the configured TLSConfig", "tls.Server is not given Server.TLSConfig")
		}
		// returns of the upgraded region
		nr := c.P.Func("buffer", "NewReader")
		for _, r := range returns(pcu) {
			anchor := ssa.Instruction(tlsCall)
			if wrapCall != nil {
				anchor = wrapCall
			}
			if !core.InstrDominates(anchor, r) {
				continue
			}
			rc := core.Strip(connRes(r))
			if mi, ok := rc.(*ssa.MakeInterface); ok {
				rc = mi.X
			}
			okConn := rc == ssa.Value(tlsCall)
			okReader := false
			if wrapCall != nil {
				okConn = rc == resultOf(wrapCall, 0)
				okReader = readerRes(r) == resultOf(wrapCall, 1)
			}
			if call, ok := readerRes(r).(*ssa.Call); ok && core.StaticCallee(call) == nr {
				src := core.Strip(call.Call.Args[1])
				if mi, ok := src.(*ssa.MakeInterface); ok {
					src = mi.X
				}
				okReader = src == ssa.Value(tlsCall)
			}
			R.Check(okConn && okReader, "C11.R2", "potentialConnUpgrade:returns-tls-conn-and-new-reader", c.at(r), "the upgraded branch hands out the TLS connection and a reader newly built on it", "return (tls conn, NewReader(tls conn), ..)", sprintf("the upgraded branch returns tlsConn=%v, newReaderOnTLS=%v: later traffic would bypass TLS or read stale plaintext", okConn, okReader))
		}
	}
	// the caller chain up to Handshake forwards the selected connection and reader
	chain := []*ssa.Function{pcu}
	for cur := pcu; cur != hs; {
		sites := c.P.CallSitesOf(cur)
		if len(sites) != 1 {
			break
		}
		cur = sites[0].Parent()
		chain = append(chain, cur)
	}
	// once the upgrade step has been called, the connection and reader values handed to it are dead in the caller
	for i := 1; i < len(chain); i++ {
		up, down := chain[i], chain[i-1]
		for _, ci := range callsIn(up, calleeIs(down)) {
			nStale := 0
			for _, a := range ci.Common().Args {
				if !core.IsNamed(a.Type(), "net", "Conn") && !core.IsNamed(a.Type(), pkBuffer, "Reader") {
					continue
				}
				var stale []ssa.Instruction
				var srcs []ssa.Value
				leaves(a, map[ssa.Value]bool{}, &srcs)
				srcs = append(srcs, a)
				seenUse := map[ssa.Instruction]bool{}
				for _, src := range srcs {
					if in, isInstr := src.(ssa.Instruction); isInstr && in.Block() == ci.Block() && core.InstrIndex(in) > core.InstrIndex(ci) {
						continue // produced by the upgrade step itself: the new value
					}
					for _, u := range staleUsesAfter(src, ci) {
						if seenUse[u] {
							continue
						}
						seenUse[u] = true
						stale = append(stale, u)
					}
				}
				// objects built over the passed connection before the upgrade (a Writer, a second Reader) hold the
				// plaintext connection: they are dead after the upgrade as well
				if core.IsNamed(a.Type(), "net", "Conn") {
					derived := map[ssa.Value]bool{}
					var grow func(v ssa.Value, depth int)
					grow = func(v ssa.Value, depth int) {
						if depth == 0 {
							return
						}
						for _, r := range core.Referrers(v) {
							switch x := r.(type) {
							case *ssa.ChangeInterface:
								grow(x, depth-1)
							case *ssa.MakeInterface:
								grow(x, depth-1)
							case *ssa.Call:
								if x == ci || derived[x] {
									continue
								}
								if _, isPtr := x.Type().Underlying().(*types.Pointer); isPtr && core.InstrDominates(x, ci) {
									derived[x] = true
									grow(x, depth-1)
								}
							}
						}
					}
					for _, src := range srcs {
						grow(src, 4)
					}
					for d := range derived {
						passed := false
						for _, a2 := range ci.Common().Args {
							if a2 == d {
								passed = true // handed to the upgrade step itself: checked as an argument
							}
						}
						if passed {
							continue
						}
						for _, u := range staleUsesAfter(d, ci) {
							if !seenUse[u] {
								seenUse[u] = true
								nStale++
								R.Fail("C11.R2", fkey(up)+":pre-upgrade-object-used-after-upgrade:"+instrDescr(u), c.at(u), "after the upgrade step has run, nothing built over the connection handed to it is used any more", "an object built over the pre-upgrade connection ("+instrDescr(d.(ssa.Instruction))+") is still used after the upgrade step by "+instrDescr(u)+": after a TLS upgrade it reads or writes plaintext outside the TLS session")
							}
						}
					}
				}
				for _, u := range stale {
					nStale++
					R.Fail("C11.R2", fkey(up)+":pre-upgrade-value-used-after-upgrade:"+instrDescr(u), c.at(u), "after the upgrade step has run, its caller uses only the connection and reader it returned", "the value handed to "+fkey(down)+" ("+a.Name()+") is still used afterwards by "+instrDescr(u)+": after a TLS upgrade this is the plaintext connection / the pre-upgrade reader")
				}
			}
			if nStale == 0 {
				R.OK("C11.R2", fkey(up)+":pre-upgrade-values-dead", c.at(ci), "after the upgrade step has run, its caller uses only the connection and reader it returned", "no use of the passed connection / reader is reachable from the call")
			}
		}
	}
	for i := 1; i < len(chain); i++ {
		up, down := chain[i], chain[i-1]
		if up == hs {
			break
		}
		for _, r := range returns(up) {
			for _, ci := range callsIn(up, calleeIs(down)) {
				call := ci.(*ssa.Call)
				if !core.InstrDominates(call, r) {
					continue
				}
				okFwd := true
				for j := 0; j < 2 && j < len(r.Results); j++ {
					ex, ok := r.Results[j].(*ssa.Extract)
					if !ok || ex.Tuple != ssa.Value(call) {
						okFwd = false
					}
				}
				R.Check(okFwd, "C11.R2", fkey(up)+":forwards-upgrade-results", c.at(r), fkey(up)+" returns the connection and reader selected by the upgrade step", "results are "+fkey(down)+"'s results", fkey(up)+" returns a connection / reader other than the upgrade step's")
			}
		}
	}
	top := chain[len(chain)-1]
	if len(chain) >= 2 && top == hs {
		pcu2 := chain[len(chain)-2]
		_ = pcu2
	}
	for _, r := range returns(hs) {
		for _, ci := range callsIn(hs, calleeIs(chain[maxInt(0, len(chain)-2)])) {
			call := ci.(*ssa.Call)
			if !core.InstrDominates(call, r) {
				continue
			}
			okFwd := true
			for i := 0; i < 2 && i < len(r.Results); i++ {
				ex, ok := r.Results[i].(*ssa.Extract)
				if !ok || ex.Tuple != ssa.Value(call) {
					okFwd = false
				}
			}
			R.Check(okFwd, "C11.R2", "Handshake:forwards-upgrade-results", c.at(r), "Handshake returns the connection and reader selected by the upgrade step", "results are potentialConnUpgrade's results", "Handshake returns a connection / reader other than the upgrade step's")
		}
	}
	// serve: everything after Handshake uses its results
	for _, ci := range callsIn(serve, calleeIs(hs)) {
		hcall := ci.(*ssa.Call)
		var accepted *ssa.Parameter
		for _, p := range serve.Params {
			if core.IsNamed(p.Type(), "net", "Conn") {
				accepted = p
			}
		}
		if accepted == nil {
			continue
		}
		R.Check(hcall.Call.Args[1] == ssa.Value(accepted), "C11.R2", "serve:handshake-on-accepted-conn", c.at(hcall), "the handshake runs on the accepted connection", "Handshake(conn parameter)", "Handshake receives another connection")
		for _, u := range usesAfter(accepted, hcall) {
			R.Fail("C11.R2", "serve:accepted-conn-used-after-handshake:"+instrDescr(u), c.at(u), "after the handshake the accepted (possibly plaintext) connection value is not used any more", "the accepted connection is used after Handshake by: "+instrDescr(u)+" - on an upgraded connection this bypasses TLS")
		}
		hconn := resultOf(hcall, 0)
		hreader := resultOf(hcall, 2)
		for _, site := range core.Calls(serve) {
			if !core.InstrDominates(hcall, site) {
				continue
			}
			for _, a := range site.Common().Args {
				a = core.Strip(a)
				if mi, ok := a.(*ssa.MakeInterface); ok {
					a = mi.X
				}
				if core.IsNamed(a.Type(), "net", "Conn") && a != hconn {
					R.Fail("C11.R2", "serve:foreign-conn:"+callDescr(site), c.at(site), "everything after the handshake uses the connection returned by Handshake", callDescr(site)+" receives a connection other than Handshake's result")
				}
				if core.IsNamed(a.Type(), pkBuffer, "Reader") && a != hreader {
					R.Fail("C11.R2", "serve:foreign-reader:"+callDescr(site), c.at(site), "everything after the handshake uses the reader returned by Handshake", callDescr(site)+" receives a reader other than Handshake's result")
				}
			}
		}
		R.OK("C11.R2", "serve:uses-handshake-results", c.at(hcall), "writer, authentication, parameters and the command loop all use the connection / reader returned by Handshake", "argument scan of every call after Handshake")
		// a failed handshake writes nothing
		for _, be := range nilEdges(resultOf(hcall, 3), false) {
			reach := reachableAvoiding(be.to(), func(*ssa.BasicBlock) bool { return false })
			clean := true
			for b := range reach {
				for _, in := range b.Instrs {
					if ci, ok := in.(ssa.CallInstruction); ok && !isLoggerCall(ci) {
						clean = false
						R.Fail("C11.R2", "serve:handshake-failure-effect:"+callDescr(ci), c.at(ci), "when the handshake fails serve only logs and returns (nothing is written to a connection whose TLS state is unknown)", "after a failed handshake serve calls "+callDescr(ci)+": a reply can leave in plaintext after 'S' was sent")
					}
				}
			}
			if clean {
				R.OK("C11.R2", "serve:handshake-failure-silent", c.at(be.to().Instrs[0]), "when the handshake fails serve only logs and returns", sprintf("%d block(s), no call other than logging", len(reach)))
			}
		}
	}

	// ---------- R3: sslUnsupported
	var nConn, nReader *ssa.Parameter
	for _, p := range sun.Params {
		if core.IsNamed(p.Type(), "net", "Conn") {
			nConn = p
		}
		if core.IsNamed(p.Type(), pkBuffer, "Reader") {
			nReader = p
		}
	}
	inN := func(in ssa.Instruction) bool { // the 'N' region of the function
		return sun != pcu || core.InstrDominates(nWriteSite, in)
	}
	// a step that hands back only the version (and the error): the connection and reader that continue are the ones its
	// caller returns after the call - they must be the caller's own
	handsBackConn := false
	for i := 0; i < sun.Signature.Results().Len(); i++ {
		if core.IsNamed(sun.Signature.Results().At(i).Type(), "net", "Conn") {
			handsBackConn = true
		}
	}
	if !handsBackConn && sun != pcu {
		for _, ci := range nCalls {
			for _, r := range returns(pcu) {
				if !core.InstrDominates(ci, r) {
					continue
				}
				R.Check(len(r.Results) >= 2 && connRes(r) == ssa.Value(connP2) && readerRes(r) == ssa.Value(readerP2), "C11.R3", "sslUnsupported:same-conn-and-reader", c.at(r), "after 'N' the same connection and reader continue", "the caller of the 'N' step returns its own conn and reader parameters", "after the 'N' step a different connection or reader is returned (bytes already buffered behind the SSLRequest would be lost or re-framed)")
			}
		}
	}
	for _, r := range returns(sun) {
		if !inN(r) || (!handsBackConn && sun != pcu) {
			continue
		}
		R.Check(connRes(r) == ssa.Value(nConn) && readerRes(r) == ssa.Value(nReader), "C11.R3", "sslUnsupported:same-conn-and-reader", c.at(r), "after 'N' the same connection and reader continue", "returns its conn and reader parameters", "sslUnsupported returns a different connection or reader (bytes already buffered behind the SSLRequest would be lost or re-framed)")
	}
	rv := c.P.Method("wire", "Server", "readVersion")
	if rv == nil {
		rv = c.P.Func("wire", "readVersion") // the receiver is not needed: it may be a plain function
	}
	nRV := 0
	for _, ci := range callsIn(sun, calleeIs(rv)) {
		if !inN(ci) {
			continue
		}
		nRV++
		rvArgs := ci.Common().Args
		R.Check(len(rvArgs) > 0 && rvArgs[len(rvArgs)-1] == ssa.Value(nReader), "C11.R3", "sslUnsupported:rereads-on-same-reader", c.at(ci), "the fresh start-up packet is read through the same reader", "readVersion(reader parameter)", "the version is re-read through a different reader")
		// cancel refused
		ver := resultOf(ci.(*ssa.Call), 0)
		refused := false
		// the test may be made on the merge of the re-read version with the version handed in (single-exit style)
		cancelEdges := constEqEdges(ver, versionCancel, true)
		for _, ref := range core.Referrers(ver) {
			if ph, isPhi := ref.(*ssa.Phi); isPhi {
				cancelEdges = append(cancelEdges, constEqEdges(ph, versionCancel, true)...)
			}
		}
		cancelEdges = append(cancelEdges, c.cancelPredicateEdges(ver)...)
		for _, e := range cancelEdges {
			blk := e.to()
			if r, ok := blk.Instrs[len(blk.Instrs)-1].(*ssa.Return); ok {
				if cls := c.Err().Classify(errOperand(r), blk); cls.NeverNil() {
					refused = true
				}
			}
			// or the edge sets the error that a shared return hands back (err = errors.New(..) ... return .., err)
			if _, ok := blk.Instrs[len(blk.Instrs)-1].(*ssa.Jump); ok && len(blk.Succs) == 1 {
				join := blk.Succs[0]
				if r, ok := join.Instrs[len(join.Instrs)-1].(*ssa.Return); ok {
					if ph, isPhi := errOperand(r).(*ssa.Phi); isPhi && ph.Block() == join {
						for i, pred := range join.Preds {
							if pred == blk && i < len(ph.Edges) {
								if cls := c.Err().Classify(ph.Edges[i], blk); cls.NeverNil() {
									refused = true
								}
							}
						}
					}
				}
			}
		}
		R.Check(refused, "C11.R3", "sslUnsupported:cancel-refused", c.at(ci), "a CancelRequest after the SSL negotiation is refused (non-nil error, the connection ends)", "the version == CancelRequest edge returns a non-nil error", "a CancelRequest after 'N' is not refused")
	}
	R.Floor("C11.R3", "re-reads of the version after 'N'", nRV, 1)
	// 'N' write on the conn parameter
	nWrites := 0
	for _, ci := range core.Calls(sun) {
		cc := ci.Common()
		if cc.IsInvoke() && cc.Method.Name() == "Write" {
			if sun == pcu && ci != nWriteSite {
				continue // the 'S' write of the merged function (R1 / R2)
			}
			nWrites++
			u, ok := core.Strip(cc.Args[0]).(*ssa.UnOp)
			R.Check(ok && u.X == ssa.Value(gn) && cc.Value == ssa.Value(nConn), "C11.R3", "sslUnsupported:N-reply", c.at(ci), "the negative reply is the byte 'N' on the same connection", "conn.Write(sslUnsupported)", "the write in sslUnsupported is not Write(sslUnsupported) on the conn parameter")
		}
	}
	R.Floor("C11.R3", "'N' writes in sslUnsupported", nWrites, 1)
	// who constructs readers
	nrf := c.P.Func("buffer", "NewReader")
	var where []string
	for _, site := range c.P.CallSitesOf(nrf) {
		if c.P.InPkg(site.Parent(), "wire") {
			where = append(where, fkey(site.Parent()))
			okSite := fkey(site.Parent()) == "(*Server).Handshake" || (tlsCall != nil && site.Parent() == tlsCall.Parent() && core.InstrDominates(tlsCall, site))
			R.Check(okSite, "C11.R3", "NewReader-site:"+fkey(site.Parent()), c.at(site), "a connection's reader is constructed only at the start of the handshake and on the freshly upgraded TLS connection", "designated construction site", "buffer.NewReader is constructed in "+fname(site.Parent())+": bytes buffered by the previous reader are dropped (segmentation-dependent behaviour) or plaintext survives the upgrade")
		}
	}
	// both readers are configured identically (same logger and size expression): a TLS session has the same limits
	var hsSite, tlsSite ssa.CallInstruction
	for _, site := range c.P.CallSitesOf(nrf) {
		if site.Parent() == hs {
			hsSite = site
		}
		if tlsCall != nil && site.Parent() == tlsCall.Parent() && core.InstrDominates(tlsCall, site) {
			tlsSite = site
		}
	}
	if hsSite != nil && tlsSite != nil {
		same := true
		detail := ""
		for _, i := range []int{0, 2} {
			p1 := c.originPath(hsSite.Common().Args[i], hsSite.Parent(), 3)
			p2 := c.originPath(tlsSite.Common().Args[i], tlsSite.Parent(), 3)
			if p1 != p2 || p1 == "" {
				same = false
				detail += sprintf(" argument %d: %q vs %q;", i, p1, p2)
			}
		}
		R.Check(same, "C11.R3", "NewReader:same-configuration-after-upgrade", c.at(tlsSite), "the reader of the TLS session is configured exactly like the plaintext reader (same logger, same buffer size / message-size limit)", "both NewReader calls take the same Server fields", "the reader built after the upgrade is configured differently from the plaintext one:"+detail+" a TLS session gets different limits than its plaintext equivalent")
	}
	R.Check(len(where) == 2, "C11.R3", "NewReader-sites", "-", "exactly two reader construction sites exist in package wire", sprintf("%v", where), sprintf("reader construction sites: %v", where))

	// ---------- R4: no dynamic-type inspection of connections
	n := 0
	for _, fn := range c.P.ScopeFuncs() {
		for _, b := range fn.Blocks {
			for _, in := range b.Instrs {
				if ta, ok := in.(*ssa.TypeAssert); ok && (core.IsNamed(ta.X.Type(), "net", "Conn") || core.IsNamed(ta.X.Type(), "io", "Writer") || core.IsNamed(ta.X.Type(), "io", "Reader")) {
					n++
					R.Fail("C11.R4", fkey(fn)+":conn-type-assert", c.at(ta), "TLS and plaintext connections are handled by the same code", "a type assertion on a connection value: behaviour can differ between TLS and plaintext sessions")
				}
			}
		}
	}
	R.Check(n == 0, "C11.R4", "no-conn-type-inspection", "-", "TLS and plaintext connections are handled by the same code", "no type assertion / switch on net.Conn, io.Reader or io.Writer values in the scope", "see the reported assertions")
}

func instrDescr(in ssa.Instruction) string {
	if ci, ok := in.(ssa.CallInstruction); ok {
		return callDescr(ci)
	}
	switch x := in.(type) {
	case *ssa.Return:
		return "return"
	case *ssa.Store:
		return "store"
	case *ssa.MakeInterface:
		return "conversion"
	case *ssa.ChangeInterface:
		return "conversion"
	case *ssa.Phi:
		return "phi"
	case ssa.Value:
		return x.Name()
	}
	return "instruction"
}

func maxInt(a, b int) int {
	if a > b {
		return a
	}
	return b
}

// originPath names where a value comes from in caller-independent terms: "<root type>.<field path>" for a
// path from a parameter of a named (pointer) type, following a plain parameter up through the function's
// single call site. "" when the origin is not such a path.
func (c *Ctx) originPath(v ssa.Value, fn *ssa.Function, depth int) string {
	root, p := pathOf(v)
	prm, ok := root.(*ssa.Parameter)
	if !ok {
		return ""
	}
	if p != "" {
		if n := core.NamedOf(prm.Type()); n != nil {
			return n.Obj().Name() + p
		}
		return ""
	}
	if depth == 0 {
		return ""
	}
	sites := c.P.CallSitesOf(fn)
	if len(sites) != 1 {
		return ""
	}
	for i, q := range fn.Params {
		if q == prm && i < len(sites[0].Common().Args) {
			return c.originPath(sites[0].Common().Args[i], sites[0].Parent(), depth-1)
		}
	}
	return ""
}

// certGuards returns the edges of fn on which Server.TLSConfig is known to be non-nil and on which its Certificates list
// is known to be non-empty: direct tests, and the true edge of a boolean helper of package wire that answers true only
// when both hold (func (srv *Server) hasCertificates() bool { return cfg != nil && len(cfg.Certificates) > 0 }).
func (c *Ctx) certGuards(fn *ssa.Function, depth int) (cfgNonNil, certsNonEmpty []edge) {
	isCertCmp := func(cmp *ssa.BinOp) bool {
		x, ok := core.IsLenOf(cmp.X)
		if !ok {
			return false
		}
		if _, p := pathOf(x); p != ".TLSConfig.Certificates" {
			return false
		}
		k, ok := core.ConstInt(cmp.Y)
		return ok && k == 0
	}
	for _, b := range fn.Blocks {
		for _, in := range b.Instrs {
			cmp, ok := in.(*ssa.BinOp)
			if !ok {
				continue
			}
			if v, _, ok := core.NilTest(cmp); ok {
				if fr, ok := core.FieldOfValue(v); ok && fr.Is(pkWire, "Server", "TLSConfig") {
					cfgNonNil = append(cfgNonNil, nilEdges(v, false)...)
				}
			}
			if isCertCmp(cmp) {
				certsNonEmpty = append(certsNonEmpty, constEqEdges(cmp.X, 0, false)...)
				certsNonEmpty = append(certsNonEmpty, gtEdges(fn, func(v ssa.Value) bool { return v == cmp.X }, func(v ssa.Value) bool { k, ok := core.ConstInt(v); return ok && k == 0 })...)
			}
		}
	}
	if depth == 0 {
		return
	}
	for _, ci := range core.Calls(fn) {
		call, isCall := ci.(*ssa.Call)
		h := core.StaticCallee(ci)
		if !isCall || h == nil || h == fn || !c.P.InPkg(h, "wire") || h.Blocks == nil {
			continue
		}
		if bt, ok := call.Type().Underlying().(*types.Basic); !ok || bt.Kind() != types.Bool {
			continue
		}
		hCfg, hCerts := c.certGuards(h, depth-1)
		if len(hCfg) == 0 {
			continue
		}
		// true is answered only where both are known: every leaf of every result is the constant false, the constant
		// true under both edges, or the certificates comparison itself evaluated under the TLSConfig != nil edge
		onlyBoth := len(returns(h)) > 0
		for _, r := range returns(h) {
			if len(r.Results) != 1 {
				onlyBoth = false
				continue
			}
			var ls []ssa.Value
			leaves(r.Results[0], map[ssa.Value]bool{}, &ls)
			for _, l := range ls {
				if k, isK := core.ConstBool(l); isK {
					if k && !(anyDominates(hCfg, r.Block()) && anyDominates(hCerts, r.Block())) {
						onlyBoth = false
					}
					continue
				}
				cmp, isCmp := l.(*ssa.BinOp)
				if !isCmp || !anyDominates(hCfg, cmp.Block()) {
					onlyBoth = false
					continue
				}
				x, isLen := core.IsLenOf(cmp.X)
				k, isK := core.ConstInt(cmp.Y)
				_, pth := pathOf(x)
				if !isLen || !isK || k != 0 || pth != ".TLSConfig.Certificates" || (cmp.Op != token.GTR && cmp.Op != token.NEQ) {
					onlyBoth = false
				}
			}
		}
		if onlyBoth {
			cfgNonNil = append(cfgNonNil, boolEdges(call, true)...)
			certsNonEmpty = append(certsNonEmpty, boolEdges(call, true)...)
		}
	}
	return
}

func (c *Ctx) isSSLReply(g *ssa.Global) bool {
	gs, gn := c.sslReplies()
	return g != nil && (g == gs || g == gn)
}

// connRes / readerRes: the connection and the reader among the results of a negotiation step, found by type (the
// order of the results is the step's own business).
func connRes(r *ssa.Return) ssa.Value {
	res := r.Parent().Signature.Results()
	for i := 0; i < res.Len() && i < len(r.Results); i++ {
		if core.IsNamed(res.At(i).Type(), "net", "Conn") {
			return r.Results[i]
		}
	}
	if len(r.Results) > 0 {
		return r.Results[0]
	}
	return nil
}

func readerRes(r *ssa.Return) ssa.Value {
	res := r.Parent().Signature.Results()
	for i := 0; i < res.Len() && i < len(r.Results); i++ {
		if core.IsNamed(res.At(i).Type(), pkBuffer, "Reader") {
			return r.Results[i]
		}
	}
	if len(r.Results) > 1 {
		return r.Results[1]
	}
	return nil
}

// cancelPredicateEdges: the edges on which a one-line predicate of the package (isCancelRequest(version) { return
// version == VersionCancel }) applied to v, or to a merge v enters, says "CancelRequest".
func (c *Ctx) cancelPredicateEdges(v ssa.Value) []edge {
	var out []edge
	cands := []ssa.Value{v}
	for _, ref := range core.Referrers(v) {
		if ph, isPhi := ref.(*ssa.Phi); isPhi {
			cands = append(cands, ph)
		}
	}
	for _, cv := range cands {
		for _, ref := range core.Referrers(cv) {
			call, isCall := ref.(*ssa.Call)
			if !isCall {
				continue
			}
			h := core.StaticCallee(call)
			if h == nil || !c.P.InPkg(h, "wire") || len(h.Blocks) != 1 {
				continue
			}
			rs := returns(h)
			if len(rs) != 1 || len(rs[0].Results) != 1 {
				continue
			}
			hb, isB := rs[0].Results[0].(*ssa.BinOp)
			if !isB || (hb.Op != token.EQL && hb.Op != token.NEQ) {
				continue
			}
			k, ok := core.ConstInt(hb.Y)
			pv := hb.X
			if !ok {
				k, ok = core.ConstInt(hb.X)
				pv = hb.Y
			}
			prm, isP := core.StripConv(pv).(*ssa.Parameter)
			if !ok || k != versionCancel || !isP {
				continue
			}
			// the parameter tested is the one that receives cv
			idx := -1
			for i, q := range h.Params {
				if q == prm {
					idx = i
				}
			}
			if idx < 0 || idx >= len(call.Call.Args) || call.Call.Args[idx] != cv {
				continue
			}
			out = append(out, boolEdges(call, hb.Op == token.EQL)...)
		}
	}
	return out
}
