package rules

import (
	"go/token"
	"go/types"
	"sort"
	"strings"

	"golang.org/x/tools/go/ssa"

	"pwv/internal/core"
)

func init() { Registry["C08"] = runC08 }

// leaves collects the non-phi values a value may take.
func leaves(v ssa.Value, seen map[ssa.Value]bool, out *[]ssa.Value) {
	if seen[v] {
		return
	}
	seen[v] = true
	if ph, ok := v.(*ssa.Phi); ok {
		for _, e := range ph.Edges {
			leaves(e, seen, out)
		}
		return
	}
	*out = append(*out, v)
}

// cmpEdges returns the edges on which "a OP b" holds for integer comparisons between the two given values
// (either operand order); op is one of token.GTR ("a > b") or token.EQL.
func gtEdges(fn *ssa.Function, a, b func(ssa.Value) bool) []edge {
	var out []edge
	for _, blk := range fn.Blocks {
		for _, in := range blk.Instrs {
			cmp, ok := in.(*ssa.BinOp)
			if !ok {
				continue
			}
			var trueIdx int
			switch {
			case cmp.Op == token.GTR && a(cmp.X) && b(cmp.Y): // a > b
				trueIdx = 0
			case cmp.Op == token.LSS && b(cmp.X) && a(cmp.Y): // b < a
				trueIdx = 0
			case cmp.Op == token.LEQ && a(cmp.X) && b(cmp.Y): // !(a <= b)
				trueIdx = 1
			case cmp.Op == token.GEQ && b(cmp.X) && a(cmp.Y): // !(b >= a)
				trueIdx = 1
			default:
				continue
			}
			for _, u := range core.Referrers(cmp) {
				if iff, ok := u.(*ssa.If); ok {
					out = append(out, edge{iff.Block(), trueIdx})
				}
			}
		}
	}
	return out
}

func isLenOfVal(x ssa.Value) func(ssa.Value) bool {
	return func(v ssa.Value) bool {
		l, ok := core.IsLenOf(v)
		return ok && l == x
	}
}

func isVal(x ssa.Value) func(ssa.Value) bool {
	return func(v ssa.Value) bool { return core.StripConv(v) == core.StripConv(x) }
}

// formatTable describes how a per-column format is selected from a format slice in fn (Columns.Define / Write):
// the sorted set of leaf descriptors of the value passed as format to the per-column call.
func (c *Ctx) formatTable(fn *ssa.Function, perColumn string) (string, ssa.Instruction) {
	var site ssa.CallInstruction
	for _, ci := range core.Calls(fn) {
		if f := core.StaticCallee(ci); f != nil && (core.MethodIs(f, pkWire, "Column", perColumn) || core.MethodIs(f, pkWire, "Column", strings.ToLower(perColumn))) {
			site = ci
		}
	}
	if site == nil {
		return "no-per-column-call", nil
	}
	// the format argument is the one of type FormatCode
	var fmtArg ssa.Value
	for _, a := range site.Common().Args {
		if core.IsNamed(a.Type(), pkWire, "FormatCode") {
			fmtArg = a
		}
	}
	if fmtArg == nil {
		return "no-format-arg", site
	}
	// the index of the column being written
	var colIdx ssa.Value
	for _, a := range site.Common().Args {
		root, p := pathOf(a)
		_ = root
		if p == "[]" {
			if u, ok := core.Strip(a).(*ssa.UnOp); ok {
				if ia, ok := u.X.(*ssa.IndexAddr); ok {
					colIdx = ia.Index
				}
			}
		}
	}
	// the selected format may be computed inline or by a small helper of the package (inlined here)
	type leaf struct {
		v     ssa.Value
		fn    *ssa.Function           // function the leaf lives in
		subst map[ssa.Value]ssa.Value // helper parameter -> caller argument
		blk   *ssa.BasicBlock         // block in which this leaf is selected (a helper's return block), if known
	}
	var ls []leaf
	var top []ssa.Value
	leaves(fmtArg, map[ssa.Value]bool{}, &top)
	for _, l := range top {
		if call, ok := l.(*ssa.Call); ok {
			if h := core.StaticCallee(call); h != nil && c.P.InPkg(h, "wire") && len(h.Blocks) > 0 && len(h.Params) == len(call.Call.Args) {
				sub := map[ssa.Value]ssa.Value{}
				for i, p := range h.Params {
					sub[p] = call.Call.Args[i]
				}
				for _, r := range returns(h) {
					var inner []ssa.Value
					leaves(r.Results[0], map[ssa.Value]bool{}, &inner)
					for _, iv := range inner {
						ls = append(ls, leaf{iv, h, sub, r.Block()})
					}
				}
				continue
			}
		}
		ls = append(ls, leaf{l, fn, nil, nil})
	}
	actual := func(lf leaf, v ssa.Value) ssa.Value {
		if a, ok := lf.subst[v]; ok {
			return a
		}
		return v
	}
	var desc []string
	// a format merged at a loop header depends on an earlier iteration (an earlier column's format)
	headers := map[*ssa.BasicBlock]bool{}
	for _, l := range core.Loops(fn) {
		headers[l.Header] = true
	}
	seenPhi := map[ssa.Value]bool{}
	var walkPhi func(v ssa.Value)
	walkPhi = func(v ssa.Value) {
		ph, ok := v.(*ssa.Phi)
		if !ok || seenPhi[v] {
			return
		}
		seenPhi[v] = true
		if headers[ph.Block()] {
			desc = append(desc, "loop-carried(format of an earlier column)")
		}
		for _, e := range ph.Edges {
			walkPhi(e)
		}
	}
	walkPhi(fmtArg)
	for _, lf := range ls {
		l := lf.v
		u, ok := l.(*ssa.UnOp)
		ia, ok2 := (*ssa.IndexAddr)(nil), false
		if ok {
			ia, ok2 = u.X.(*ssa.IndexAddr)
		}
		if !ok || !ok2 {
			if k, isK := core.ConstInt(l); isK {
				// a constant format: under which condition on the given list?
				guard := "unguarded"
				for _, p := range lf.fn.Params {
					if sl, isSl := p.Type().Underlying().(*types.Slice); !isSl || !core.IsNamed(sl.Elem(), pkWire, "FormatCode") {
						continue
					}
					if lf.blk != nil && anyDominates(emptyEdges(lf.fn, p), lf.blk) {
						guard = "when-empty"
					}
					if lf.blk == nil {
						// selected inline: the constant enters the merge from a block reached only when the list is empty
						ees := emptyEdges(lf.fn, p)
						for ph := range seenPhi {
							phi := ph.(*ssa.Phi)
							for i, e := range phi.Edges {
								if e != l || i >= len(phi.Block().Preds) {
									continue
								}
								pb := phi.Block().Preds[i]
								if anyDominates(ees, pb) {
									guard = "when-empty"
								}
								for _, ee := range ees {
									if ee.from == pb && ee.to() == phi.Block() {
										guard = "when-empty"
									}
								}
							}
						}
					}
				}
				desc = append(desc, sprintf("const%d/%s", k, guard))
				continue
			}
			desc = append(desc, "other:"+l.String())
			continue
		}
		// describe the slice indexed (in the caller's terms)
		var sl []ssa.Value
		leaves(actual(lf, ia.X), map[ssa.Value]bool{}, &sl)
		var sdesc []string
		for _, s := range sl {
			switch x := s.(type) {
			case *ssa.Parameter:
				sdesc = append(sdesc, "given")
			case *ssa.Slice: // slice literal [TextFormat]
				lit := "literal"
				if a, ok := x.X.(*ssa.Alloc); ok {
					for _, r := range core.Referrers(a) {
						if e, ok := r.(*ssa.IndexAddr); ok {
							for _, r2 := range core.Referrers(e) {
								if st, ok := r2.(*ssa.Store); ok {
									if k, ok := core.ConstInt(st.Val); ok {
										lit = sprintf("literal[%d]", k)
									}
								}
							}
						}
					}
				}
				// only when the given slice is empty
				guard := "unguarded"
				for _, p := range fn.Params {
					if types.Identical(p.Type(), x.Type()) {
						for _, b := range fn.Blocks {
							for _, in := range b.Instrs {
								cmp, ok := in.(*ssa.BinOp)
								if !ok || cmp.Op != token.EQL {
									continue
								}
								if lv, ok := core.IsLenOf(cmp.X); ok && lv == ssa.Value(p) {
									if k, ok := core.ConstInt(cmp.Y); ok && k == 0 {
										for _, u2 := range core.Referrers(cmp) {
											if iff, ok := u2.(*ssa.If); ok && core.EdgeDominates(iff.Block(), 0, x.Block()) {
												guard = "when-empty"
											}
										}
									}
								}
							}
						}
					}
				}
				sdesc = append(sdesc, lit+"/"+guard)
			default:
				sdesc = append(sdesc, "other")
			}
		}
		sort.Strings(sdesc)
		// normal form: one descriptor per source; a one-element literal selected when the given list is empty yields
		// its constant whatever the index
		idx := "[?]"
		if k, ok := core.ConstInt(ia.Index); ok {
			idx = sprintf("[%d]", k)
		} else if colIdx != nil && core.StripConv(actual(lf, ia.Index)) == core.StripConv(colIdx) {
			g := "unguarded"
			if anyDominates(gtEdges(lf.fn, isLenOfVal(ia.X), isVal(ia.Index)), u.Block()) {
				g = "if-len>index"
			}
			idx = "[index]/" + g
		}
		for _, sd := range sdesc {
			switch {
			case sd == "given":
				desc = append(desc, "given"+idx)
			case strings.HasPrefix(sd, "literal[") && strings.HasSuffix(sd, "/when-empty"):
				desc = append(desc, "const"+strings.TrimSuffix(strings.TrimPrefix(sd, "literal["), "]/when-empty")+"/when-empty")
			default:
				desc = append(desc, "{"+sd+"}"+idx)
			}
		}
	}
	sort.Strings(desc)
	var ud []string
	for i, d := range desc {
		if i == 0 || d != desc[i-1] {
			ud = append(ud, d)
		}
	}
	return strings.Join(ud, " | "), site
}

// emptyEdges: the edges on which len(p) == 0 holds in fn.
func emptyEdges(fn *ssa.Function, p ssa.Value) []edge {
	var out []edge
	for _, b := range fn.Blocks {
		for _, in := range b.Instrs {
			cmp, ok := in.(*ssa.BinOp)
			if !ok || (cmp.Op != token.EQL && cmp.Op != token.NEQ) {
				continue
			}
			lv, ok := core.IsLenOf(cmp.X)
			if !ok || lv != p {
				continue
			}
			if k, ok := core.ConstInt(cmp.Y); !ok || k != 0 {
				continue
			}
			idx := 0
			if cmp.Op == token.NEQ {
				idx = 1
			}
			for _, u := range core.Referrers(cmp) {
				if iff, ok := u.(*ssa.If); ok {
					out = append(out, edge{iff.Block(), idx})
				}
			}
		}
	}
	return out
}

func runC08(c *Ctx) {
	R := c.R
	defer c.include("C08.S2", "C07", []string{"C07.R2"}, "Execute and Describe use that Bind's parameters and result formats: a published portal / statement is never modified", 4)
	defer c.include("C08.S1", "C18", []string{"C18.R1", "C18.R2"}, "parameter values stay byte-identical until the handler reads them: the message window discipline", 6)
	R.Technique = "operand provenance and guard-dominance rules on Bind decoding; sibling agreement (decision-table extraction) between RowDescription and DataRow format selection"
	R.Explanation = "Decides the structural part of 'Bind parameters and format codes reach the handler exactly': (R1) each parameter is built from the very byte slice GetBytes returned for it (no copy, no transformation), stored at the loop's index into a slice allocated for this Bind with the declared count, and NewParameter / the accessors pass their fields through unchanged; " +
		"(R2) the length -1 sentinel is tested by equality before the value is sliced, the NULL edge yields a nil value (distinct from the empty value) and skips GetBytes - in Bind and in the binary COPY reader alike; (R3) the format of parameter i has exactly the three protocol sources: text when no codes were sent, the single code when exactly one was sent, codes[i] under i < len(codes); " +
		"(R4) the Bind's result-format slice (freshly allocated, element i = the i-th code read) flows unchanged into the portal, from there into Describe-portal and into the Execute result writer, and RowDescription and DataRow select the per-column format by the same decision table (none -> text, index < len -> formats[index], else formats[0]); (R5) Parameter.Scan decodes its own value with its own format and type map, and ParameterDescription announces the statement's declared list itself. " +
		"Not decided: that pgx decodes a given byte string to the right Go value."
	R.Explanation += " Also decided (R4): a per-column format never depends on an earlier column's format (no loop-carried value), and every pgtype Encode call of Column.Write uses the selected format parameter."
	R.Trusted = []string{"go/types + go/ssa"}

	rp, _ := c.bindDecoders()
	if rp == nil {
		R.Fail("C08.R1", "anchor:parameter-decoder", "-", "handleBind calls a function that decodes the message's parameters ([]Parameter)", "no callee of handleBind returns []Parameter")
	}
	np := c.mustFunc("C08.R1", "wire", "NewParameter")
	if rp != nil && np != nil {
		R.Analysed(fname(rp))
		c.c08ReadParameters(rp, np)
	}
	if np != nil {
		// NewParameter stores its arguments unchanged
		usedNP := map[*ssa.Parameter]string{}
		n := 0
		for _, b := range np.Blocks {
			for _, in := range b.Instrs {
				st, ok := in.(*ssa.Store)
				if !ok {
					continue
				}
				fr, ok := core.FieldOfAddr(st.Addr)
				if !ok || !fr.Is(pkWire, "Parameter", fr.Name) {
					continue
				}
				n++
				p, isParam := st.Val.(*ssa.Parameter)
				R.Check(isParam && ctorParam(usedNP, p, st), "C08.R1", "NewParameter:"+fr.Name+"-unchanged", c.at(st), "a Parameter holds exactly the value, format and type map it was built with", "field "+fr.Name+" = parameter "+fr.Name, "Parameter."+fr.Name+" is not the constructor argument itself (copied / transformed): empty and NULL values or the bytes can change")
			}
		}
		R.Floor("C08.R1", "field initialisations in NewParameter", n, 3)
	}
	// accessors
	for _, acc := range [][2]string{{"Value", "value"}, {"Format", "format"}} {
		if fn := c.mustMethod("C08.R1", "wire", "Parameter", acc[0]); fn != nil {
			ok := false
			for _, r := range returns(fn) {
				_, p := pathOf(r.Results[0])
				ok = p == "."+acc[1]
			}
			R.Check(ok, "C08.R1", "Parameter."+acc[0], c.atFn(fn), "Parameter."+acc[0]+"() returns the stored "+acc[1]+" itself", "returns the field", "the accessor does not return the field unchanged")
		}
	}

	// ---------- R4
	c.c08ResultFormats()

	// ---------- R5
	if scan := c.mustMethod("C08.R5", "wire", "Parameter", "Scan"); scan != nil {
		R.Analysed(fname(scan))
		n := 0
		for _, ci := range core.Calls(scan) {
			cc := ci.Common()
			if !cc.IsInvoke() || cc.Method.Name() != "DecodeValue" {
				continue
			}
			n++
			_, p0 := pathOf(cc.Args[0])
			_, p2 := pathOf(core.StripConv(cc.Args[2]))
			_, p3 := pathOf(cc.Args[3])
			okOid := cc.Args[1] == ssa.Value(scan.Params[1])
			R.Check(p0 == ".types" && p2 == ".format" && p3 == ".value" && okOid, "C08.R5", "Parameter.Scan:own-fields", c.at(ci), "Scan decodes the parameter's own bytes with its own format, its own type map and the requested type", "DecodeValue(p.types, oid, p.format, p.value)", sprintf("DecodeValue arguments are (%s, oid=%v, %s, %s)", p0, okOid, p2, p3))
		}
		R.Floor("C08.R5", "DecodeValue calls in Parameter.Scan", n, 1)
		// what Scan hands back on success is the codec's result, nothing else (a shortcut that builds the value itself
		// loses NULL: string(nil) is "", not nil)
		for _, r := range returns(scan) {
			if r.Block() == scan.Recover || len(r.Results) != 2 {
				continue
			}
			if cls := c.Err().Classify(errOperand(r), r.Block()); !cls.MayBeNil() {
				continue
			}
			var srcs []ssa.Value
			leaves(forwardLoad(r.Results[0]), map[ssa.Value]bool{}, &srcs)
			okAll := len(srcs) > 0
			for _, v := range srcs {
				ex, isEx := core.Strip(v).(*ssa.Extract)
				call, isCall := (*ssa.Call)(nil), false
				if isEx {
					call, isCall = ex.Tuple.(*ssa.Call)
				}
				if !isEx || !isCall || ex.Index != 0 || !call.Call.IsInvoke() || call.Call.Method.Name() != "DecodeValue" {
					okAll = false
				}
			}
			R.Check(okAll, "C08.R5", "Parameter.Scan:result-is-codec-result", c.at(r), "every successful Scan returns what the codec decoded from the parameter (NULL stays nil, empty stays empty)", "the value returned with a nil-able error is DecodeValue's first result", "a return that may be successful hands back a value that is not the codec's result (e.g. string(p.value) for text types: a NULL parameter becomes \"\" and is no longer distinguished from an empty value)")
		}
	}
	{
		sites := c.paramDescriptionSites()
		if len(sites) == 0 {
			R.Fail("C08.R5", "ParameterDescription:anchor", "-", "the ParameterDescription frame ('t') is written somewhere in package wire", "no Start('t') frame with a count found: the rule cannot be decided")
		}
		n := 0
		for _, s := range sites {
			R.Analysed(fname(s.fn))
			n++
			ok := s.countIsLen && len(s.countPath) > 0
			for _, p := range s.countPath {
				if !strings.HasSuffix(p, ".parameters") {
					ok = false
				}
			}
			R.Check(ok, "C08.R5", "writeParameterDescription:count-of-declared-list", c.at(s.count), "ParameterDescription announces as many types as the statement declares", "count is len() of the statement's parameter list itself, unmodified", "the announced count is not len() of the declared parameter list itself (truncated / re-sliced list)")
			for i, e := range s.elems {
				n++
				R.Check(s.elemOK[i], "C08.R5", "writeParameterDescription:types-of-declared-list", c.at(e), "each announced OID is an element of the statement's declared list", "operand is an element of the parameter list", "an announced OID is not an element of the declared parameter list")
			}
		}
		R.Floor("C08.R5", "count / OID operands in writeParameterDescription", n, 2)
	}
	// Statement.parameters / columns / fn are copied from the PreparedStatement in Set
	if set := c.mustMethod("C08.R5", "wire", "DefaultStatementCache", "Set"); set != nil {
		for _, b := range set.Blocks {
			for _, in := range b.Instrs {
				st, ok := in.(*ssa.Store)
				if !ok {
					continue
				}
				fr, ok := core.FieldOfAddr(st.Addr)
				if !ok || !fr.Is(pkWire, "Statement", fr.Name) {
					continue
				}
				root, p := pathOf(st.Val)
				R.Check(root == ssa.Value(set.Params[3]) && p == "."+fr.Name, "C08.R5", "Set:copies:"+fr.Name, c.at(st), "the cached statement keeps the prepared statement's "+fr.Name, "Statement."+fr.Name+" = stmt."+fr.Name, "Statement."+fr.Name+" is not taken from the prepared statement's field of the same name")
			}
		}
	}
}

// bindDecoders identifies, by role, the functions that decode a Bind message's parameters and result
// formats: the callees of handleBind whose first result is []Parameter / []FormatCode.
func (c *Ctx) bindDecoders() (params, formats *ssa.Function) {
	hb := c.P.Method("wire", "Session", "handleBind")
	if hb == nil {
		return nil, nil
	}
	var scan func(fn *ssa.Function, depth int)
	scan = func(fn *ssa.Function, depth int) {
		for _, ci := range core.Calls(fn) {
			f := core.StaticCallee(ci)
			if f == nil || !c.P.InPkg(f, "wire") || f.Signature.Results().Len() < 1 || len(f.Blocks) == 0 {
				continue
			}
			if sl, ok := f.Signature.Results().At(0).Type().Underlying().(*types.Slice); ok {
				switch {
				case core.IsNamed(sl.Elem(), pkWire, "Parameter"):
					if params == nil {
						params = f
					}
				case core.IsNamed(sl.Elem(), pkWire, "FormatCode"):
					if formats == nil {
						formats = f
					}
				}
				continue
			}
			// a helper that decodes the whole message and hands the fields back in a struct
			// ... or as several results (readBind -> name, statement, parameters, formats)
			if depth > 0 {
				scan(f, depth-1)
			}
		}
	}
	scan(hb, 1)
	// a decoder that only hands its work on (returns a callee's results unchanged) stands for that callee
	params = c.tailTarget(params, 2)
	formats = c.tailTarget(formats, 2)
	return
}

// fmtCtx describes the format-code decoding locals of one function.
type fmtCtx struct {
	fn      *ssa.Function
	count   ssa.Value      // number of format codes (GetUint16 outside the loop, sizes the slice)
	code    ssa.Value      // the code read per iteration
	formats *ssa.MakeSlice // make([]FormatCode, count)
}

func (c *Ctx) fmtCtxOf(fn *ssa.Function) *fmtCtx {
	fc := &fmtCtx{fn: fn}
	loops := core.Loops(fn)
	inLoop := func(in ssa.Instruction) bool {
		for _, l := range loops {
			if l.Body[in.Block()] {
				return true
			}
		}
		return false
	}
	for _, b := range fn.Blocks {
		for _, in := range b.Instrs {
			if ms, ok := in.(*ssa.MakeSlice); ok {
				if sl, ok := ms.Type().Underlying().(*types.Slice); ok && core.IsNamed(sl.Elem(), pkWire, "FormatCode") {
					fc.formats = ms
					fc.count = core.StripConv(ms.Len)
				}
			}
		}
	}
	if fc.formats == nil {
		return fc
	}
	// the code read in the loop that fills the slice
	for _, r := range core.Referrers(fc.formats) {
		if ia, ok := r.(*ssa.IndexAddr); ok {
			for _, r2 := range core.Referrers(ia) {
				if st, ok := r2.(*ssa.Store); ok && inLoop(st) {
					fc.code = core.StripConv(st.Val)
				}
			}
		}
	}
	return fc
}

// classifyFormat classifies the possible sources of a parameter's format value.
func (c *Ctx) classifyFormat(fn *ssa.Function, v ssa.Value, kinds map[string]bool, depth int) {
	if depth > 3 {
		kinds["other"] = true
		return
	}
	fc := c.fmtCtxOf(fn)
	var ls []ssa.Value
	leaves(v, map[ssa.Value]bool{}, &ls)
	for _, l := range ls {
		switch x := l.(type) {
		case *ssa.Const:
			if k, ok := core.ConstInt(x); ok && k == 0 {
				kinds["text-default"] = true
			} else {
				kinds["other-const"] = true
			}
		case *ssa.Convert:
			if fc.code != nil && x.X == fc.code && fc.count != nil && anyDominates(constEqEdges(fc.count, 1, true), x.Block()) {
				kinds["single-code"] = true
			} else {
				kinds["unguarded-code"] = true
			}
		case *ssa.UnOp:
			ia, ok := x.X.(*ssa.IndexAddr)
			if ok && c.isFormatSlice(fn, ia.X) && isInduction(ia.Index) && anyDominates(gtEdges(fn, isLenOfVal(ia.X), isVal(ia.Index)), x.Block()) {
				kinds["positional"] = true
			} else if k0, isK := core.ConstInt(indexOrNil(ia)); ok && isK && k0 == 0 && c.isFormatSlice(fn, ia.X) && anyDominates(lenEqEdges(fn, ia.X, 1), x.Block()) {
				kinds["single-code"] = true // codes[0] under len(codes) == 1
			} else if k0, isK := core.ConstInt(indexOrNil(ia)); ok && isK && k0 == 0 && c.isFormatSlice(fn, ia.X) && c.helperSizeArg(ia.X) != nil && anyDominates(constEqEdges(core.StripConv(c.helperSizeArg(ia.X)), 1, true), x.Block()) {
				kinds["single-code"] = true // codes[0] under count == 1, the helper made the slice with that count
			} else if k0, isK := core.ConstInt(indexOrNil(ia)); ok && isK && k0 == 0 && c.isFormatSlice(fn, ia.X) && fc.count != nil && anyDominates(constEqEdges(fc.count, 1, true), x.Block()) {
				kinds["single-code"] = true // codes[0] under count == 1, the slice was made with that count right here
			} else {
				kinds["unguarded-index"] = true
			}
		case *ssa.Parameter:
			// handed in by the only caller: judged by what the caller passes
			if a, caller := c.callerArg(x); a != nil {
				c.classifyFormat(caller, a, kinds, depth+1)
			} else {
				kinds["other"] = true
			}
		case *ssa.Extract:
			// a value returned by a decoding helper (the default format computed there)
			call, ok := x.Tuple.(*ssa.Call)
			h := (*ssa.Function)(nil)
			if ok {
				h = core.StaticCallee(call)
			}
			if h == nil || !c.P.InPkg(h, "wire") || len(h.Blocks) == 0 {
				kinds["other"] = true
				continue
			}
			for _, r := range returns(h) {
				cls := c.Err().Classify(errOperand(r), r.Block())
				if !cls.MayBeNil() {
					continue // failing returns: the value is not used
				}
				c.classifyFormat(h, r.Results[x.Index], kinds, depth+1)
			}
		default:
			kinds["other"] = true
		}
	}
}

// isFormatSlice: v is the format-code slice decoded from this message: the make in fn, or the slice result
// of a helper whose successful returns yield its own make.
func (c *Ctx) isFormatSlice(fn *ssa.Function, v ssa.Value) bool {
	if p, isParam := v.(*ssa.Parameter); isParam {
		if a, caller := c.callerArg(p); a != nil {
			return c.isFormatSlice(caller, a)
		}
		return false
	}
	if fc := c.fmtCtxOf(fn); fc.formats != nil && v == ssa.Value(fc.formats) {
		return true
	}
	if ex, ok := v.(*ssa.Extract); ok {
		if call, ok := ex.Tuple.(*ssa.Call); ok {
			if h := core.StaticCallee(call); h != nil && c.P.InPkg(h, "wire") {
				hc := c.fmtCtxOf(h)
				if hc.formats == nil {
					return false
				}
				for _, r := range returns(h) {
					cls := c.Err().Classify(errOperand(r), r.Block())
					if cls.MayBeNil() && r.Results[ex.Index] != ssa.Value(hc.formats) {
						return false
					}
				}
				return true
			}
		}
	}
	return false
}

func (c *Ctx) c08ReadParameters(rp, np *ssa.Function) {
	R := c.R
	// the per-Bind parameter slice
	var params *ssa.MakeSlice
	for _, b := range rp.Blocks {
		for _, in := range b.Instrs {
			if ms, ok := in.(*ssa.MakeSlice); ok {
				if sl, ok := ms.Type().Underlying().(*types.Slice); ok && core.IsNamed(sl.Elem(), pkWire, "Parameter") {
					params = ms
				}
			}
		}
	}
	okCount := false
	if params != nil {
		if ex, ok := core.StripConv(params.Len).(*ssa.Extract); ok {
			if call, ok := ex.Tuple.(*ssa.Call); ok && isReaderMethod(call, "GetUint16") {
				okCount = true
			}
		}
	}
	R.Check(params != nil && okCount, "C08.R1", "readParameters:fresh-slice-of-declared-count", c.atFn(rp), "the parameters go into a slice allocated for this Bind with the declared count", "make([]Parameter, value count read from the message)", "no make([]Parameter, n) sized by the message's value count: the slice may be shared or mis-sized")
	// format codes are stored in order (in this function or in the helper that decodes them)
	nFmtStores := 0
	cands := []*ssa.Function{rp}
	addCallees := func(fn *ssa.Function) {
		for _, ci := range core.Calls(fn) {
			if h := core.StaticCallee(ci); h != nil && c.P.InPkg(h, "wire") && h != rp {
				cands = append(cands, h)
			}
		}
	}
	addCallees(rp)
	// when the values are decoded by a helper of a thin wrapper, the codes may be decoded by the wrapper's other helper
	if sites := c.P.CallSitesOf(rp); len(sites) == 1 && c.tailTarget(sites[0].Parent(), 2) == rp {
		cands = append(cands, sites[0].Parent())
		addCallees(sites[0].Parent())
	}
	for _, fn := range cands {
		fc := c.fmtCtxOf(fn)
		if fc.formats == nil {
			continue
		}
		okCnt := fc.count != nil && c.isMessageCount(fc.count, 2)
		R.Check(okCnt, "C08.R3", "readParameters:formats-slice", c.at(fc.formats), "the parameter format codes are read into a slice of the declared length", "make([]FormatCode, code count read from the message)", "the format slice is not sized by the message's code count")
		for _, r := range core.Referrers(fc.formats) {
			ia, ok := r.(*ssa.IndexAddr)
			if !ok {
				continue
			}
			for _, r2 := range core.Referrers(ia) {
				if st, ok := r2.(*ssa.Store); ok {
					nFmtStores++
					okVal := false
					if ex, ok := core.StripConv(st.Val).(*ssa.Extract); ok {
						if call, ok := ex.Tuple.(*ssa.Call); ok && isReaderMethod(call, "GetUint16") && call.Block().Dominates(st.Block()) {
							okVal = true
						}
					}
					R.Check(okVal && isInduction(ia.Index), "C08.R3", "readParameters:codes-in-order", c.at(st), "format code i is stored at position i", "formats[i] = code read in iteration i", "the stored format code or its position is not the iteration's")
				}
			}
		}
	}
	R.Floor("C08.R3", "stores into the parameter format slice", nFmtStores, 1)

	// each value: a length, then that many bytes
	var getBytes *ssa.Call
	var length ssa.Value
	// one value may be read by a step of its own (readParameter(ctx, reader, format) (Parameter, error)): the length /
	// sentinel / bytes rules are then decided inside the step, and readParameters stores the step's result at the
	// loop index on its err == nil edge
	vfn := rp
	var vcall *ssa.Call
	hasValueRead := func(fn *ssa.Function) bool {
		gb, gu := false, false
		for _, ci := range core.Calls(fn) {
			if isReaderMethod(ci, "GetBytes") {
				gb = true
			}
			if isReaderMethod(ci, "GetUint32") {
				gu = true
			}
		}
		return gb && gu
	}
	if !hasValueRead(rp) {
		for _, ci := range core.Calls(rp) {
			call, isCall := ci.(*ssa.Call)
			if !isCall {
				continue
			}
			if h := core.StaticCallee(call); h != nil && c.P.InPkg(h, "wire") && h.Blocks != nil && hasValueRead(h) && len(callsIn(h, calleeIs(np))) > 0 {
				vfn, vcall = h, call
				R.Analysed(fname(h))
			}
		}
	}
	for _, ci := range core.Calls(vfn) {
		if call, ok := ci.(*ssa.Call); ok {
			if isReaderMethod(call, "GetBytes") {
				getBytes = call
			}
			if isReaderMethod(call, "GetUint32") {
				length = resultOf(call, 0)
			}
		}
	}
	if getBytes == nil || length == nil {
		R.Fail("C08.R1", "readParameters:value-read", c.atFn(rp), "each value is read as a length followed by that many bytes", "GetUint32 / GetBytes not found")
		return
	}
	R.Check(core.StripConv(getBytes.Call.Args[1]) == length, "C08.R1", "readParameters:length-is-declared", c.at(getBytes), "the value is sliced with exactly the declared length", "GetBytes(int(length))", "GetBytes is not called with the declared length")
	sentinelNot := constEqEdges(length, 0xFFFFFFFF, false)
	sentinelIs := constEqEdges(length, 0xFFFFFFFF, true)
	R.Check(len(sentinelIs) > 0 && anyDominates(sentinelNot, getBytes.Block()), "C08.R2", "readParameters:null-sentinel", c.at(getBytes), "a declared length of -1 (0xFFFFFFFF) is recognised by equality and skips the value read", "GetBytes is dominated by the length != 0xFFFFFFFF edge", "the value read is not guarded by an equality test against the -1 sentinel (NULL becomes a read error, or other lengths are mistaken for NULL)")
	onEdge := func(es []edge, pred, to *ssa.BasicBlock) bool {
		if anyDominates(es, pred) {
			return true
		}
		for _, e := range es {
			if e.from == pred && e.to() == to {
				return true
			}
		}
		return false
	}
	nNew := 0
	for _, ci := range callsIn(vfn, calleeIs(np)) {
		call := ci.(*ssa.Call)
		nNew++
		val := call.Call.Args[2]
		gbVal, gbOK := resultOf(getBytes, 0), nilEdges(resultOf(getBytes, 1), true)
		// the value is nil exactly on the NULL (sentinel) edge and the wire bytes otherwise
		okNull, okBytes, bad := false, false, ""
		check := func(v ssa.Value, pred, to *ssa.BasicBlock) {
			switch {
			case core.IsNilConst(v):
				if onEdge(sentinelIs, pred, to) {
					okNull = true
				} else {
					bad = "a nil value off the NULL edge"
				}
			case v == gbVal:
				if onEdge(gbOK, pred, to) {
					okBytes = true
				} else {
					bad = "the GetBytes result without its error tested"
				}
			default:
				bad = "a value that is neither nil nor the GetBytes result"
			}
		}
		if ph, isPhi := val.(*ssa.Phi); isPhi {
			for i, e := range ph.Edges {
				check(e, ph.Block().Preds[i], ph.Block())
			}
		} else {
			check(val, call.Block(), call.Block())
		}
		if core.IsNilConst(val) || (bad == "" && okNull && !okBytes) {
			R.Check(bad == "" && okNull, "C08.R2", "readParameters:null-is-nil", c.at(call), "SQL NULL reaches the handler as a nil value (distinct from the empty value)", "NewParameter(.., nil) on the sentinel edge", "the NULL edge does not build the parameter with a nil value: "+bad)
		} else if bad == "" && okBytes && !okNull {
			R.OK("C08.R1", "readParameters:value-is-wire-bytes", c.at(call), "the parameter value is byte-identical to what was sent (the GetBytes result itself, read successfully)", "argument is result #0 of GetBytes on its err == nil edge")
		} else {
			R.Check(bad == "" && okNull && okBytes, "C08.R1", "readParameters:value-is-wire-bytes-or-nil", c.at(call), "the parameter value is the GetBytes result itself (read successfully), or nil exactly on the NULL edge", "phi{nil on the sentinel edge, GetBytes result on its err == nil edge}", "the value handed to NewParameter is "+bad)
		}
		// stored at the loop index into params
		stored := false
		var produced ssa.Value = call // the parameter value in readParameters' terms
		if vcall != nil {
			// the step hands this parameter back (with a nil error), and readParameters stores the step's result
			handsBack := false
			for _, r := range returns(vfn) {
				if len(r.Results) == 2 && r.Results[0] == ssa.Value(call) && core.IsNilConst(r.Results[1]) {
					handsBack = true
				}
			}
			produced = nil
			if handsBack {
				produced = resultOf(vcall, 0)
			}
		}
		if produced != nil {
			for _, r := range core.Referrers(produced) {
				if st, ok := r.(*ssa.Store); ok {
					if ia, ok := st.Addr.(*ssa.IndexAddr); ok && params != nil && ia.X == ssa.Value(params) && isInduction(ia.Index) {
						stored = vcall == nil || anyDominates(nilEdges(resultOf(vcall, 1), true), st.Block())
					}
				}
			}
		}
		R.Check(stored, "C08.R1", "readParameters:position", c.at(call), "parameter i is stored at position i", "parameters[i] = NewParameter(..) with the loop's induction variable", "the parameter is not stored at the loop index of the parameters slice")
		kinds := map[string]bool{}
		fmtArg := call.Call.Args[1]
		if vcall != nil {
			// the step tags the value with the format it was handed
			if prm, isP := core.StripConv(fmtArg).(*ssa.Parameter); isP {
				for i, hp := range vfn.Params {
					if hp == prm && i < len(vcall.Call.Args) {
						fmtArg = vcall.Call.Args[i]
					}
				}
			}
		}
		c.classifyFormat(rp, fmtArg, kinds, 0)
		got := strings.Join(sortedKeys(kinds), ",")
		R.Check(got == "positional,single-code,text-default", "C08.R3", "readParameters:format-rule", c.at(call), "the format of parameter i is: text if no codes, the single code if one was sent, codes[i] if i < len(codes)", "format sources {"+got+"}", "format sources are {"+got+"}, expected {positional,single-code,text-default}")
	}
	R.Floor("C08.R1", "NewParameter calls in readParameters", nNew, 1)
	// the sentinel rule for the binary COPY reader (sibling)
	if br := c.P.Method("wire", "BinaryCopyReader", "Read"); br != nil {
		var gb *ssa.Call
		var ln ssa.Value
		for _, ci := range core.Calls(br) {
			if call, ok := ci.(*ssa.Call); ok {
				if isReaderMethod(call, "GetUint32") {
					ln = resultOf(call, 0)
				}
			}
		}
		for _, ci := range core.Calls(br) {
			if call, ok := ci.(*ssa.Call); ok && isReaderMethod(call, "GetBytes") && ln != nil && core.StripConv(call.Call.Args[1]) == ln {
				gb = call
			}
		}
		if gb != nil {
			R.Check(anyDominates(constEqEdges(ln, 0xFFFFFFFF, false), gb.Block()), "C08.R2", "BinaryCopyReader.Read:null-sentinel", c.at(gb), "the sibling decoder (binary COPY fields) tests the -1 sentinel the same way", "GetBytes is dominated by the length != 0xFFFFFFFF edge", "the field read is not guarded by an equality test against the -1 sentinel")
		}
	}
	// nil is reserved for NULL: what GetBytes hands out on success is a view of the message window (non-nil whenever
	// the message has a body), never a nil constant and never a copy that is nil for zero bytes
	if gbf := c.P.Method("buffer", "Reader", "GetBytes"); gbf != nil {
		n := 0
		for _, r := range returns(gbf) {
			if r.Block() == gbf.Recover || len(r.Results) != 2 {
				continue
			}
			if cls := c.Err().Classify(errOperand(r), r.Block()); !cls.MayBeNil() {
				continue
			}
			n++
			var ls []ssa.Value
			leaves(forwardLoad(r.Results[0]), map[ssa.Value]bool{}, &ls)
			ok := len(ls) > 0
			for _, v := range ls {
				sl, isSlice := v.(*ssa.Slice)
				if !isSlice {
					ok = false
					continue
				}
				if fr, isF := core.FieldOfValue(sl.X); !isF || !fr.Is(pkBuffer, "Reader", "Msg") {
					ok = false
				}
			}
			R.Check(ok, "C08.R2", "GetBytes:success-returns-window-view", c.at(r), "an empty value stays distinguishable from NULL: a successful GetBytes returns a (possibly empty) view of the message window, nil is never produced for zero bytes", "the value returned without error is a slice expression of Reader.Msg", "a successful return of GetBytes is not a slice of the message window (a nil constant for n == 0, or a copy that is nil when empty): an empty parameter / COPY field reaches the decoder as nil, which every codec reads as SQL NULL")
		}
		R.Floor("C08.R2", "successful returns of GetBytes", n, 1)
	}
}

// isInduction reports whether v is a loop induction variable (phi of a constant start and itself + 1).
func isInduction(v ssa.Value) bool {
	v = core.StripConv(v)
	ph, ok := v.(*ssa.Phi)
	if !ok {
		if b, ok := v.(*ssa.BinOp); ok && b.Op == token.ADD { // range lowering: i' = phi + 1
			if one, ok := core.ConstInt(b.Y); ok && one == 1 {
				_, isPhi := b.X.(*ssa.Phi)
				return isPhi
			}
		}
		return false
	}
	hasConst, hasStep := false, false
	for _, e := range ph.Edges {
		if _, ok := core.ConstInt(e); ok {
			hasConst = true
		} else if b, ok := e.(*ssa.BinOp); ok && b.Op == token.ADD && b.X == ssa.Value(ph) {
			if one, ok := core.ConstInt(b.Y); ok && one == 1 {
				hasStep = true
			}
		}
	}
	return hasConst && hasStep
}

func (c *Ctx) c08ResultFormats() {
	R := c.R
	_, rc := c.bindDecoders()
	if rc == nil {
		R.Fail("C08.R4", "anchor:result-format-decoder", "-", "handleBind calls a function that decodes the message's result formats ([]FormatCode)", "no callee of handleBind returns []FormatCode")
	}
	if rc != nil {
		R.Analysed(fname(rc))
		var count, code ssa.Value
		loops := core.Loops(rc)
		for _, ci := range core.Calls(rc) {
			if call, ok := ci.(*ssa.Call); ok && isReaderMethod(call, "GetUint16") {
				in := false
				for _, l := range loops {
					if l.Body[call.Block()] {
						in = true
					}
				}
				if in {
					code = resultOf(call, 0)
				} else {
					count = resultOf(call, 0)
				}
			}
		}
		var ms *ssa.MakeSlice
		for _, b := range rc.Blocks {
			for _, in := range b.Instrs {
				if m, ok := in.(*ssa.MakeSlice); ok {
					if count != nil && core.StripConv(m.Len) == count {
						ms = m
					} else if count == nil && c.isMessageCount(m.Len, 2) {
						ms = m // sized by a count that every caller decodes from the message
					}
				}
			}
		}
		okRet := ms != nil
		for _, r := range returns(rc) {
			if !core.IsNilConst(r.Results[0]) && r.Results[0] != ssa.Value(ms) {
				okRet = false
			}
		}
		R.Check(okRet, "C08.R4", "readColumnTypes:fresh-result", c.atFn(rc), "each Bind gets its own result-format slice of the declared length", "returns make([]FormatCode, count) allocated in this call", "the returned slice is not a fresh allocation sized by the declared count: portals can share one backing array")
		if ms != nil {
			n := 0
			for _, r := range core.Referrers(ms) {
				if ia, ok := r.(*ssa.IndexAddr); ok {
					for _, r2 := range core.Referrers(ia) {
						if st, ok := r2.(*ssa.Store); ok {
							n++
							R.Check(core.StripConv(st.Val) == code && isInduction(ia.Index), "C08.R4", "readColumnTypes:codes-in-order", c.at(st), "result format code i is stored at position i", "columns[i] = code read in iteration i", "the stored code or its position is not the iteration's")
						}
					}
				}
			}
			R.Floor("C08.R4", "stores into the result-format slice", n, 1)
		}
	}
	// Portal.formats <- Bind's formats parameter (C07.R2 guarantees construct-only)
	usedPortal := map[*ssa.Parameter]string{}
	if bind := c.P.Method("wire", "DefaultPortalCache", "Bind"); bind != nil {
		for _, b := range bind.Blocks {
			for _, in := range b.Instrs {
				st, ok := in.(*ssa.Store)
				if !ok {
					continue
				}
				if fr, ok := core.FieldOfAddr(st.Addr); ok && fr.Is(pkWire, "Portal", fr.Name) {
					p, isParam := st.Val.(*ssa.Parameter)
					R.Check(isParam && ctorParam(usedPortal, p, st), "C08.R4", "Bind:portal-keeps:"+fr.Name, c.at(st), "the portal keeps the Bind's "+fr.Name+" unchanged", "Portal."+fr.Name+" = the Bind argument of that type", "Portal."+fr.Name+" is not the Bind argument itself")
				}
			}
		}
	}
	// NewDataWriter -> dataWriter.formats / columns; Row / Define use them
	usedDW := map[*ssa.Parameter]string{}
	if ndw := c.P.Func("wire", "NewDataWriter"); ndw != nil {
		for _, b := range ndw.Blocks {
			for _, in := range b.Instrs {
				st, ok := in.(*ssa.Store)
				if !ok {
					continue
				}
				if fr, ok := core.FieldOfAddr(st.Addr); ok && fr.Is(pkWire, "dataWriter", fr.Name) {
					p, isParam := st.Val.(*ssa.Parameter)
					R.Check(isParam && ctorParam(usedDW, p, st), "C08.R4", "NewDataWriter:"+fr.Name, c.at(st), "the result writer keeps the "+fr.Name+" it was created with", "dataWriter."+fr.Name+" = the constructor argument of that type", "dataWriter."+fr.Name+" is not the constructor argument itself")
				}
			}
		}
	}
	for _, m := range [][2]string{{"Row", "Write"}, {"Define", "Define"}} {
		fn := c.P.Method("wire", "dataWriter", m[0])
		target := c.P.Method("wire", "Columns", m[1])
		if fn == nil || target == nil {
			continue
		}
		for _, ci := range callsIn(fn, calleeIs(target)) {
			okF, okC := false, false
			for _, a := range ci.Common().Args {
				_, p := pathOf(a)
				if p == ".formats" {
					okF = true
				}
				if p == ".columns" {
					okC = true
				}
			}
			R.Check(okF && okC, "C08.R4", "dataWriter."+m[0]+":uses-own-formats-and-columns", c.at(ci), "rows and descriptions written through the result writer use the writer's own columns and formats", "arguments are dataWriter.columns and dataWriter.formats", "Columns."+m[1]+" is not called with the writer's own columns / formats")
		}
	}
	// decision-table agreement
	def := c.mustMethod("C08.R4", "wire", "Columns", "Define")
	wr := c.mustMethod("C08.R4", "wire", "Columns", "Write")
	if def != nil && wr != nil {
		R.Analysed(fname(def))
		R.Analysed(fname(wr))
		d1, s1 := c.formatTable(def, "Define")
		d2, s2 := c.formatTable(wr, "Write")
		const want = "const0/when-empty | given[0] | given[index]/if-len>index"
		where := c.atFn(def)
		if s1 != nil {
			where = c.at(s1)
		}
		R.Check(d1 == want, "C08.R4", "Columns.Define:format-table", where, "RowDescription selects the per-column format as: none -> text; index < len -> formats[index]; else formats[0]", d1, "decision table is ["+d1+"], expected ["+want+"]")
		where = c.atFn(wr)
		if s2 != nil {
			where = c.at(s2)
		}
		R.Check(d2 == want, "C08.R4", "Columns.Write:format-table", where, "DataRow selects the per-column format by the same table", d2, "decision table is ["+d2+"], expected ["+want+"]")
		// and the format selected is the one every encoding of the value uses (Column.Write) and the one announced (Column.Define)
		if cw := c.P.Method("wire", "Column", "Write"); cw != nil {
			var fp *ssa.Parameter
			for _, p := range cw.Params {
				if core.IsNamed(p.Type(), pkWire, "FormatCode") {
					fp = p
				}
			}
			nEnc := 0
			// the Encode calls of Column.Write and of the helpers it calls directly; a helper's format operand is followed
			// to the argument Column.Write passes
			type encSite struct {
				ci   ssa.CallInstruction
				via  ssa.CallInstruction // the call of the helper in Column.Write (nil when direct)
				host *ssa.Function
			}
			var encs []encSite
			hosts := []encSite{{nil, nil, cw}}
			for _, ci := range core.Calls(cw) {
				if h := core.StaticCallee(ci); h != nil && h != cw && c.P.InPkg(h, "wire") && h.Blocks != nil {
					hosts = append(hosts, encSite{nil, ci, h})
				}
			}
			for _, hst := range hosts {
				for _, ci := range core.Calls(hst.host) {
					if f := core.StaticCallee(ci); f != nil && core.MethodIs(f, "github.com/jackc/pgx/v5/pgtype", "Map", "Encode") {
						encs = append(encs, encSite{ci, hst.via, hst.host})
					}
				}
			}
			for _, e := range encs {
				nEnc++
				a := e.ci.Common().Args
				var fv ssa.Value
				if len(a) >= 3 {
					fv = core.StripConv(a[2])
					if prm, isP := fv.(*ssa.Parameter); isP && e.via != nil {
						for i, hp := range e.host.Params {
							if hp == prm && i < len(e.via.Common().Args) {
								fv = core.StripConv(e.via.Common().Args[i])
							}
						}
					}
				}
				R.Check(fp != nil && fv == ssa.Value(fp), "C08.R4", "Column.Write:encodes-in-selected-format", c.at(e.ci), "every encoding of a value uses the format selected for its column (the one announced), whatever the value", "Encode(.., int16(format parameter), ..)", "an Encode call in Column.Write uses a format other than the selected one: the DataRow field is not in the announced format")
			}
			R.Floor("C08.R4", "Encode calls in Column.Write", nEnc, 1)
		}
		R.Check(d1 == d2, "C08.R4", "format-table-agreement", where, "the format announced in RowDescription is the format used to encode the DataRow (sibling agreement)", "both tables: "+d1, "RowDescription and DataRow select formats differently: ["+d1+"] vs ["+d2+"]")
	}
}

// nullSentinels: wherever a 32-bit length read from the wire is used as the size of a value read, the
// -1 sentinel must be recognised by equality first (NULL), so that no other length is taken for NULL and
// NULL is not taken for a length.
func (c *Ctx) nullSentinels(rule string) {
	R := c.R
	n := 0
	for _, fn := range c.P.ScopeFuncs() {
		var lens []ssa.Value
		for _, ci := range core.Calls(fn) {
			if call, ok := ci.(*ssa.Call); ok && readerMethod(call) != "" {
				if v := resultOf(call, 0); v != nil {
					if bt, isB := v.Type().Underlying().(*types.Basic); isB && (bt.Kind() == types.Uint32 || bt.Kind() == types.Int32) {
						lens = append(lens, v)
					}
				}
			}
		}
		for _, ci := range core.Calls(fn) {
			call, ok := ci.(*ssa.Call)
			if !ok || !isReaderMethod(call, "GetBytes") {
				continue
			}
			for _, ln := range lens {
				if core.StripConv(call.Call.Args[1]) != ln {
					continue
				}
				n++
				sentinel := int64(0xFFFFFFFF)
				if bt := ln.Type().Underlying().(*types.Basic); bt.Kind() == types.Int32 {
					sentinel = -1
				}
				R.Check(len(constEqEdges(ln, sentinel, true)) > 0 && anyDominates(constEqEdges(ln, sentinel, false), call.Block()), rule, fkey(fn)+":null-sentinel", c.at(call), "a declared value length of -1 (0xFFFFFFFF) is recognised by equality before the value is sliced; every other length is read as a length", "GetBytes(int(length)) is dominated by the length != 0xFFFFFFFF edge", "the value read is not guarded by an equality test against the -1 sentinel: NULL is treated as a length, or malformed lengths are fabricated into NULLs")
			}
		}
	}
	R.Floor(rule, "length-prefixed value reads", n, 2)
}

func indexOrNil(ia *ssa.IndexAddr) ssa.Value {
	if ia == nil {
		return nil
	}
	return ia.Index
}

// lenEqEdges: the edges of fn on which len(x) == k holds.
func lenEqEdges(fn *ssa.Function, x ssa.Value, k int64) []edge {
	var out []edge
	for _, b := range fn.Blocks {
		for _, in := range b.Instrs {
			cmp, ok := in.(*ssa.BinOp)
			if !ok || (cmp.Op != token.EQL && cmp.Op != token.NEQ) {
				continue
			}
			lv, ok := core.IsLenOf(cmp.X)
			if !ok || lv != x {
				continue
			}
			if kv, ok := core.ConstInt(cmp.Y); !ok || kv != k {
				continue
			}
			idx := 0
			if cmp.Op == token.NEQ {
				idx = 1
			}
			for _, u := range core.Referrers(cmp) {
				if iff, ok := u.(*ssa.If); ok {
					out = append(out, edge{iff.Block(), idx})
				}
			}
		}
	}
	return out
}

// tailTarget follows "return helper(...)" wrappers: if every return of fn that can succeed hands on result #0 (and
// the error) of one and the same static call, the callee is where the value is built.
func (c *Ctx) tailTarget(fn *ssa.Function, depth int) *ssa.Function {
	for ; fn != nil && depth > 0; depth-- {
		var target *ssa.Function
		ok := true
		n := 0
		for _, r := range returns(fn) {
			cls := c.Err().Classify(errOperand(r), r.Block())
			if !cls.MayBeNil() {
				continue
			}
			n++
			ex, isEx := forwardLoad(r.Results[0]).(*ssa.Extract)
			if !isEx || ex.Index != 0 {
				ok = false
				break
			}
			call, isCall := ex.Tuple.(*ssa.Call)
			if !isCall {
				ok = false
				break
			}
			h := core.StaticCallee(call)
			if h == nil || !c.P.InPkg(h, "wire") || len(h.Blocks) == 0 || (target != nil && target != h) {
				ok = false
				break
			}
			target = h
		}
		if !ok || n == 0 || target == nil {
			return fn
		}
		fn = target
	}
	return fn
}

// callerArg maps a parameter of a function with a single static call site to the argument passed there.
func (c *Ctx) callerArg(p *ssa.Parameter) (ssa.Value, *ssa.Function) {
	fn := p.Parent()
	sites := c.P.CallSitesOf(fn)
	if len(sites) != 1 {
		return nil, nil
	}
	for i, q := range fn.Params {
		if q == p && i < len(sites[0].Common().Args) {
			return sites[0].Common().Args[i], sites[0].Parent()
		}
	}
	return nil, nil
}

// isMessageCount: v is a count decoded from the message by GetUint16, directly or handed down as a parameter by
// every caller.
func (c *Ctx) isMessageCount(v ssa.Value, depth int) bool {
	v = core.StripConv(v)
	if ex, ok := v.(*ssa.Extract); ok && ex.Index == 0 {
		if call, ok := ex.Tuple.(*ssa.Call); ok && isReaderMethod(call, "GetUint16") {
			return true
		}
	}
	if p, ok := v.(*ssa.Parameter); ok && depth > 0 {
		fn := p.Parent()
		sites := c.P.CallSitesOf(fn)
		if len(sites) == 0 {
			return false
		}
		idx := -1
		for i, q := range fn.Params {
			if q == p {
				idx = i
			}
		}
		for _, s := range sites {
			if idx < 0 || idx >= len(s.Common().Args) || !c.isMessageCount(s.Common().Args[idx], depth-1) {
				return false
			}
		}
		return true
	}
	return false
}

// helperSizeArg: for a format slice that is result #0 of a helper call, the argument that sizes the slice the helper
// makes and returns (its make([]FormatCode, param)).
func (c *Ctx) helperSizeArg(v ssa.Value) ssa.Value {
	ex, ok := v.(*ssa.Extract)
	if !ok {
		return nil
	}
	call, ok := ex.Tuple.(*ssa.Call)
	if !ok {
		return nil
	}
	h := core.StaticCallee(call)
	if h == nil || !c.P.InPkg(h, "wire") {
		return nil
	}
	hc := c.fmtCtxOf(h)
	if hc.formats == nil {
		return nil
	}
	for i, p := range h.Params {
		if core.StripConv(hc.formats.Len) == ssa.Value(p) && i < len(call.Call.Args) {
			return call.Call.Args[i]
		}
	}
	return nil
}

// ctorParam: a constructor stores parameter p into the field written by st unchanged - the parameter has exactly the
// field's type and no other field of the object takes the same parameter (fields and parameters may be named freely).
func ctorParam(used map[*ssa.Parameter]string, p *ssa.Parameter, st *ssa.Store) bool {
	fr, ok := core.FieldOfAddr(st.Addr)
	if !ok || p == nil {
		return false
	}
	pt, ok := st.Addr.Type().Underlying().(*types.Pointer)
	if !ok || !types.Identical(pt.Elem(), p.Type()) {
		return false
	}
	if prev, taken := used[p]; taken && prev != fr.Name {
		return false
	}
	used[p] = fr.Name
	return true
}
