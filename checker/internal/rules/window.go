package rules

import (
	"golang.org/x/tools/go/ssa"

	"pwv/internal/core"
)

// A "fill" is the step that makes the next message body available: the window is reset to a size and
// filled by one io.ReadFull. It may be written inline (reset(x); io.ReadFull(Buffer, Msg)) or live in a
// helper method of the reader that does exactly that with its parameter and returns ReadFull's results.

type fill struct {
	site ssa.Instruction // the ReadFull call, or the call of the helper
	size ssa.Value       // the size handed to reset
	n    ssa.Value       // number of bytes read
	err  ssa.Value       // its error
	via  *ssa.Function   // helper, if any
}

// directFill finds reset(x) followed by io.ReadFull(Buffer, post-reset Msg) inside fn.
func (c *Ctx) directFill(fn *ssa.Function) (resetCall, readFull *ssa.Call) {
	reset := c.P.Method("buffer", "Reader", "reset")
	l := core.NewLin(c.P, fn, c.modSets(), nil)
	for _, ci := range core.Calls(fn) {
		call, ok := ci.(*ssa.Call)
		if !ok || !core.FuncIs(core.StaticCallee(call), "io", "ReadFull") {
			continue
		}
		u, isLoad := call.Call.Args[1].(*ssa.UnOp)
		if !isLoad {
			continue
		}
		mv := l.FM.Loads[u]
		if mv == nil || mv.Kind != core.MPost || mv.Field != "Msg" || mv.Call == nil || core.StaticCallee(mv.Call) != reset {
			continue
		}
		if rc, ok := mv.Call.(*ssa.Call); ok {
			return rc, call
		}
	}
	return nil, nil
}

// fillHelper: h resets the window to its own parameter, fills it, and returns io.ReadFull's results unchanged.
func (c *Ctx) fillHelper(h *ssa.Function) (int, bool) {
	if h == nil || !c.P.InPkg(h, "buffer") || len(h.Blocks) == 0 {
		return 0, false
	}
	rc, rf := c.directFill(h)
	if rc == nil {
		return 0, false
	}
	pi := -1
	for i, p := range h.Params {
		if rc.Call.Args[1] == ssa.Value(p) {
			pi = i
		}
	}
	if pi < 0 {
		return 0, false
	}
	for _, r := range returns(h) {
		if len(r.Results) != 2 || r.Results[0] != resultOf(rf, 0) || r.Results[1] != resultOf(rf, 1) {
			return 0, false
		}
	}
	return pi, true
}

// fills lists the fill steps of fn.
func (c *Ctx) fills(fn *ssa.Function) []fill {
	var out []fill
	if rc, rf := c.directFill(fn); rc != nil {
		out = append(out, fill{site: rf, size: rc.Call.Args[1], n: resultOf(rf, 0), err: resultOf(rf, 1)})
	}
	for _, ci := range core.Calls(fn) {
		call, ok := ci.(*ssa.Call)
		if !ok {
			continue
		}
		h := core.StaticCallee(call)
		if h == nil || h == fn {
			continue
		}
		if pi, ok := c.fillHelper(h); ok {
			out = append(out, fill{site: call, size: call.Call.Args[pi], n: resultOf(call, 0), err: resultOf(call, 1), via: h})
		}
	}
	return out
}

// headerSizeExpr reports whether integer value v is "Uint32(reader.header[:]) - 4" through value-preserving
// conversions, computed inline or returned by a helper of the reader (ReadMsgSize).
func (c *Ctx) headerSizeExpr(l *core.Lin, v ssa.Value, depth int) bool {
	if depth > 3 {
		return false
	}
	t, off := l.Expr(v)
	if t.K != core.TVal || t.V == nil {
		return false
	}
	switch x := t.V.(type) {
	case *ssa.Call:
		f := core.StaticCallee(x)
		if off == -4 && f != nil && f.Name() == "Uint32" && f.Pkg != nil && f.Pkg.Pkg.Path() == "encoding/binary" {
			if sl, ok := x.Call.Args[1].(*ssa.Slice); ok {
				if fr, ok := core.FieldOfAddr(sl.X); ok && fr.Is(pkBuffer, "Reader", "header") {
					return true
				}
			}
		}
	case *ssa.Extract:
		call, ok := x.Tuple.(*ssa.Call)
		if !ok || off != 0 {
			return false
		}
		g := core.StaticCallee(call)
		if g == nil || !c.P.InPkg(g, "buffer") || len(g.Blocks) == 0 {
			return false
		}
		gl := core.NewLin(c.P, g, c.modSets(), nil)
		n := 0
		for _, r := range returns(g) {
			cls := c.Err().Classify(errOperand(r), r.Block())
			if !cls.MayBeNil() {
				continue
			}
			n++
			if !c.headerSizeExpr(gl, r.Results[x.Index], depth+1) {
				return false
			}
		}
		return n > 0
	}
	return false
}

// acceptStep locates where a message body is accepted (size guard, reset, fill): in ReadUntypedMsg itself, or in
// a method of the reader that ReadUntypedMsg tail-calls with the decoded size (its results returned unchanged).
// It returns the function holding the step, the fill inside it, and - in the terms of ReadUntypedMsg - the size value.
func (c *Ctx) acceptStep(rum *ssa.Function) (acc *ssa.Function, f fill, outerSize ssa.Value, ok bool) {
	if fl := c.fills(rum); len(fl) == 1 {
		return rum, fl[0], fl[0].size, true
	}
	for _, ci := range core.Calls(rum) {
		call, isCall := ci.(*ssa.Call)
		if !isCall {
			continue
		}
		h := core.StaticCallee(call)
		if h == nil || h == rum || !c.P.InPkg(h, "buffer") || len(h.Blocks) == 0 {
			continue
		}
		fl := c.fills(h)
		if len(fl) != 1 {
			continue
		}
		pi := -1
		for i, p := range h.Params {
			if core.StripConv(fl[0].size) == ssa.Value(p) {
				pi = i
			}
		}
		if pi < 0 || pi >= len(call.Call.Args) {
			continue
		}
		// rum hands the helper's results on unchanged wherever the call was reached
		tail := true
		for _, r := range returns(rum) {
			if !core.InstrDominates(call, r) {
				continue
			}
			for i, res := range r.Results {
				ex, isEx := res.(*ssa.Extract)
				if !isEx || ex.Tuple != ssa.Value(call) || ex.Index != i {
					tail = false
				}
			}
		}
		if tail {
			return h, fl[0], call.Call.Args[pi], true
		}
	}
	return nil, fill{}, nil, false
}

// suffixOperand: v is, by the contract of the standard library, a suffix of the slice it returns here (the whole of
// it, or what is left after a prefix was cut off): bytes.CutPrefix (#0), bytes.TrimPrefix, bytes.TrimLeft(Func).
func suffixOperand(v ssa.Value) (ssa.Value, bool) {
	if ex, ok := v.(*ssa.Extract); ok && ex.Index == 0 {
		if call, ok := ex.Tuple.(*ssa.Call); ok && core.FuncIs(core.StaticCallee(call), "bytes", "CutPrefix") {
			return call.Call.Args[0], true
		}
	}
	if ex, ok := v.(*ssa.Extract); ok && ex.Index == 1 {
		// bytes.Cut: `after` is what follows the separator (nil when there is none)
		if call, ok := ex.Tuple.(*ssa.Call); ok && core.FuncIs(core.StaticCallee(call), "bytes", "Cut") {
			return call.Call.Args[0], true
		}
	}
	if call, ok := v.(*ssa.Call); ok {
		f := core.StaticCallee(call)
		if core.FuncIs(f, "bytes", "TrimPrefix") || core.FuncIs(f, "bytes", "TrimLeft") || core.FuncIs(f, "bytes", "TrimLeftFunc") {
			return call.Call.Args[0], true
		}
	}
	return nil, false
}

// advanceOfOwnWindow: the value stored to a reader's Msg is that same reader's current window with a prefix removed
// (w[a:], CutPrefix(w, _), ...): the window only moves forward, which consumes bytes exactly as an accessor does.
func advanceOfOwnWindow(st *ssa.Store) bool {
	fr, ok := core.FieldOfAddr(st.Addr)
	if !ok {
		return false
	}
	v := st.Val
	steps := 0
	for i := 0; i < 6; i++ {
		if sl, isSl := v.(*ssa.Slice); isSl && sl.High == nil && sl.Max == nil {
			v = sl.X
			steps++
			continue
		}
		if x, isSuf := suffixOperand(v); isSuf {
			v = x
			steps++
			continue
		}
		break
	}
	u, isLoad := v.(*ssa.UnOp)
	if !isLoad || steps == 0 {
		return false
	}
	fr2, ok := core.FieldOfValue(u)
	if !ok || fr2.Name != fr.Name || fr2.Struct != fr.Struct || !(fr2.Base == fr.Base || sameFieldPath(u.X, st.Addr)) {
		return false
	}
	// the load is the current window: no store to the field between the load and this store in the block
	if u.Block() != st.Block() {
		return false
	}
	for i := core.InstrIndex(u) + 1; i < core.InstrIndex(st); i++ {
		if ci, isCall := st.Block().Instrs[i].(ssa.CallInstruction); isCall {
			if f := core.StaticCallee(ci); f == nil || f.Pkg == nil || f.Pkg.Pkg.Path() != "bytes" {
				return false
			}
		}
		if _, isSt := st.Block().Instrs[i].(*ssa.Store); isSt {
			return false
		}
	}
	return true
}

// sameFieldPath: two field addresses name the same field of the same object (r.reader.Msg read twice: go/ssa does not
// share the intermediate loads).
func sameFieldPath(a, b ssa.Value) bool {
	ra, pa := pathOf(a)
	rb, pb := pathOf(b)
	return ra == rb && pa == pb && pa != ""
}
