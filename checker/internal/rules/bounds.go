package rules

import (
	"go/token"
	"go/types"
	"strings"

	"golang.org/x/tools/go/ssa"

	"pwv/internal/core"
)

// E-BND: panic-site inventory. Every instruction whose run-time check can fail on client-controlled
// values is an obligation that must be discharged by the linear prover (E-LIN).

type bndOb struct {
	in    ssa.Instruction
	kind  string
	what  string // construct descriptor (position-free)
	prove func(l *core.Lin) bool
}

// describe names a value without positions: parameter names, field paths, call names.
func describe(v ssa.Value) string {
	root, p := pathOf(v)
	switch x := root.(type) {
	case *ssa.Parameter:
		return x.Name() + p
	case *ssa.FreeVar:
		return x.Name() + p
	case *ssa.Global:
		return x.Name() + p
	case *ssa.Call:
		return callDescr(x) + "()" + p
	case *ssa.Extract:
		if call, ok := x.Tuple.(*ssa.Call); ok {
			return callDescr(call) + "()" + p
		}
	case *ssa.MakeSlice:
		return "make" + p
	case *ssa.Slice:
		return describe(x.X) + "[:]" + p
	case *ssa.Alloc:
		if x.Comment != "" {
			return x.Comment + p
		}
	case *ssa.Phi:
		if x.Comment != "" {
			return x.Comment + p
		}
	case *ssa.Const:
		return x.String() + p
	}
	if p != "" {
		return "value" + p
	}
	return "value"
}

func (c *Ctx) boundsObligations(fn *ssa.Function) []bndOb {
	var out []bndOb
	add := func(in ssa.Instruction, kind, what string, pr func(l *core.Lin) bool) {
		out = append(out, bndOb{in, kind, what, pr})
	}
	for _, b := range fn.Blocks {
		if b == fn.Recover {
			continue
		}
		for _, instr := range b.Instrs {
			switch x := instr.(type) {
			case *ssa.IndexAddr:
				what := describe(x.X) + "[" + describe(x.Index) + "]"
				if pt, ok := x.X.Type().Underlying().(*types.Pointer); ok {
					if arr, ok := pt.Elem().Underlying().(*types.Array); ok {
						n := arr.Len()
						if k, ok := core.ConstInt(x.Index); ok && k >= 0 && k < n {
							continue // constant index into an array: checked by the compiler
						}
						add(x, "index", what, func(l *core.Lin) bool {
							t, off := l.Expr(x.Index)
							return l.Prove(x, core.Zero, t, off) && l.Prove(x, t, core.Zero, n-1-off)
						})
						continue
					}
				}
				add(x, "index", what, func(l *core.Lin) bool {
					t, off := l.Expr(x.Index)
					return l.Prove(x, core.Zero, t, off) && l.Prove(x, t, l.LenOf(x.X), -1-off)
				})
			case *ssa.Index:
				if arr, ok := x.X.Type().Underlying().(*types.Array); ok {
					if k, ok := core.ConstInt(x.Index); ok && k >= 0 && k < arr.Len() {
						continue
					}
					n := arr.Len()
					add(x, "index", describe(x.X)+"["+describe(x.Index)+"]", func(l *core.Lin) bool {
						t, off := l.Expr(x.Index)
						return l.Prove(x, core.Zero, t, off) && l.Prove(x, t, core.Zero, n-1-off)
					})
				}
			case *ssa.Lookup:
				if _, isMap := x.X.Type().Underlying().(*types.Map); isMap {
					continue
				}
				add(x, "index", describe(x.X)+"["+describe(x.Index)+"]", func(l *core.Lin) bool {
					t, off := l.Expr(x.Index)
					return l.Prove(x, core.Zero, t, off) && l.Prove(x, t, l.LenOf(x.X), -1-off)
				})
			case *ssa.Slice:
				lo, hi := "", ""
				if x.Low != nil {
					lo = describe(x.Low)
				}
				if x.High != nil {
					hi = describe(x.High)
				}
				what := describe(x.X) + "[" + lo + ":" + hi + "]"
				var constN int64 = -1
				isString := false
				if pt, ok := x.X.Type().Underlying().(*types.Pointer); ok {
					if arr, ok := pt.Elem().Underlying().(*types.Array); ok {
						constN = arr.Len()
					}
				}
				if bt, ok := x.X.Type().Underlying().(*types.Basic); ok && bt.Info()&types.IsString != 0 {
					isString = true
				}
				if constN >= 0 {
					lok := x.Low == nil
					if k, ok := core.ConstInt(x.Low); x.Low != nil && ok && k >= 0 && k <= constN {
						lok = true
					}
					hok := x.High == nil
					if k, ok := core.ConstInt(x.High); x.High != nil && ok && k >= 0 && k <= constN {
						hok = true
					}
					if lok && hok {
						continue
					}
				}
				add(x, "slice", what, func(l *core.Lin) bool {
					// limit: cap for slices, len for strings, N for arrays
					limit := func(t core.Term, off int64) bool {
						switch {
						case constN >= 0:
							return l.Prove(x, t, core.Zero, constN-off)
						case isString:
							return l.Prove(x, t, l.LenOf(x.X), -off)
						default:
							return l.Prove(x, t, l.CapOf(x.X), -off)
						}
					}
					lowT, lowO := core.Zero, int64(0)
					if x.Low != nil {
						lowT, lowO = l.Expr(x.Low)
						if !l.Prove(x, core.Zero, lowT, lowO) { // 0 <= low
							return false
						}
					}
					if x.High != nil {
						hT, hO := l.Expr(x.High)
						if !limit(hT, hO) {
							return false
						}
						return l.Prove(x, lowT, hT, hO-lowO) // low <= high
					}
					// high defaults to len(x): need low <= len(x)
					if x.Low == nil {
						return true
					}
					if constN >= 0 {
						return l.Prove(x, lowT, core.Zero, constN-lowO)
					}
					return l.Prove(x, lowT, l.LenOf(x.X), -lowO)
				})
			case *ssa.MakeSlice:
				add(x, "make", "make("+describe(x.Len)+","+describe(x.Cap)+")", func(l *core.Lin) bool {
					lt, lo := l.Expr(x.Len)
					ct, co := l.Expr(x.Cap)
					return l.Prove(x, core.Zero, lt, lo) && l.Prove(x, lt, ct, co-lo)
				})
			case *ssa.BinOp:
				if bt, ok := x.X.Type().Underlying().(*types.Basic); ok && bt.Info()&types.IsInteger != 0 {
					switch x.Op {
					case token.QUO, token.REM:
						if k, ok := core.ConstInt(x.Y); ok && k != 0 {
							continue
						}
						add(x, "divide", describe(x.X)+"/"+describe(x.Y), func(l *core.Lin) bool {
							t, off := l.Expr(x.Y)
							return l.Prove(x, core.Zero, t, off-1) // divisor >= 1
						})
					case token.SHL, token.SHR:
						if st, ok := x.Y.Type().Underlying().(*types.Basic); ok && st.Info()&types.IsUnsigned == 0 {
							if k, ok := core.ConstInt(x.Y); ok && k >= 0 {
								continue
							}
							add(x, "shift", describe(x.X)+"<<"+describe(x.Y), func(l *core.Lin) bool {
								t, off := l.Expr(x.Y)
								return l.Prove(x, core.Zero, t, off)
							})
						}
					}
				}
			case *ssa.Panic:
				add(x, "panic", "explicit panic", func(l *core.Lin) bool { return false })
			case ssa.CallInstruction:
				callee := core.StaticCallee(x)
				if callee != nil && callee.Pkg != nil && callee.Pkg.Pkg.Path() == "encoding/binary" && callee.Signature.Recv() != nil {
					need := map[string]int64{"Uint16": 2, "PutUint16": 2, "Uint32": 4, "PutUint32": 4, "Uint64": 8, "PutUint64": 8}[callee.Name()]
					if need > 0 && len(x.Common().Args) >= 2 {
						buf := x.Common().Args[1]
						add(x, "contract", callee.Name()+"("+describe(buf)+")", func(l *core.Lin) bool {
							return l.Prove(x, core.Zero, l.LenOf(buf), -need)
						})
					}
				}
			}
		}
	}
	return out
}

// summaries builds (and verifies) the summaries the prover may use.
func (c *Ctx) summaries(rule string) *core.Summaries {
	if c.sum != nil {
		return c.sum
	}
	R := c.R
	// The summaries are obligations of the properties that own the reader (C03, C04, C10). Other properties
	// use them when they verify and go without them otherwise (their own obligations then decide).
	owner := strings.HasPrefix(rule, "C03") || strings.HasPrefix(rule, "C04") || strings.HasPrefix(rule, "C10") || strings.HasPrefix(rule, "C14")
	if !owner {
		saved := R.Obls
		defer func() {
			for _, o := range R.Obls[len(saved):] {
				if o.Status != "ok" {
					R.Note("summary not available in this run (%s): %s", o.Key, o.Detail)
				}
			}
			R.Obls = saved
		}()
	}
	s := &core.Summaries{}
	mods := c.modSets()
	reset := c.P.Method("buffer", "Reader", "reset")
	getBytes := c.P.Method("buffer", "Reader", "GetBytes")
	// reset: on every return len(reader.Msg) == size
	if reset != nil {
		l := core.NewLin(c.P, reset, mods, s)
		ok := true
		n := 0
		size := reset.Params[1]
		l.AssumeGE(size, 0, "precondition size >= 0 (lifted to the call sites)")
		for ret, snap := range l.FM.AtReturn {
			for key, mv := range snap {
				if !strings.HasSuffix(key, ".Msg") {
					continue
				}
				n++
				// the window at a return is one store, or a merge of stores (if / else arms): each is proved where it was made
				var exact func(mv *core.MemVal, at ssa.Instruction, depth int) bool
				exact = func(mv *core.MemVal, at ssa.Instruction, depth int) bool {
					switch {
					case mv == nil || depth > 4:
						return false
					case mv.Kind == core.MStore:
						st, so := l.Expr(size)
						lt := l.LenOf(mv.Val)
						return l.Prove(at, lt, st, so) && l.Prove(at, st, lt, -so)
					case mv.Kind == core.MPhi && mv.Block != nil && len(mv.Edges) == len(mv.Block.Preds):
						for i, e := range mv.Edges {
							pb := mv.Block.Preds[i]
							if len(pb.Instrs) == 0 || !exact(e, pb.Instrs[len(pb.Instrs)-1], depth+1) {
								return false
							}
						}
						return len(mv.Edges) > 0
					}
					return false
				}
				if !exact(mv, ret, 0) {
					ok = false
				}
			}
		}
		R.Check(ok && n >= 1, rule, "summary:reset:len(Msg)==size", c.atFn(reset), "after reset(size) the message window is exactly size bytes long (every return)", sprintf("proved len(Msg) == size at %d return(s) by E-LIN", n), "cannot prove len(reader.Msg) == size at every return of reset: the message window may be shorter or longer than the declared body")
		if ok && n >= 1 {
			s.ResetLen = reset
		}
	}
	// GetBytes: the returned slice has length n on the nil-error return
	if getBytes != nil {
		l := core.NewLin(c.P, getBytes, mods, s)
		ok := false
		for _, ret := range returns(getBytes) {
			if core.IsNilConst(ret.Results[0]) {
				continue
			}
			nT, nO := l.Expr(getBytes.Params[1])
			lt := l.LenOf(ret.Results[0])
			ok = l.Prove(ret, lt, nT, nO) && l.Prove(ret, nT, lt, -nO) && core.IsNilConst(ret.Results[1])
		}
		R.Check(ok, rule, "summary:GetBytes:len(result)==n", c.atFn(getBytes), "GetBytes(n) returns exactly n bytes when it returns no error", "proved by E-LIN at the successful return", "cannot prove that the successful return of GetBytes has length n")
		if ok {
			s.GetBytesLen = getBytes
		}
	}
	// INV-max: MaxMessageSize is stored only in NewReader, with a value >= 1
	nr := c.P.Func("buffer", "NewReader")
	okMax := nr != nil
	nStores := 0
	for _, fn := range c.P.ScopeFuncs() {
		for _, b := range fn.Blocks {
			for _, in := range b.Instrs {
				st, isSt := in.(*ssa.Store)
				if !isSt {
					continue
				}
				if fr, ok := core.FieldOfAddr(st.Addr); ok && fr.Is(pkBuffer, "Reader", "MaxMessageSize") {
					nStores++
					if fn != nr {
						okMax = false
						continue
					}
					l := core.NewLin(c.P, fn, mods, s)
					t, off := l.Expr(st.Val)
					if !l.Prove(st, core.Zero, t, off-1) {
						okMax = false
					}
				}
			}
		}
	}
	R.Check(okMax && nStores == 1, rule, "invariant:MaxMessageSize>=1", "-", "the message limit is set once, at construction, to a positive value", "single store in NewReader, value proved >= 1 (parameter on its > 0 edge, else the default constant)", "MaxMessageSize is stored outside NewReader or its value is not provably >= 1")
	s.MaxPositive = okMax && nStores == 1
	s.FrameEnd = c.P.Method("buffer", "Writer", "End")
	s.FrameEndSteps = map[*ssa.Function]bool{}
	for fn := range c.endUnit() {
		if fn != s.FrameEnd {
			s.FrameEndSteps[fn] = true
		}
	}
	c.sum = s
	return s
}

func (c *Ctx) modSets() *core.ModSets {
	if c.mods == nil {
		c.mods = core.NewModSets(c.P)
	}
	return c.mods
}

// panicFreedom discharges every bounds obligation of the given functions. Unexported functions may rely
// on the preconditions  p >= 0  (and  p <= MaxMessageSize  for methods of buffer.Reader) on their int
// parameters; these are then proved at every call site.
func (c *Ctx) panicFreedom(rule string, fns []*ssa.Function) (nOb, nOK int) {
	R := c.R
	sum := c.summaries(rule)
	mods := c.modSets()
	type pre struct {
		fn    *ssa.Function
		param *ssa.Parameter
		kind  string // ">=0" | "<=max"
	}
	var needed []pre
	for _, fn := range fns {
		obs := c.boundsObligations(fn)
		if len(obs) == 0 {
			continue
		}
		R.Analysed(fname(fn))
		plain := core.NewLin(c.P, fn, mods, sum)
		var withPre, withPre2 *core.Lin
		unexported := !token.IsExported(fn.Name()) && fn.Parent() == nil && len(c.P.CallSitesOf(fn)) > 0
		var withCtx *core.Lin
		nImported := 0
		for _, ob := range obs {
			nOb++
			key := fkey(fn) + ":" + ob.kind + ":" + ob.what
			if ob.prove(plain) {
				nOK++
				R.OK(rule, key, c.at(ob.in), "run-time check cannot fail: "+ob.kind+" "+ob.what, "E-LIN: "+plain.Last)
				continue
			}
			if unexported {
				if withPre == nil {
					withPre = core.NewLin(c.P, fn, mods, sum)
					for _, p := range fn.Params {
						if bt, ok := p.Type().Underlying().(*types.Basic); ok && bt.Kind() == types.Int {
							withPre.AssumeGE(p, 0, "precondition "+p.Name()+" >= 0")
							needed = append(needed, pre{fn, p, ">=0"})
						}
					}
				}
				if ob.prove(withPre) {
					nOK++
					R.OK(rule, key, c.at(ob.in), "run-time check cannot fail: "+ob.kind+" "+ob.what, "E-LIN with the lifted precondition (int parameters >= 0): "+withPre.Last)
					continue
				}
				if withPre2 == nil {
					withPre2 = core.NewLin(c.P, fn, mods, sum)
					for _, p := range fn.Params {
						if bt, ok := p.Type().Underlying().(*types.Basic); ok && bt.Kind() == types.Int {
							withPre2.AssumeGE(p, 0, "precondition "+p.Name()+" >= 0")
						}
						if _, ok := p.Type().Underlying().(*types.Slice); ok {
							withPre2.Assume = append(withPre2.Assume, withPre2.FactLE(core.Zero, withPre2.LenOf(p), -1))
							needed = append(needed, pre{fn, p, "nonempty"})
						}
					}
				}
				if ob.prove(withPre2) {
					nOK++
					R.OK(rule, key, c.at(ob.in), "run-time check cannot fail: "+ob.kind+" "+ob.what, "E-LIN with the lifted preconditions (int parameters >= 0, slice parameters non-empty): "+withPre2.Last)
					continue
				}
			}
			// a private function with one caller: what the caller has established at the call holds on entry
			if site := c.onlyCaller(fn); site != nil {
				if withCtx == nil {
					withCtx = core.NewLin(c.P, fn, mods, sum)
					callerLin := core.NewLin(c.P, site.Parent(), mods, sum)
					nImported = withCtx.ImportCallContext(callerLin, site)
				}
				if nImported > 0 && ob.prove(withCtx) {
					nOK++
					R.OK(rule, key, c.at(ob.in), "run-time check cannot fail: "+ob.kind+" "+ob.what, sprintf("E-LIN with %d fact(s) the only caller %s establishes at the call: %s", nImported, fkey(site.Parent()), withCtx.Last))
					continue
				}
			}
			R.Fail(rule, key, c.at(ob.in), "run-time check cannot fail: "+ob.kind+" "+ob.what, "undischarged: no dominating guard, definition or contract bounds this "+ob.kind+" - a client-controlled value can make it panic (index / slice out of range, negative size)")
		}
	}
	// prove the lifted preconditions at every call site (a helper that merely forwards its own parameter
	// lifts the precondition on to its callers)
	seen := map[string]bool{}
	for qi := 0; qi < len(needed) && qi < 64; qi++ {
		p := needed[qi]
		k := fkey(p.fn) + ":" + p.param.Name() + p.kind
		if seen[k] {
			continue
		}
		seen[k] = true
		idx := -1
		for i, q := range p.fn.Params {
			if q == p.param {
				idx = i
			}
		}
		for _, site := range c.P.CallSitesOf(p.fn) {
			caller := site.Parent()
			l := core.NewLin(c.P, caller, mods, sum)
			arg := site.Common().Args[idx]
			nOb++
			if p.kind == "nonempty" {
				ok := l.Prove(site, core.Zero, l.LenOf(arg), -1)
				if ok {
					nOK++
				}
				R.Check(ok, rule, fkey(caller)+":precondition:"+fkey(p.fn)+"(len("+p.param.Name()+")>=1)", c.at(site), "call site establishes the callee's precondition len("+p.param.Name()+") >= 1", "E-LIN: "+l.Last, "cannot prove len("+describe(arg)+") >= 1 at this call of "+fname(p.fn)+": an empty slice is indexed")
				continue
			}
			t, off := l.Expr(arg)
			ok := l.Prove(site, core.Zero, t, off)
			if !ok {
				if fwd, isParam := core.StripConv(arg).(*ssa.Parameter); isParam && !token.IsExported(caller.Name()) && caller.Parent() == nil && len(c.P.CallSitesOf(caller)) > 0 {
					needed = append(needed, pre{caller, fwd, ">=0"})
					nOK++
					R.OK(rule, fkey(caller)+":precondition:"+fkey(p.fn)+"("+p.param.Name()+">=0)", c.at(site), "call site establishes the callee's precondition "+p.param.Name()+" >= 0", "the argument is the caller's own parameter "+fwd.Name()+": the precondition is lifted on to the callers of "+fkey(caller))
					continue
				}
			}
			if !ok {
				// the argument is the successful result of a private function that proves it non-negative itself
				if g, h := c.resultGuarantee(rule, site, arg); h != nil && g.nonNeg {
					nOK++
					R.OK(rule, fkey(caller)+":precondition:"+fkey(p.fn)+"("+p.param.Name()+">=0)", c.at(site), "call site establishes the callee's precondition "+p.param.Name()+" >= 0", "the argument is the result of "+fkey(h)+" on its err == nil edge; every return of "+fkey(h)+" that may carry a nil error proves result >= 0 (E-LIN in its own system)")
					continue
				}
			}
			if ok {
				nOK++
			}
			R.Check(ok, rule, fkey(caller)+":precondition:"+fkey(p.fn)+"("+p.param.Name()+">=0)", c.at(site), "call site establishes the callee's precondition "+p.param.Name()+" >= 0", "E-LIN: "+l.Last, "cannot prove "+describe(arg)+" >= 0 at this call of "+fname(p.fn)+": a negative size reaches a slice / make")
		}
	}
	return
}

// slotAssertions: every non-comma-ok type assertion on a context value is justified by the writers of that slot.
func (c *Ctx) slotAssertions(rule string) {
	R := c.R
	// writers: context.WithValue(_, key, v) in S
	type writer struct {
		key int64
		typ types.Type
		in  ssa.Instruction
	}
	var writers []writer
	for _, fn := range c.P.ScopeFuncs() {
		for _, ci := range core.Calls(fn) {
			if !core.FuncIs(core.StaticCallee(ci), "context", "WithValue") {
				continue
			}
			a := ci.Common().Args
			kv, vv := a[1], a[2]
			if mi, ok := kv.(*ssa.MakeInterface); ok {
				kv = mi.X
			}
			k, ok := core.ConstInt(kv)
			if !ok || !core.IsNamed(kv.Type(), pkWire, "ctxKey") {
				R.Fail(rule, fkey(fn)+":context-key", c.at(ci), "context slots use constants of the unexported key type", "context.WithValue with a non-constant or foreign key")
				continue
			}
			var t types.Type
			switch x := vv.(type) {
			case *ssa.MakeInterface:
				t = x.X.Type()
			case *ssa.ChangeInterface:
				t = x.X.Type()
			}
			writers = append(writers, writer{k, t, ci})
		}
	}
	n := 0
	for _, fn := range c.P.ScopeFuncs() {
		for _, b := range fn.Blocks {
			for _, in := range b.Instrs {
				ta, ok := in.(*ssa.TypeAssert)
				if !ok {
					continue
				}
				if ta.CommaOk {
					// the two-result form cannot panic; a context slot read this way still counts as an inspected site
					if call, isCall := ta.X.(*ssa.Call); isCall && call.Call.IsInvoke() && call.Call.Method.Name() == "Value" && isCtxType(call.Call.Value.Type()) {
						n++
					}
					continue
				}
				n++
				key := fkey(fn) + ":assert:" + types.TypeString(ta.AssertedType, func(p *types.Package) string { return p.Name() })
				// the asserted value must be ctx.Value(K)
				call, isCall := ta.X.(*ssa.Call)
				if !isCall || !call.Call.IsInvoke() || call.Call.Method.Name() != "Value" || !isCtxType(call.Call.Value.Type()) {
					R.Fail(rule, key, c.at(ta), "a non-comma-ok type assertion cannot fail", "the asserted value is not a context slot read: the assertion can panic")
					continue
				}
				kv := call.Call.Args[0]
				if mi, ok := kv.(*ssa.MakeInterface); ok {
					kv = mi.X
				}
				// the slot: a constant key, or the key parameter of a private helper (every key its callers pass)
				var keys []int64
				k, ok := core.ConstInt(kv)
				if ok {
					keys = []int64{k}
				} else if prm, isP := kv.(*ssa.Parameter); isP && !token.IsExported(fn.Name()) {
					ok = len(c.argsOfParam(prm)) > 0
					for _, a := range c.argsOfParam(prm) {
						av := a.v
						if mi, isMI := av.(*ssa.MakeInterface); isMI {
							av = mi.X
						}
						if ak, isK := core.ConstInt(av); isK {
							keys = append(keys, ak)
						} else {
							ok = false
						}
					}
					n += len(keys) - 1
				}
				okAll, nW := ok, 0
				for _, k := range keys {
					nk := 0
					for _, w := range writers {
						if w.key != k {
							continue
						}
						nW++
						nk++
						if w.typ == nil || !types.Identical(w.typ, ta.AssertedType) {
							okAll = false
						}
					}
					if nk == 0 {
						okAll = false
					}
				}
				// and the assertion is guarded by a nil test of the slot value
				guarded := anyDominates(nilEdges(call, false), ta.Block())
				R.Check(okAll && nW > 0 && guarded, rule, key, c.at(ta), "the typed context slot always holds the asserted type (only the library's own setter writes it, with exactly that static type) and is tested for nil first", sprintf("%d writer(s) of slot %d, all of the asserted type; dominated by the != nil edge", nW, k), "a writer of this context slot stores a value of another type, or the nil test is missing: the assertion can panic")
			}
		}
	}
	R.Floor(rule, "non-comma-ok type assertions on context slots", n, 4)
}

// onlyCaller returns the single call site of a private function: unexported, not a closure, exactly one static
// call site, and no other incoming edge in the CHA call graph (so it cannot be reached through an interface or a
// function value).
func (c *Ctx) onlyCaller(fn *ssa.Function) ssa.CallInstruction {
	if fn == nil || fn.Parent() != nil || token.IsExported(fn.Name()) {
		return nil
	}
	sites := c.P.CallSitesOf(fn)
	if len(sites) != 1 {
		return nil
	}
	if _, isGo := sites[0].(*ssa.Go); isGo {
		return nil
	}
	if sites[0].Parent() == fn {
		return nil // recursion: the call-site facts would be assumed to prove themselves
	}
	if n := c.P.CHA().Nodes[fn]; n != nil {
		for _, e := range n.In {
			if e.Site == sites[0] {
				continue
			}
			// a promotion wrapper ((*Session).m forwarding to the embedded (*Server).m) that nothing calls is not a caller
			if cf := e.Caller.Func; cf != nil && cf.Synthetic != "" && len(e.Caller.In) == 0 {
				continue
			}
			return nil
		}
	}
	return sites[0]
}

// endUnit returns Writer.End together with the private functions of pkg/buffer that only End calls (a flush step
// split out of it): they run on the frame End was called for and are the only code that may touch the connection.
func (c *Ctx) endUnit() map[*ssa.Function]bool {
	out := map[*ssa.Function]bool{}
	end := c.P.Method("buffer", "Writer", "End")
	if end == nil {
		return out
	}
	out[end] = true
	for _, ci := range core.Calls(end) {
		h := core.StaticCallee(ci)
		if h != nil && c.P.InPkg(h, "buffer") && h.Blocks != nil && c.onlyCaller(h) == ci {
			out[h] = true
		}
	}
	return out
}

// intResult: what a private function of the scope guarantees about its int result #0 on every return whose error
// result (#1) may be nil - proved in the function's own system: result >= 0, result <= the receiver's message limit.
type intResult struct{ nonNeg, leMax bool }

// resultGuarantee: arg at site is the int result of such a function, taken on the err == nil edge of that call, with
// the same receiver as the call at site (the limit is a field of the receiver, stored only by NewReader).
func (c *Ctx) resultGuarantee(rule string, site ssa.CallInstruction, arg ssa.Value) (intResult, *ssa.Function) {
	ex, ok := core.StripConv(arg).(*ssa.Extract)
	if !ok || ex.Index != 0 {
		return intResult{}, nil
	}
	call, ok := ex.Tuple.(*ssa.Call)
	if !ok {
		return intResult{}, nil
	}
	h := core.StaticCallee(call)
	if h == nil || !c.P.InScope(h) || h.Blocks == nil || h.Signature.Results().Len() != 2 || !core.IsErrorType(h.Signature.Results().At(1).Type()) {
		return intResult{}, nil
	}
	if !anyDominates(nilEdges(resultOf(call, 1), true), site.Block()) {
		return intResult{}, nil
	}
	sameRecv := h.Signature.Recv() != nil && len(call.Call.Args) > 0 && len(site.Common().Args) > 0 && call.Call.Args[0] == site.Common().Args[0]
	sub := core.NewLin(c.P, h, c.modSets(), c.summaries(rule))
	res := intResult{true, sameRecv}
	n := 0
	for _, r := range returns(h) {
		if r.Block() == h.Recover || len(r.Results) != 2 {
			continue
		}
		if c.Err().Classify(r.Results[1], r.Block()).NeverNil() {
			continue
		}
		n++
		t, off := sub.Expr(r.Results[0])
		if !sub.Prove(r, core.Zero, t, off) {
			res.nonNeg = false
		}
		le := false
		for _, m := range maxTerms(sub) {
			if sub.Prove(r, t, m, -off) {
				le = true
			}
		}
		if !le {
			res.leMax = false
		}
	}
	if n == 0 {
		return intResult{}, nil
	}
	return res, h
}
