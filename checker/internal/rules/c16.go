package rules

import (
	"go/token"
	"go/types"
	"sort"

	"golang.org/x/tools/go/ssa"

	"pwv/internal/core"
)

func init() { Registry["C16"] = runC16 }

// atomicOp matches a call of (*sync/atomic.Bool).<name> on struct field pkg.typ.field.
func atomicOp(ci ssa.CallInstruction, typ, field string) string {
	f := core.StaticCallee(ci)
	if f == nil || f.Signature.Recv() == nil || f.Pkg == nil || f.Pkg.Pkg.Path() != "sync/atomic" {
		return ""
	}
	args := ci.Common().Args
	if len(args) == 0 {
		return ""
	}
	if fr, ok := core.FieldOfAddr(args[0]); ok && fr.Is(pkWire, typ, field) {
		return f.Name()
	}
	return ""
}

func wgOp(ci ssa.CallInstruction) string {
	f := core.StaticCallee(ci)
	if f == nil || !core.MethodIs(f, "sync", "WaitGroup", f.Name()) {
		return ""
	}
	args := ci.Common().Args
	if len(args) == 0 {
		return ""
	}
	if fr, ok := core.FieldOfAddr(args[0]); ok && fr.Is(pkWire, "Server", "wg") {
		return f.Name()
	}
	return ""
}

// blocksBetween returns the blocks that lie on some path from a to b (inclusive).
func blocksBetween(a, b *ssa.BasicBlock) map[*ssa.BasicBlock]bool {
	fwd := reachableAvoiding(a, func(*ssa.BasicBlock) bool { return false })
	out := map[*ssa.BasicBlock]bool{}
	// backward reachability from b
	back := map[*ssa.BasicBlock]bool{}
	var walk func(x *ssa.BasicBlock)
	walk = func(x *ssa.BasicBlock) {
		if back[x] {
			return
		}
		back[x] = true
		if x == a {
			return
		}
		for _, p := range x.Preds {
			walk(p)
		}
	}
	walk(b)
	for x := range fwd {
		if back[x] {
			out[x] = true
		}
	}
	return out
}

// testAndSet recognises a call whose boolean result tells exactly one of any number of concurrent
// callers that it switched a flag: atomic Swap(true) (the winner sees false), CompareAndSwap (the
// winner sees true), or a helper of package wire all of whose returns return such a result.
func (c *Ctx) testAndSet(call *ssa.Call, depth int) (winsOn bool, how string, ok bool) {
	f := core.StaticCallee(call)
	if f == nil || f.Pkg == nil {
		return false, "", false
	}
	if f.Pkg.Pkg.Path() == "sync/atomic" {
		switch f.Name() {
		case "Swap":
			if cv, isC := call.Call.Args[len(call.Call.Args)-1].(*ssa.Const); isC && cv.Value != nil && cv.Value.ExactString() == "true" {
				return false, "atomic Swap(true) returned false", true
			}
		case "CompareAndSwap":
			return true, "atomic CompareAndSwap succeeded", true
		}
		return false, "", false
	}
	if depth == 0 || !c.P.InPkg(f, "wire") || f.Blocks == nil || f.Signature.Results().Len() != 1 {
		return false, "", false
	}
	rets := returns(f)
	if len(rets) == 0 {
		return false, "", false
	}
	first := true
	for _, r := range rets {
		v := forwardLoad(r.Results[0])
		flip := false
		if u, isU := v.(*ssa.UnOp); isU && u.Op == token.NOT {
			v, flip = u.X, true
		}
		inner, isCall := v.(*ssa.Call)
		if !isCall {
			return false, "", false
		}
		w, h, okInner := c.testAndSet(inner, depth-1)
		if !okInner {
			return false, "", false
		}
		if flip {
			w = !w
		}
		if !first && w != winsOn {
			return false, "", false
		}
		winsOn, how, first = w, h+" (through "+fkey(f)+")", false
	}
	return winsOn, how, true
}

func runC16(c *Ctx) {
	R := c.R
	R.Technique = "lockset (must-hold) dataflow, dominance by the winning edge of an atomic swap, must-pass-through over the CFG"
	R.Explanation = "Decides the synchronisation skeleton that makes Close graceful, final and idempotent under every interleaving: (R1) every close() of a channel held in the Server is dominated by the winning edge of an atomic Swap/CompareAndSwap (or sync.Once), so concurrent Close calls close it once; " +
		"(R2) command admission is atomic with respect to Close: the closing test and WaitGroup.Add(1) in consumeSingleCommand execute in one critical section of Server.mu with the Add dominated by the test's not-closing edge, the instruction that sets the closing flag in Close holds the same lock for writing, and WaitGroup.Wait comes after it - hence a command either registered before the flag was set (Close waits for it) or sees the flag (its handler never starts); " +
		"(R3) Add/Done bracket the handler on every path, every path of Close reaches WaitGroup.Wait (repeated / concurrent calls also wait), the closer goroutine closes the listener after the closer channel fires, Serve returns nil on net.ErrClosed before its generic error return; (R4) no blocking operation (Wait, channel operation, connection I/O, callback) is performed while Server.mu is held (no deadlock through the lock). " +
		"Not decided: liveness of user handlers (Close waits for them by design); behaviour when Close is called on a Server not built by NewServer."
	R.Assumptions = []string{"sync.RWMutex, sync.WaitGroup, atomic.Bool semantics", "closing a closed channel panics; receiving from a closed channel never blocks"}
	R.Explanation += " (R3) also: Serve itself waits for nothing that its connection goroutines signal at their end (a WaitGroup or channel tied to client lifetimes)."
	R.Trusted = []string{"go/types + go/ssa"}

	closeFn := c.mustMethod("C16.R1", "wire", "Server", "Close")
	csc := c.mustMethod("C16.R2", "wire", "Session", "consumeSingleCommand")
	serveFn := c.mustMethod("C16.R3", "wire", "Server", "Serve")
	if closeFn == nil || csc == nil || serveFn == nil {
		return
	}
	R.Analysed(fname(closeFn))
	R.Analysed(fname(csc))
	R.Analysed(fname(serveFn))

	// ---------- R1: close-once, for every builtin close on a Server-held channel in the scope
	nClose := 0
	for _, fn := range c.P.ScopeFuncs() {
		for _, ci := range core.Calls(fn) {
			if core.BuiltinName(ci.Common()) != "close" {
				continue
			}
			fr, ok := core.FieldOfValue(ci.Common().Args[0])
			if !ok || fr.Struct == nil || fr.Struct.Obj().Pkg() == nil || fr.Struct.Obj().Pkg().Path() != pkWire {
				continue
			}
			nClose++
			won := false
			why := ""
			for _, other := range core.Calls(fn) {
				call, isCall := other.(*ssa.Call)
				if !isCall {
					continue
				}
				winsOn, how, isTAS := c.testAndSet(call, 2)
				if isTAS && anyDominates(boolEdges(call, winsOn), ci.Block()) {
					won, why = true, "dominated by the edge on which "+how
				}
			}
			if !won && fn.Parent() != nil { // sync.Once.Do(func(){ close(ch) })
				for _, site := range c.P.CallSitesOf(nil) {
					_ = site
				}
				for _, pc := range core.Calls(fn.Parent()) {
					if f := core.StaticCallee(pc); f != nil && core.MethodIs(f, "sync", "Once", "Do") {
						if mc, ok := pc.Common().Args[len(pc.Common().Args)-1].(*ssa.MakeClosure); ok && mc.Fn == ssa.Value(fn) {
							won, why = true, "inside sync.Once.Do"
						}
					}
				}
			}
			R.Check(won, "C16.R1", fkey(fn)+":close-once:"+fr.Name, c.at(ci), "a shared channel is closed only by the caller that wins an atomic test-and-set", why, "close("+fr.Name+") is not dominated by the winning edge of an atomic Swap/CompareAndSwap: two concurrent callers can both reach it (close of closed channel)")
		}
	}
	R.Floor("C16.R1", "close() calls on Server-held channels", nClose, 1)

	// ---------- R2: admission atomicity
	ls := core.Locksets(csc)
	var loadCall *ssa.Call
	var addCall ssa.CallInstruction
	for _, ci := range core.Calls(csc) {
		if atomicOp(ci, "Server", "closing") == "Load" {
			if call, ok := ci.(*ssa.Call); ok {
				loadCall = call
			}
		}
		if wgOp(ci) == "Add" {
			addCall = ci
		}
	}
	// the admission step may be a helper of the command loop that reports whether the command was registered
	var admSite *ssa.Call
	if loadCall == nil && addCall == nil {
		for _, ci := range core.Calls(csc) {
			h := core.StaticCallee(ci)
			call, isCall := ci.(*ssa.Call)
			if h == nil || !isCall || !c.P.InPkg(h, "wire") || h.Blocks == nil {
				continue
			}
			var hl *ssa.Call
			var ha ssa.CallInstruction
			for _, hi := range core.Calls(h) {
				if atomicOp(hi, "Server", "closing") == "Load" {
					hl, _ = hi.(*ssa.Call)
				}
				if wgOp(hi) == "Add" {
					ha = hi
				}
			}
			if hl != nil && ha != nil {
				loadCall, addCall, admSite = hl, ha, call
				ls = core.Locksets(h)
				R.Analysed(fname(h))
				// the helper answers true exactly when it has registered the command
				okRes := len(returns(h)) > 0
				for _, r := range returns(h) {
					if r.Block() == h.Recover {
						continue
					}
					k, isK := false, false
					if len(r.Results) == 1 {
						k, isK = core.ConstBool(forwardLoad(r.Results[0]))
					}
					passes := core.InstrDominates(ha, r)
					avoids := !reachableAvoiding(ha.Block(), func(*ssa.BasicBlock) bool { return false })[r.Block()]
					if !isK || (k && !passes) || (!k && !avoids) {
						okRes = false
					}
				}
				R.Check(okRes, "C16.R2", fkey(h)+":reports-registration", c.atFn(h), "the admission helper answers true exactly when it has registered the command with the wait group", "every return is the constant true after wg.Add, or the constant false on a path that cannot have passed it", "the admission helper's result does not tell whether wg.Add was executed: the caller may run a handler that is not registered, or release a registration it does not hold")
			}
		}
	}
	if loadCall == nil || addCall == nil {
		R.Fail("C16.R2", "consumeSingleCommand:admission", c.atFn(csc), "command admission tests the closing flag and registers with the wait group", "closing.Load() or wg.Add not found in consumeSingleCommand")
	} else {
		R.Check(anyDominates(boolEdges(loadCall, false), addCall.Block()), "C16.R2", "consumeSingleCommand:add-after-not-closing", c.at(addCall), "a command registers with the wait group only after it saw the server not closing", "wg.Add is dominated by the false edge of closing.Load()", "wg.Add(1) is not dominated by the not-closing edge of the closing test")
		held := ls[loadCall]["Server.mu"] != 0 && ls[addCall]["Server.mu"] != 0
		continuous := held
		if held {
			for b := range blocksBetween(loadCall.Block(), addCall.Block()) {
				for _, in := range b.Instrs {
					if b == loadCall.Block() && core.InstrIndex(in) < core.InstrIndex(loadCall) {
						continue
					}
					if b == addCall.Block() && core.InstrIndex(in) > core.InstrIndex(addCall) {
						continue
					}
					if ls[in]["Server.mu"] == 0 {
						continuous = false
					}
				}
			}
		}
		R.Check(continuous, "C16.R2", "consumeSingleCommand:one-critical-section", c.at(addCall), "the closing test and wg.Add(1) execute in one critical section of Server.mu", "Server.mu is held at the test, at the Add and at every instruction between them", "Server.mu is not held continuously from the closing test to wg.Add(1): Close can run completely in between, return, and the handler starts afterwards")
	}
	// a connection registers only for a command that has arrived completely: every wg.Add on a connection's path is
	// preceded by a successful message read. A registration taken before the client's next message (around the
	// authentication exchange, say) is held while waiting for the client: an idle connection then blocks Close forever
	{
		var afterRead func(at ssa.Instruction, depth int) bool
		afterRead = func(at ssa.Instruction, depth int) bool {
			fn := at.Parent()
			for _, ci := range core.Calls(fn) {
				call, isCall := ci.(*ssa.Call)
				if !isCall || !(isReaderMethod(call, "ReadTypedMsg") || isReaderMethod(call, "ReadUntypedMsg")) {
					continue
				}
				if ev := errResultOf(call); ev != nil && anyDominates(nilEdges(ev, true), at.Block()) {
					return true
				}
			}
			if depth > 0 {
				if site := c.onlyCaller(fn); site != nil {
					return afterRead(site, depth-1)
				}
			}
			return false
		}
		nAdd := 0
		for fn := range c.connectionScope() {
			if !c.P.InPkg(fn, "wire") {
				continue
			}
			for _, ci := range core.Calls(fn) {
				if wgOp(ci) != "Add" {
					continue
				}
				nAdd++
				R.Check(afterRead(ci, 3), "C16.R4", fkey(fn)+":registers-after-message-read", c.at(ci), "a connection holds a registration only while a command that has been received completely is handled (an idle connection never blocks Close)", "wg.Add is dominated by the success edge of a message read", "wg.Add in "+fname(fn)+" is not preceded by a successful message read: the registration is held while the server waits for the client's next message, and Close waits with it (a client idle at that point blocks shutdown forever)")
			}
		}
		R.Floor("C16.R4", "wg.Add sites on the connection path", nAdd, 1)
		// outside the connection path (Serve): a goroutine that holds a registration (its body runs wg.Done) must not
		// wait for a client - it would keep Close waiting for as long as a connection stays open or idle
		readers := c.inputReaders()
		for _, g := range c.goroutinesOf(serveFn, 2) {
			holds := false
			for _, f := range allNested(g) {
				for _, ci := range core.Calls(f) {
					if wgOp(ci) == "Done" {
						holds = true
					}
				}
			}
			if !holds {
				continue
			}
			waits := ""
			seen := map[*ssa.Function]bool{}
			var walk func(f *ssa.Function, depth int)
			walk = func(f *ssa.Function, depth int) {
				if f == nil || seen[f] || depth == 0 || waits != "" {
					return
				}
				seen[f] = true
				if readers[f] {
					waits = fname(f)
					return
				}
				for _, ci := range core.Calls(f) {
					if h := core.StaticCallee(ci); h != nil && c.P.InScope(h) {
						walk(h, depth-1)
					}
				}
				for _, a := range f.AnonFuncs {
					walk(a, depth-1)
				}
			}
			walk(g, 8)
			R.Check(waits == "", "C16.R4", fkey(g)+":registered-goroutine-does-not-wait-for-clients", c.atFn(g), "a goroutine of Serve that is registered with the wait group ends on its own once Close has signalled (it never waits for a client)", "the goroutine's body reaches no read of client input", "a goroutine registered with the wait group reaches "+waits+": it lives as long as its connection, so Close blocks until every client - even an idle one - has disconnected")
		}
	}
	// the flag, lock and wait group that admission uses are those Close operates on: there is one Server object, built
	// by NewServer - a second one (a per-connection copy "with a logger", say) has its own zero flag and wait group
	nSrv := 0
	for _, fn := range c.P.ScopeFuncs() {
		for _, b := range fn.Blocks {
			for _, in := range b.Instrs {
				switch x := in.(type) {
				case *ssa.Alloc:
					pt, ok := x.Type().Underlying().(*types.Pointer)
					if ok {
						_, ok = pt.Elem().Underlying().(*types.Struct)
					}
					if ok && core.IsNamed(pt.Elem(), pkWire, "Server") {
						nSrv++
						R.Check(fn.Name() == "NewServer" && c.P.InPkg(fn, "wire"), "C16.R2", fkey(fn)+":server-constructed", c.at(x), "the Server whose closing flag, lock and wait group the connections use is the one Close was called on (no second Server object exists)", "allocated in NewServer", "a Server value is constructed in "+fname(fn)+": connections served through it test a closing flag Close never sets and register in a wait group Close never waits on")
					}
				case *ssa.UnOp:
					if _, isStruct := x.Type().Underlying().(*types.Struct); isStruct && x.Op == token.MUL && core.IsNamed(x.Type(), pkWire, "Server") {
						nSrv++
						R.Fail("C16.R2", fkey(fn)+":server-copied", c.at(x), "the Server whose closing flag, lock and wait group the connections use is the one Close was called on (no second Server object exists)", "the Server struct is copied by value in "+fname(fn)+": the copy has its own lock, flag and wait group")
					}
				}
			}
		}
	}
	R.Floor("C16.R2", "Server construction sites", nSrv, 1)
	// in Close: the flag is set under the write lock, Wait comes after it and outside the lock
	lsClose := core.Locksets(closeFn)
	var setFlag ssa.CallInstruction
	var waits []ssa.CallInstruction
	setHeld := false
	for _, ci := range core.Calls(closeFn) {
		switch atomicOp(ci, "Server", "closing") {
		case "Store", "Swap", "CompareAndSwap":
			setFlag = ci
			setHeld = lsClose[ci]["Server.mu"] == 'W'
		}
		if wgOp(ci) == "Wait" {
			waits = append(waits, ci)
		}
		// a helper of Close that switches the flag
		if h := core.StaticCallee(ci); h != nil && c.P.InPkg(h, "wire") && h.Blocks != nil {
			lsH := core.Locksets(h)
			for _, hi := range core.Calls(h) {
				switch atomicOp(hi, "Server", "closing") {
				case "Store", "Swap", "CompareAndSwap":
					setFlag = ci
					setHeld = lsH[hi]["Server.mu"] == 'W' || lsClose[ci]["Server.mu"] == 'W'
					R.Analysed(fname(h))
				}
			}
		}
	}
	if setFlag == nil {
		R.Fail("C16.R2", "Close:sets-closing", c.atFn(closeFn), "Close sets the closing flag", "no atomic store to Server.closing in Close")
	} else {
		R.Check(setHeld, "C16.R2", "Close:flag-under-write-lock", c.at(setFlag), "the closing flag is switched while holding Server.mu for writing (excludes every admission critical section)", "lockset at the store contains Server.mu:W", "the closing flag is set without holding Server.mu for writing: an admission critical section can overlap it")
		for _, w := range waits {
			R.Check(core.InstrDominates(setFlag, w), "C16.R2", "Close:wait-after-flag", c.at(w), "Close waits for in-flight commands after the flag is set", "the flag store dominates wg.Wait", "wg.Wait is not dominated by the store of the closing flag")
		}
	}

	// ---------- R3
	// every path of Close reaches wg.Wait
	reach := reachableAvoiding(closeFn.Blocks[0], func(b *ssa.BasicBlock) bool {
		return blockHasCall(b, func(ci ssa.CallInstruction) bool { return wgOp(ci) == "Wait" })
	})
	allWait := len(waits) > 0
	for b := range reach {
		if _, isRet := b.Instrs[len(b.Instrs)-1].(*ssa.Return); isRet {
			allWait = false
			R.Fail("C16.R3", "Close:return-without-wait", c.at(b.Instrs[len(b.Instrs)-1]), "every call of Close returns only after the in-flight handlers have finished", "a return of Close is reachable without passing wg.Wait (a repeated or concurrent Close returns while handlers still run)")
		}
	}
	if allWait {
		R.OK("C16.R3", "Close:always-waits", c.atFn(closeFn), "every call of Close returns only after the in-flight handlers have finished", "wg.Wait is on every path to a return (must-pass-through)")
	}
	// Add / Done bracket handleCommand
	hc := c.P.Method("wire", "Session", "handleCommand")
	var registered []edge
	if admSite != nil {
		// in the command loop the registration is the true edge of the admission helper's answer
		addCall, loadCall, registered = admSite, nil, boolEdges(admSite, true)
	}
	if addCall != nil && hc != nil {
		var hcall ssa.CallInstruction
		for _, ci := range callsIn(csc, calleeIs(hc)) {
			hcall = ci
		}
		isDone := func(ci ssa.CallInstruction) bool { return wgOp(ci) == "Done" }
		// every path to the target passes Add (branches on the same closing-test value are correlated)
		passesAdd := func(target ssa.Instruction) bool {
			if admSite != nil {
				return anyDominates(registered, target.Block())
			}
			if core.InstrDominates(addCall, target) {
				return true
			}
			if loadCall == nil {
				return false
			}
			for _, assume := range []bool{false, true} {
				r0 := reachableAssuming(csc.Blocks[0], func(b *ssa.BasicBlock) bool { return b == addCall.Block() }, loadCall, assume)
				if r0[target.Block()] {
					return false
				}
			}
			return true
		}
		doneDeferred := false
		for _, ci := range core.Calls(csc) {
			if d, ok := ci.(*ssa.Defer); ok && isDone(d) && passesAdd(d) {
				doneDeferred = true
			}
		}
		ok := hcall != nil && passesAdd(hcall)
		sameBlockDone := false
		for _, in := range addCall.Block().Instrs {
			if ci, isCall := in.(ssa.CallInstruction); isCall && isDone(ci) && core.InstrIndex(in) > core.InstrIndex(addCall) {
				sameBlockDone = true
			}
		}
		if ok && !doneDeferred && !sameBlockDone {
			// from the instruction after Add, every path to a return passes a Done
			// Add is dominated by the not-closing edge (R2), so the closing test is false on these paths
			r2 := reachableAssuming(addCall.Block(), func(b *ssa.BasicBlock) bool {
				if b == addCall.Block() {
					return false
				}
				return blockHasCall(b, isDone)
			}, loadCall, false)
			for b := range r2 {
				if _, isRet := b.Instrs[len(b.Instrs)-1].(*ssa.Return); isRet {
					if b == addCall.Block() && blockHasCall(b, isDone) {
						continue
					}
					ok = false
				}
			}
			// Done must come after the handler call
			for _, ci := range callsIn(csc, isDone) {
				if !core.InstrDominates(hcall, ci) {
					ok = false
				}
			}
		}
		R.Check(doneDeferred, "C16.R3", "consumeSingleCommand:done-deferred", c.at(addCall), "the registration of a command is released however its handler ends (return, runtime.Goexit, a panic recovered further up)", "wg.Done is deferred right after wg.Add", "wg.Done is an ordinary call after the handler: when the handler's goroutine leaves through runtime.Goexit (e.g. t.FailNow / require in a handler) the registration is never released and every later Close blocks forever although no handler is running")
		R.Check(ok, "C16.R3", "consumeSingleCommand:add-done-bracket", c.at(addCall), "wg.Add(1) and wg.Done() bracket the command handler on every path", "Add dominates the handler call; Done follows it on every path to a return", "the handler call is not bracketed by wg.Add / wg.Done on every path (Close may return early or wait forever)")
	}
	// Serve: closer goroutine and net.ErrClosed
	closerOK := false
	goTargets := c.goroutinesOf(serveFn, 2)
	for _, a := range goTargets {
		recvIdx, closeIdx := -1, -1
		n := 0
		for _, b := range a.Blocks {
			for _, in := range b.Instrs {
				n++
				if u, ok := in.(*ssa.UnOp); ok && u.Op == token.ARROW {
					if fr, ok := core.FieldOfValue(u.X); ok && fr.Is(pkWire, "Server", "closer") {
						recvIdx = n
					}
				}
				if ci, ok := in.(ssa.CallInstruction); ok && ci.Common().IsInvoke() && ci.Common().Method.Name() == "Close" && core.IsNamed(ci.Common().Value.Type(), "net", "Listener") {
					if _, isDefer := in.(*ssa.Defer); !isDefer {
						closeIdx = n
					}
				}
			}
		}
		if recvIdx > 0 && closeIdx > recvIdx {
			closerOK = true
		}
	}
	R.Check(closerOK, "C16.R3", "Serve:closer-goroutine", c.atFn(serveFn), "a goroutine of Serve closes the listener once the closer channel fires (so Accept fails and Serve returns)", "receive from Server.closer precedes listener.Close in a goroutine started by Serve (directly or through a helper)", "no goroutine started by Serve receives from Server.closer and then closes the listener")
	// Serve's return does not wait for client connections: nothing a connection goroutine signals at its end
	// (WaitGroup.Done, channel close / send) is waited for by Serve itself
	serveConn := c.P.Method("wire", "Server", "serve")
	syncObj := func(fn *ssa.Function, v ssa.Value) ssa.Value {
		// the synchronisation object behind v: a local of Serve (possibly captured) or a struct field
		for {
			switch x := v.(type) {
			case *ssa.FreeVar:
				for i, fv := range fn.FreeVars {
					if fv == x && fn.Parent() != nil {
						for _, b := range fn.Parent().Blocks {
							for _, in := range b.Instrs {
								if mc, ok := in.(*ssa.MakeClosure); ok && mc.Fn == ssa.Value(fn) && i < len(mc.Bindings) {
									return mc.Bindings[i]
								}
							}
						}
					}
				}
				return v
			case *ssa.UnOp:
				if x.Op == token.MUL {
					v = x.X
					continue
				}
				return v
			default:
				return v
			}
		}
	}
	sameObj := func(a, b ssa.Value) bool {
		if a == b {
			return true
		}
		fa, ok1 := core.FieldOfAddr(a)
		fb, ok2 := core.FieldOfAddr(b)
		return ok1 && ok2 && fa.Struct == fb.Struct && fa.Name == fb.Name
	}
	var signalled []ssa.Value
	nConn := 0
	for _, a := range goTargets {
		if len(callsIn(a, calleeIs(serveConn))) == 0 {
			continue
		}
		nConn++
		for _, fn := range allNested(a) {
			for _, ci := range core.Calls(fn) {
				if f := core.StaticCallee(ci); f != nil && core.MethodIs(f, "sync", "WaitGroup", "Done") {
					signalled = append(signalled, syncObj(fn, ci.Common().Args[0]))
				}
				if core.BuiltinName(ci.Common()) == "close" {
					signalled = append(signalled, syncObj(fn, ci.Common().Args[0]))
				}
			}
			for _, b := range fn.Blocks {
				for _, in := range b.Instrs {
					if snd, ok := in.(*ssa.Send); ok {
						signalled = append(signalled, syncObj(fn, snd.Chan))
					}
				}
			}
		}
	}
	R.Floor("C16.R3", "connection goroutines started by Serve", nConn, 1)
	waitsForConns := false
	for _, b := range serveFn.Blocks {
		for _, in := range b.Instrs {
			var waited ssa.Value
			if ci, ok := in.(ssa.CallInstruction); ok {
				if f := core.StaticCallee(ci); f != nil && core.MethodIs(f, "sync", "WaitGroup", "Wait") {
					waited = syncObj(serveFn, ci.Common().Args[0])
				}
			}
			if u, ok := in.(*ssa.UnOp); ok && u.Op == token.ARROW {
				waited = syncObj(serveFn, u.X)
			}
			if waited == nil {
				continue
			}
			for _, sg := range signalled {
				if sameObj(waited, sg) {
					waitsForConns = true
					R.Fail("C16.R3", "Serve:waits-for-connections", c.at(in), "Serve returns as soon as the listener is closed; it does not wait for client connections to end", "Serve waits ("+instrDescr(in)+") for something its connection goroutines signal only when their client disconnects: after Close, Serve stays blocked as long as any client remains connected")
				}
			}
		}
	}
	if !waitsForConns {
		R.OK("C16.R3", "Serve:does-not-wait-for-connections", c.atFn(serveFn), "Serve returns as soon as the listener is closed; it does not wait for client connections to end", sprintf("no wait in Serve on any of the %d objects signalled by its connection goroutines", len(signalled)))
	}
	var isCall *ssa.Call
	for _, ci := range core.Calls(serveFn) {
		if call, ok := ci.(*ssa.Call); ok && core.FuncIs(core.StaticCallee(call), "errors", "Is") {
			if u, ok := call.Call.Args[1].(*ssa.UnOp); ok {
				if g, ok := u.X.(*ssa.Global); ok && g.Name() == "ErrClosed" && g.Pkg.Pkg.Path() == "net" {
					isCall = call
				}
			}
		}
	}
	if isCall == nil {
		R.Fail("C16.R3", "Serve:ErrClosed-test", c.atFn(serveFn), "Serve recognises the closed listener", "no errors.Is(err, net.ErrClosed) in Serve")
	} else {
		okNil := false
		for _, e := range boolEdges(isCall, true) {
			blk := e.to()
			if r, ok := blk.Instrs[len(blk.Instrs)-1].(*ssa.Return); ok {
				if core.IsNilConst(forwardLoad(r.Results[0])) {
					okNil = true
				}
			}
		}
		R.Check(okNil, "C16.R3", "Serve:returns-nil-on-close", c.at(isCall), "Serve returns nil when the listener was closed by Close", "the net.ErrClosed edge returns nil", "the net.ErrClosed edge does not return nil")
		// it precedes any return of the accept error
		first := true
		for _, r := range returns(serveFn) {
			if r.Block() == serveFn.Recover {
				continue
			}
			if !core.IsNilConst(forwardLoad(r.Results[0])) && !core.InstrDominates(isCall, r) {
				first = false
			}
		}
		R.Check(first, "C16.R3", "Serve:ErrClosed-before-generic-error", c.at(isCall), "the closed-listener test precedes the generic error return", "errors.Is dominates every non-nil return", "a non-nil return of Serve is not dominated by the net.ErrClosed test")
	}

	// ---------- R4: nothing blocking under Server.mu
	nHeld := 0
	for _, fn := range c.P.ScopeFuncs() {
		if !c.P.InPkg(fn, "wire") {
			continue
		}
		locks := core.Locksets(fn)
		for _, b := range fn.Blocks {
			for _, in := range b.Instrs {
				if locks[in]["Server.mu"] == 0 {
					continue
				}
				nHeld++
				blocking := ""
				switch v := in.(type) {
				case *ssa.Send:
					blocking = "channel send"
				case *ssa.Select:
					blocking = "select"
				case *ssa.UnOp:
					if v.Op == token.ARROW {
						blocking = "channel receive"
					}
				case ssa.CallInstruction:
					if _, isDefer := in.(*ssa.Defer); isDefer {
						continue
					}
					cc := v.Common()
					switch {
					case wgOp(v) == "Wait":
						blocking = "WaitGroup.Wait"
					case cc.IsInvoke() && (core.IsNamed(cc.Value.Type(), "net", "Conn") || core.IsNamed(cc.Value.Type(), "net", "Listener")):
						blocking = "connection I/O"
					case callbackName(v) != "":
						blocking = "callback " + callbackName(v)
					case core.BuiltinName(cc) == "close":
					default:
						if f := core.StaticCallee(v); f != nil && c.P.InScope(f) {
							if _, isLock := lockOpName(v); !isLock && c.reachesEvents()[f] {
								blocking = "call of " + fkey(f) + " (performs I/O or callbacks)"
							}
						}
					}
				}
				if blocking != "" {
					R.Fail("C16.R4", fkey(fn)+":blocking-under-lock:"+blocking, c.at(in), "no blocking operation is performed while Server.mu is held", blocking+" while Server.mu is held: Close / admission can deadlock")
				}
			}
		}
	}
	R.Floor("C16.R4", "instructions executed under Server.mu", nHeld, 4)
	R.OK("C16.R4", "no-blocking-under-Server.mu", "-", "no blocking operation is performed while Server.mu is held", sprintf("%d instructions under the lock inspected", nHeld))

	// ---------- R3 (continued): the handler runs on the goroutine that holds the registration. A goroutine started while
	// a command is handled is not covered by wg.Add / wg.Done: if it runs user code (the statement function, the
	// parser, a cache) that code can still be executing when Close has returned.
	if hc := c.P.Method("wire", "Session", "handleCommand"); hc != nil {
		region := map[*ssa.Function]bool{}
		cg := c.P.CHA()
		var walk func(fn *ssa.Function)
		walk = func(fn *ssa.Function) {
			if fn == nil || region[fn] || !c.P.InScope(fn) {
				return
			}
			region[fn] = true
			if n := cg.Nodes[fn]; n != nil {
				for _, e := range n.Out {
					walk(e.Callee.Func)
				}
			}
			for _, anon := range fn.AnonFuncs {
				walk(anon)
			}
		}
		walk(hc)
		nGo := 0
		var fns []*ssa.Function
		for fn := range region {
			fns = append(fns, fn)
		}
		sort.Slice(fns, func(i, j int) bool { return fns[i].String() < fns[j].String() })
		for _, fn := range fns {
			for _, ci := range core.Calls(fn) {
				g, isGo := ci.(*ssa.Go)
				if !isGo {
					continue
				}
				nGo++
				// does the goroutine run code the library does not own (a callback, an interface method of a user type)?
				var target *ssa.Function
				if mc, ok := g.Call.Value.(*ssa.MakeClosure); ok {
					target, _ = mc.Fn.(*ssa.Function)
				} else {
					target = core.StaticCallee(g)
				}
				runsForeign := target == nil
				seen := map[*ssa.Function]bool{}
				var scan func(f *ssa.Function)
				scan = func(f *ssa.Function) {
					if f == nil || seen[f] || runsForeign {
						return
					}
					seen[f] = true
					for _, ci2 := range core.Calls(f) {
						if callbackName(ci2) != "" {
							runsForeign = true
							return
						}
						if cc := ci2.Common(); cc.IsInvoke() {
							if n := core.NamedOf(cc.Value.Type()); n != nil && n.Obj().Pkg() != nil && n.Obj().Pkg().Path() == pkWire {
								runsForeign = true // StatementCache / PortalCache / DataWriter ...: user-replaceable
								return
							}
						}
						if callee := core.StaticCallee(ci2); callee != nil && c.P.InScope(callee) {
							scan(callee)
						}
					}
				}
				scan(target)
				R.Check(!runsForeign, "C16.R3", fkey(fn)+":no-handler-goroutine", c.at(g), "user code started by a command runs on the goroutine that holds the command's registration (so Close waits for it)", "the goroutine started here runs library code only", "a goroutine started while a command is handled runs a handler / callback: wg.Done fires when the spawning function returns (e.g. on context cancellation) and Close returns while the statement function is still executing")
			}
		}
		R.OK("C16.R3", "handler-region:goroutines", c.atFn(hc), "user code started by a command runs on the goroutine that holds the command's registration", sprintf("%d functions reachable from handleCommand, %d go statements inspected", len(region), nGo))
	}
}

func lockOpName(ci ssa.CallInstruction) (string, bool) {
	_, op, ok := core.LockOp(ci)
	return op, ok
}

var _ = types.Identical

// goroutinesOf lists the functions started as goroutines by fn or by the functions it calls statically (to the
// given depth): closures and named functions alike.
func (c *Ctx) goroutinesOf(fn *ssa.Function, depth int) []*ssa.Function {
	var out []*ssa.Function
	seen := map[*ssa.Function]bool{}
	var walk func(f *ssa.Function, d int)
	walk = func(f *ssa.Function, d int) {
		if f == nil || seen[f] || len(f.Blocks) == 0 {
			return
		}
		seen[f] = true
		for _, ci := range core.Calls(f) {
			if g, isGo := ci.(*ssa.Go); isGo {
				if mc, ok := g.Call.Value.(*ssa.MakeClosure); ok {
					if t, ok := mc.Fn.(*ssa.Function); ok {
						out = append(out, t)
					}
				} else if t := core.StaticCallee(g); t != nil {
					out = append(out, t)
				}
				continue
			}
			if d > 0 {
				if callee := core.StaticCallee(ci); callee != nil && c.P.InPkg(callee, "wire") {
					walk(callee, d-1)
				}
			}
		}
	}
	walk(fn, depth)
	return out
}
