package rules

import (
	"go/token"
	"go/types"
	"golang.org/x/tools/go/ssa"
	"regexp/syntax"
	"strings"

	"pwv/internal/core"
)

func init() { Registry["C20"] = runC20 }

func runC20(c *Ctx) {
	R := c.R
	R.Technique = "bounds obligations (E-BND/E-LIN) with the regexp sub-match contract, growth-loop bound proof, operand provenance towards ParameterDescription"
	R.Explanation = "That the returned length equals 'highest $n / number of ?' is a value-level statement about regular-expression matching and is NOT decided by static analysis. Decided: (R1) totality - every index and slice in ParseParameters is proved in range for every query string (the sub-match index from the number of capture groups of the constant pattern, read with regexp/syntax at analysis time); " +
		"(R2) boundedness - the only loop that grows the result is bounded by a position proved <= 65535 on every path (saturated / out-of-range numbers included), the other loop ranges over the matches, and the initial allocation is sized by the number of matches; (R3) the result holds only the zero OID (unspecified type); (R4) the list a statement declares reaches ParameterDescription unchanged: WithParameters stores it, the statement cache copies it, Describe announces len() of that very list and its elements."
	R.Explanation += " (R3) also: the single-placeholder append is dominated by the emptiness test of the position group (a $n marker is never counted as '?', whatever n). (R4) also: the declared parameter list is stored only by WithParameters / NewStatement and the cache's copy."
	R.Trusted = []string{"go/types + go/ssa", "regexp: every match of FindAllStringSubmatch has 1 + NumSubexp entries", "strconv.Atoi returns a value (saturated on range errors); its error is irrelevant once the value is capped"}

	pp := c.mustFunc("C20.R1", "wire", "ParseParameters")
	if pp == nil {
		return
	}
	R.Analysed(fname(pp))
	// ParseParameters and the private helpers it may be split into
	ppFns := []*ssa.Function{pp}
	seenPP := map[*ssa.Function]bool{pp: true}
	for i := 0; i < len(ppFns) && i < 8; i++ {
		for _, ci := range core.Calls(ppFns[i]) {
			if h := core.StaticCallee(ci); h != nil && c.P.InPkg(h, "wire") && len(h.Blocks) > 0 && !seenPP[h] && !token.IsExported(h.Name()) {
				seenPP[h] = true
				ppFns = append(ppFns, h)
				R.Analysed(fname(h))
			}
		}
	}
	allCalls := func() []ssa.CallInstruction {
		var out []ssa.CallInstruction
		for _, fn := range ppFns {
			out = append(out, core.Calls(fn)...)
		}
		return out
	}
	nOb, nOK := c.panicFreedom("C20.R1", ppFns)
	R.Count("bounds_obligations", nOb)
	R.Count("bounds_discharged", nOK)
	R.Floor("C20.R1", "bounds obligations in ParseParameters", nOb, 3)
	c.c04Loops("C20.R2", ppFns, 2)
	c.c04Allocations("C20.R2", ppFns, 1)
	// no explicit panic / recursion
	for _, ci := range allCalls() {
		if seenPP[core.StaticCallee(ci)] && core.StaticCallee(ci) == ci.Parent() {
			R.Fail("C20.R2", "ParseParameters:recursion", c.at(ci), "ParseParameters does not recurse on client text", "recursive call")
		}
	}

	// ---------- R3: only zero OIDs are appended
	n := 0
	for _, ci := range allCalls() {
		if core.BuiltinName(ci.Common()) != "append" {
			continue
		}
		n++
		ok := false
		if _, isMk := ci.Common().Args[1].(*ssa.MakeSlice); isMk {
			ok = true // a freshly made slice is all zero OIDs
		}
		if sl, isSl := ci.Common().Args[1].(*ssa.Slice); isSl {
			if _, isMk := sl.X.(*ssa.MakeSlice); isMk {
				ok = true
			}
		}
		if sl, isSl := ci.Common().Args[1].(*ssa.Slice); isSl {
			if a, isA := sl.X.(*ssa.Alloc); isA {
				ok = true
				for _, r := range core.Referrers(a) {
					if ia, isIA := r.(*ssa.IndexAddr); isIA {
						for _, r2 := range core.Referrers(ia) {
							if st, isSt := r2.(*ssa.Store); isSt {
								if k, isK := core.ConstInt(st.Val); !isK || k != 0 {
									ok = false
								}
							}
						}
					}
				}
			}
		}
		R.Check(ok, "C20.R3", "ParseParameters:appends-zero-oid", c.at(ci), "every placeholder is of unspecified type (OID 0)", "append(parameters, 0)", "a value other than the constant 0 is appended")
	}
	R.Floor("C20.R3", "append sites in ParseParameters", n, 2)
	// a marker counts as un-positional ('?', one more placeholder) only when its position group is empty: the
	// single-placeholder append outside the positional fill is dominated by the capture == "" edge. (Steering on the
	// conversion error instead also diverts positions that overflow int.)
	nSingle := 0
	for _, host := range ppFns {
		// loop depth at which the host's body runs: 0 for ParseParameters, the depth of the call for a helper of its loop
		baseDepth := 0
		var hostSite ssa.CallInstruction
		if host != pp {
			for _, ci := range callsIn(pp, calleeIs(host)) {
				hostSite = ci
				for _, l := range core.Loops(pp) {
					if l.Body[ci.Block()] {
						baseDepth++
					}
				}
			}
			if hostSite == nil {
				continue
			}
		}
		var emptyEdges []edge
		for _, b := range host.Blocks {
			for _, in := range b.Instrs {
				cmp, ok := in.(*ssa.BinOp)
				if !ok || (cmp.Op != token.EQL && cmp.Op != token.NEQ) {
					continue
				}
				isEmpty := false
				var tested ssa.Value
				for _, pair := range [][2]ssa.Value{{cmp.X, cmp.Y}, {cmp.Y, cmp.X}} {
					if sv, ok := core.ConstString(pair[1]); ok && sv == "" {
						isEmpty, tested = true, pair[0]
					}
					if k, ok := core.ConstInt(pair[1]); ok && k == 0 {
						if x, ok := core.IsLenOf(pair[0]); ok {
							if bt, ok := x.Type().Underlying().(*types.Basic); ok && bt.Info()&types.IsString != 0 {
								isEmpty, tested = true, x
							}
						}
					}
				}
				if !isEmpty || tested == nil {
					continue
				}
				// the tested string is an element of the match (the capture group)
				if prm, isP := tested.(*ssa.Parameter); isP && hostSite != nil {
					for i, hp := range host.Params {
						if hp == prm && i < len(hostSite.Common().Args) {
							tested = hostSite.Common().Args[i]
						}
					}
				}
				if _, p := pathOf(tested); !strings.Contains(p, "[]") {
					continue
				}
				idx := 0
				if cmp.Op == token.NEQ {
					idx = 1
				}
				for _, u := range core.Referrers(cmp) {
					if iff, ok := u.(*ssa.If); ok {
						emptyEdges = append(emptyEdges, edge{iff.Block(), idx})
					}
				}
			}
		}
		loopsPP := core.Loops(host)
		for _, ci := range core.Calls(host) {
			if core.BuiltinName(ci.Common()) != "append" {
				continue
			}
			sl, isSl := ci.Common().Args[1].(*ssa.Slice)
			if !isSl {
				continue
			}
			if _, isA := sl.X.(*ssa.Alloc); !isA {
				continue
			}
			depth := baseDepth
			for _, l := range loopsPP {
				if l.Body[ci.Block()] {
					depth++
				}
			}
			if depth >= 2 {
				continue // the positional fill loop
			}
			nSingle++
			{
				// the list never outgrows the protocol's 16-bit parameter count: a '?' is added only below the limit
				l := core.NewLin(c.P, host, c.modSets(), c.summaries("C20.R2"))
				R.Check(l.Prove(ci, l.LenOf(ci.Common().Args[0]), core.Zero, 65534), "C20.R2", "ParseParameters:unpositional-below-limit", c.at(ci), "the work and the result are bounded by the protocol's 65535-parameter limit for '?' markers too", "E-LIN: len(parameters) <= 65534 at the append", "the '?' branch appends without a limit: a query text with more than 65535 '?' markers returns a longer list, and ParameterDescription then announces int16(len) - a count that does not match the OIDs that follow")
			}
			R.Check(anyDominates(emptyEdges, ci.Block()), "C20.R3", "ParseParameters:unpositional-only-when-capture-empty", c.at(ci), "a marker adds one placeholder only when it is a '?' (empty position group); every $n marker, however large n, extends the list to min(n, 65535)", "the single append is dominated by the capture == \"\" edge", "the one-placeholder append is not guarded by an emptiness test of the position group: a $n marker can be counted as a '?' (e.g. when its number overflows the integer conversion)")
		}
	}
	R.Floor("C20.R3", "un-positional append sites", nSingle, 1)
	// the cap is the protocol's limit, not a smaller number: every large integer constant that ParseParameters (or a
	// private function it calls) compares, clamps or saturates with is 65535 (65534 / 65536 for the strict forms), so
	// that an index or marker count up to 65535 is reported as it is
	{
		nCap := 0
		seenFn := map[*ssa.Function]bool{}
		var scan func(fn *ssa.Function, depth int)
		scan = func(fn *ssa.Function, depth int) {
			if fn == nil || seenFn[fn] || fn.Blocks == nil || !c.P.InPkg(fn, "wire") {
				return
			}
			seenFn[fn] = true
			check := func(v ssa.Value, in ssa.Instruction) {
				k, ok := core.ConstInt(v)
				if !ok || k < 256 {
					return
				}
				if bt, isB := v.Type().Underlying().(*types.Basic); !isB || bt.Info()&types.IsInteger == 0 {
					return
				}
				nCap++
				R.Check(k >= 65534 && k <= 65536, "C20.R2", sprintf("ParseParameters:cap-is-protocol-limit:%d", k), c.at(in), "the parameter count is capped at the protocol's limit of 65535, not below it: an index or marker count up to 65535 is reported unchanged", sprintf("constant %d", k), sprintf("the list is capped with the constant %d: the protocol's parameter count is an unsigned 16-bit number (65535); a $n index or '?' count between the two is under-reported and Describe announces too few parameters", k))
			}
			for _, b := range fn.Blocks {
				for _, in := range b.Instrs {
					switch x := in.(type) {
					case *ssa.BinOp:
						switch x.Op {
						case token.LSS, token.LEQ, token.GTR, token.GEQ, token.EQL, token.NEQ:
							check(x.X, x)
							check(x.Y, x)
						}
					case *ssa.Phi:
						for _, e := range x.Edges {
							check(e, x)
						}
					case *ssa.Call:
						if n := core.BuiltinName(&x.Call); n == "min" || n == "max" {
							for _, a := range x.Call.Args {
								check(a, x)
							}
						}
						if depth > 0 {
							scan(core.StaticCallee(x), depth-1)
						}
					}
				}
			}
		}
		scan(pp, 1)
		R.Floor("C20.R2", "limit constants in ParseParameters", nCap, 1)
	}
	// the function returns the grown slice
	for _, r := range returns(pp) {
		var ls []ssa.Value
		leaves(r.Results[0], map[ssa.Value]bool{}, &ls)
		ok := true
		inProgress := map[ssa.Value]bool{}
		var builtList func(l ssa.Value, fn *ssa.Function, depth int) bool
		builtList = func(l ssa.Value, fn *ssa.Function, depth int) bool {
			if inProgress[l] {
				return true // a cycle through the loop / the helper: decided by the other sources
			}
			inProgress[l] = true
			defer delete(inProgress, l)
			switch x := l.(type) {
			case *ssa.MakeSlice:
				return true
			case *ssa.Parameter:
				// a helper that grows the list it was given: judged by what its only caller passes
				if a, caller := c.callerArg(x); a != nil && depth > 0 {
					var srcs []ssa.Value
					leaves(a, map[ssa.Value]bool{}, &srcs)
					for _, sv := range srcs {
						if !builtList(sv, caller, depth-1) {
							return false
						}
					}
					return true
				}
				return false
			case *ssa.Call:
				if core.BuiltinName(&x.Call) == "append" {
					return true
				}
				h := core.StaticCallee(x)
				if h == nil || !c.P.InPkg(h, "wire") || len(h.Blocks) == 0 || depth == 0 {
					return false
				}
				for _, r := range returns(h) {
					var srcs []ssa.Value
					leaves(r.Results[0], map[ssa.Value]bool{}, &srcs)
					for _, sv := range srcs {
						if !builtList(sv, h, depth-1) {
							return false
						}
					}
				}
				return true
			}
			return false
		}
		for _, l := range ls {
			if !builtList(l, pp, 4) {
				ok = false
			}
		}
		R.Check(ok, "C20.R3", "ParseParameters:returns-built-list", c.at(r), "the result is the list built here (initial allocation grown only by append)", "every source of the result is the make or an append", "the result has another source than the list built by append")
	}

	// every marker of the query is considered: the regular-expression scan is not capped
	nScan := 0
	for _, ci := range core.Calls(pp) {
		f := core.StaticCallee(ci)
		if f == nil || f.Pkg == nil || f.Pkg.Pkg.Path() != "regexp" || !strings.HasPrefix(f.Name(), "FindAll") {
			continue
		}
		nScan++
		a := ci.Common().Args
		k, isK := core.ConstInt(a[len(a)-1])
		R.Check(isK && k < 0, "C20.R3", "ParseParameters:scan-all-markers", c.at(ci), "every marker of the query text is considered (the highest index may be the last marker)", "FindAll*(.., n) with a negative constant n", "the marker scan is limited to n matches: a highest $n that first appears after the limit is missed and the reported length is too short")
	}
	R.Floor("C20.R3", "marker scans in ParseParameters", nScan, 1)
	// the position group captures the whole number: a bounded repetition (\d{1,5}) cuts "$100000" into "$10000" + "0"
	// and reports 10000 where the index is 100000 (capped to 65535)
	for _, ci := range core.Calls(pp) {
		call, isCall := ci.(*ssa.Call)
		if !isCall {
			continue
		}
		l := core.NewLin(c.P, pp, c.modSets(), nil)
		re := l.ScanPattern(call)
		if re == nil {
			continue
		}
		var walkRe func(r *syntax.Regexp, inCap bool)
		walkRe = func(r *syntax.Regexp, inCap bool) {
			if r.Op == syntax.OpCapture {
				inCap = true
			}
			if inCap && r.Op == syntax.OpRepeat && len(r.Sub) == 1 && r.Sub[0].Op == syntax.OpCharClass && len(r.Sub[0].Rune) == 2 && r.Sub[0].Rune[0] == '0' && r.Sub[0].Rune[1] == '9' {
				R.Check(r.Max == -1, "C20.R3", "QueryParameters:position-group-unbounded", c.at(ci), "a positional marker's number is captured whole, however many digits it has", "the digit repetition of the capture group has no upper bound", sprintf("the capture group takes at most %d digits: a longer index is cut short and the rest of its digits is skipped, so the reported length is not the highest $n (capped to 65535)", r.Max))
			}
			if inCap && (r.Op == syntax.OpPlus || r.Op == syntax.OpStar) && len(r.Sub) == 1 && r.Sub[0].Op == syntax.OpCharClass {
				R.OK("C20.R3", "QueryParameters:position-group-unbounded", c.at(ci), "a positional marker's number is captured whole, however many digits it has", "the digit repetition of the capture group has no upper bound")
			}
			for _, sub := range r.Sub {
				walkRe(sub, inCap)
			}
		}
		walkRe(re, false)
	}

	// ---------- R4: towards ParameterDescription
	// the declared list is written only where a statement is built: the WithParameters option and the cache's copy
	nPW := 0
	for _, fn := range c.P.ScopeFuncs() {
		for _, b := range fn.Blocks {
			for _, in := range b.Instrs {
				st, ok := in.(*ssa.Store)
				if !ok {
					continue
				}
				fr, ok := core.FieldOfAddr(st.Addr)
				if !ok || fr.Name != "parameters" || !(fr.Is(pkWire, "PreparedStatement", "parameters") || fr.Is(pkWire, "Statement", "parameters")) {
					continue
				}
				nPW++
				host := fn
				for host.Parent() != nil {
					host = host.Parent()
				}
				// accepted: the object is being constructed here (fresh allocation), or the store is an option applied
				// while the statement is built (a func(*PreparedStatement) closure)
				okHost := false
				if base, _ := pathOf(st.Addr); base != nil {
					if a, isAlloc := base.(*ssa.Alloc); isAlloc && a.Heap {
						okHost = true
					}
				}
				if fa, isFA := st.Addr.(*ssa.FieldAddr); isFA {
					if a, isAlloc := fa.X.(*ssa.Alloc); isAlloc {
						_ = a
						okHost = true
					}
				}
				if fn.Signature.Params().Len() == 1 && fn.Signature.Results().Len() == 0 && (fn.Parent() != nil || !token.IsExported(fn.Name())) {
					if n := core.NamedOf(fn.Signature.Params().At(0).Type()); n != nil && n.Obj().Name() == "PreparedStatement" {
						okHost = true
					}
				}
				R.Check(okHost, "C20.R4", fkey(fn)+":writes-declared-parameters", c.at(st), "the declared parameter list of a statement is set only when the statement is built (WithParameters) or copied into the cache", "store inside "+fkey(host), "the parameter list of a statement is replaced in "+fname(fn)+": Describe no longer announces the length ParseParameters reported")
			}
		}
	}
	R.Floor("C20.R4", "stores to the declared parameter list", nPW, 2)
	if wp := c.mustFunc("C20.R4", "wire", "WithParameters"); wp != nil {
		ok := c.optionStoresArg(wp)
		R.Check(ok, "C20.R4", "WithParameters:stores-list", c.atFn(wp), "the declared parameter list is stored in the prepared statement unchanged", "stmt.parameters = the option's argument", "WithParameters does not store its argument unchanged")
	}
	if set := c.P.Method("wire", "DefaultStatementCache", "Set"); set != nil {
		for _, b := range set.Blocks {
			for _, in := range b.Instrs {
				if st, ok := in.(*ssa.Store); ok {
					if fr, ok := core.FieldOfAddr(st.Addr); ok && fr.Is(pkWire, "Statement", "parameters") {
						root, p := pathOf(st.Val)
						R.Check(root == ssa.Value(set.Params[3]) && p == ".parameters", "C20.R4", "Set:copies-parameters", c.at(st), "the cached statement keeps the declared list", "Statement.parameters = stmt.parameters", "the cached statement's parameter list is not the prepared statement's")
					}
				}
			}
		}
	}
	for _, s := range c.paramDescriptionSites() {
		R.Check(s.countIsLen, "C20.R4", "writeParameterDescription:announces-length", c.at(s.count), "Describe announces exactly the length ParseParameters reported (len of the declared list itself)", "count is len() of the list handed in", "the announced count is not len() of the declared list itself")
		for i, w := range s.at {
			R.Check(strings.HasSuffix(s.countPath[i], ".parameters"), "C20.R4", "handleDescribe:passes-declared-list", c.at(w), "Describe hands the statement's own parameter list to ParameterDescription", "writeParameterDescription(statement.parameters)", "the list passed is not statement.parameters")
		}
	}
}

// optionStoresArg: the option value WithParameters returns stores WithParameters' own argument, unchanged, into
// PreparedStatement.parameters - as a closure over the argument, or as a method value of a type whose receiver is the
// argument (parameterTypes(parameters).applyTo).
func (c *Ctx) optionStoresArg(wp *ssa.Function) bool {
	if len(wp.Params) == 0 {
		return false
	}
	arg := ssa.Value(wp.Params[0])
	strip := func(v ssa.Value) ssa.Value {
		for {
			switch x := v.(type) {
			case *ssa.ChangeType:
				v = x.X
				continue
			case *ssa.Convert:
				if types.Identical(x.X.Type().Underlying(), x.Type().Underlying()) {
					v = x.X
					continue
				}
			}
			return v
		}
	}
	storesInto := func(fn *ssa.Function, isArg func(v ssa.Value) bool) bool {
		found := false
		for _, b := range fn.Blocks {
			for _, in := range b.Instrs {
				if st, isSt := in.(*ssa.Store); isSt {
					if fr, isF := core.FieldOfAddr(st.Addr); isF && fr.Is(pkWire, "PreparedStatement", "parameters") {
						if !isArg(strip(st.Val)) {
							return false
						}
						found = true
					}
				}
			}
		}
		return found
	}
	okAll, n := true, 0
	for _, r := range returns(wp) {
		if len(r.Results) != 1 {
			return false
		}
		mc, isMC := strip(forwardLoad(r.Results[0])).(*ssa.MakeClosure)
		if !isMC {
			return false
		}
		fn, _ := mc.Fn.(*ssa.Function)
		if fn == nil {
			return false
		}
		n++
		binding := func(i int) ssa.Value {
			if i >= len(mc.Bindings) {
				return nil
			}
			b := mc.Bindings[i]
			if a, isAlloc := b.(*ssa.Alloc); isAlloc {
				var val ssa.Value
				cnt := 0
				for _, ref := range core.Referrers(a) {
					if st, isSt := ref.(*ssa.Store); isSt && st.Addr == ssa.Value(a) {
						val = st.Val
						cnt++
					}
				}
				if cnt == 1 {
					return val
				}
				return nil
			}
			return b
		}
		if fn.Synthetic != "" { // a bound method: the receiver is the binding, the method stores its receiver
			recv := binding(0)
			if recv == nil || strip(recv) != arg {
				okAll = false
				continue
			}
			var m *ssa.Function
			for _, ci := range core.Calls(fn) {
				if h := core.StaticCallee(ci); h != nil && c.P.InPkg(h, "wire") {
					m = h
				}
			}
			if m == nil || len(m.Params) == 0 || !storesInto(m, func(v ssa.Value) bool { return v == ssa.Value(m.Params[0]) }) {
				okAll = false
			}
			continue
		}
		isArgFV := func(v ssa.Value) bool {
			if u, isU := v.(*ssa.UnOp); isU {
				v = u.X
			}
			fv, isFV := v.(*ssa.FreeVar)
			if !isFV {
				return false
			}
			for i, f := range fn.FreeVars {
				if f == fv {
					if b := binding(i); b != nil && strip(b) == arg {
						return true
					}
				}
			}
			return false
		}
		if !storesInto(fn, isArgFV) {
			okAll = false
		}
	}
	return okAll && n > 0
}
