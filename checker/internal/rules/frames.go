package rules

import (
	"fmt"
	"go/constant"
	"go/token"
	"go/types"
	"strings"

	"golang.org/x/tools/go/ssa"

	"pwv/internal/core"
)

// Frame grammar client of the trace engine (C02.R2 / C02.R3): follows every *buffer.Writer call on
// every path and checks that the field sequence between Start(T) and End is in T's grammar, that
// counted item lists are emitted by exactly one loop over the collection whose length was announced,
// and that no field is written outside a frame.

type tok uint8

const (
	tB tok = iota
	tI16
	tI32
	tSTR
	tNUL
	tBYTES
	tCNT // an Int16 that announces the number of item groups that follow
)

var tokName = map[tok]string{tB: "Byte", tI16: "Int16", tI32: "Int32", tSTR: "String", tNUL: "NUL", tBYTES: "Bytes", tCNT: "Int16(count)"}

type gram struct {
	name  string
	pre   []tok
	group []tok // nil: no repeated part
}

// backendGrammar is the frozen oracle: PostgreSQL v3 backend message formats, restricted to the
// message types this library emits (protocol documentation, "Message Formats").
var backendGrammar = map[byte]gram{
	'R': {"Authentication", []tok{tI32}, nil},
	'S': {"ParameterStatus", []tok{tSTR, tNUL, tSTR, tNUL}, nil},
	'Z': {"ReadyForQuery", []tok{tB}, nil},
	'C': {"CommandComplete", []tok{tSTR, tNUL}, nil},
	'I': {"EmptyQueryResponse", nil, nil},
	'1': {"ParseComplete", nil, nil},
	'2': {"BindComplete", nil, nil},
	'3': {"CloseComplete", nil, nil},
	'n': {"NoData", nil, nil},
	't': {"ParameterDescription", []tok{tCNT}, []tok{tI32}},
	'G': {"CopyInResponse", []tok{tB, tCNT}, []tok{tI16}},
	'T': {"RowDescription", []tok{tCNT}, []tok{tSTR, tNUL, tI32, tI16, tI32, tI16, tI32, tI16}},
	'D': {"DataRow", []tok{tCNT}, []tok{tI32, tBYTES}},
	'E': {"ErrorResponse", nil, nil}, // special-cased
}

// ErrorResponse field codes of the protocol.
const errFieldCodes = "SVCMDHPpqWstcdnFLR"

type fstate struct {
	typ   byte   // 0 = idle
	q     int    // position in pre+group; for 'E': 0 expecting code/terminator, 1 inside a field, 2 terminated
	codes uint32 // 'E': field codes emitted
	grp   int    // groups completed since the loop header was crossed (saturates at 2)
	lh    int    // 0: no loop seen, >0: block index+1 of the counting loop's header, -1: loop ran to exhaustion
	early bool   // the counting loop was left through a body edge
	cnt   int    // registry id of the collection whose length was announced (0 = none)
	cfn   int    // registry id of the function that announced the count
}

func (s fstate) String() string {
	e := 0
	if s.early {
		e = 1
	}
	return fmt.Sprintf("%d,%d,%d,%d,%d,%d,%d,%d", s.typ, s.q, s.codes, s.grp, s.lh, e, s.cnt, s.cfn)
}

func parseF(str string) fstate {
	var s fstate
	var e int
	var t int
	fmt.Sscanf(str, "%d,%d,%d,%d,%d,%d,%d,%d", &t, &s.q, &s.codes, &s.grp, &s.lh, &e, &s.cnt, &s.cfn)
	s.typ = byte(t)
	s.early = e == 1
	return s
}

func (s fstate) describe() string {
	if s.typ == 0 {
		return "idle"
	}
	return fmt.Sprintf("frame %q field#%d", rune(s.typ), s.q)
}

type frameClient struct {
	c       *Ctx
	rule    string
	vals    []ssa.Value
	fns     []*ssa.Function
	loops   map[*ssa.Function]map[*ssa.BasicBlock]*core.Loop
	seen    map[string]bool // report de-duplication
	Frames  map[string]int  // type -> number of Start sites explored
	Ends    int
	root    *ssa.Function
	frag    bool // the current root turned out to be a fragment helper
	OnMsg   func(x *core.TSCtx, site ssa.CallInstruction, typ byte)
	okSites map[string]string
}

func newFrameClient(c *Ctx, rule string) *frameClient {
	return &frameClient{c: c, rule: rule, loops: map[*ssa.Function]map[*ssa.BasicBlock]*core.Loop{}, seen: map[string]bool{}, Frames: map[string]int{}, okSites: map[string]string{}}
}

func (f *frameClient) valID(v ssa.Value) int {
	for i, x := range f.vals {
		if x == v {
			return i + 1
		}
	}
	f.vals = append(f.vals, v)
	return len(f.vals)
}

func (f *frameClient) fnID(fn *ssa.Function) int {
	for i, x := range f.fns {
		if x == fn {
			return i + 1
		}
	}
	f.fns = append(f.fns, fn)
	return len(f.fns)
}

func (f *frameClient) fail(x *core.TSCtx, in ssa.Instruction, construct, desc, detail string) {
	key := fkey(in.Parent()) + ":" + construct
	if f.seen[key+"|"+detail] {
		return
	}
	f.seen[key+"|"+detail] = true
	f.c.R.Fail(f.rule, key, f.c.at(in), desc, detail, x.Trail(8)...)
}

func (f *frameClient) loopsOf(fn *ssa.Function) map[*ssa.BasicBlock]*core.Loop {
	l, ok := f.loops[fn]
	if !ok {
		l = core.Loops(fn)
		f.loops[fn] = l
	}
	return l
}

// sameCollection reports whether a and b denote the same slice/map value.
func sameCollection(a, b ssa.Value) bool {
	if a == b {
		return true
	}
	ua, ok1 := a.(*ssa.UnOp)
	ub, ok2 := b.(*ssa.UnOp)
	if ok1 && ok2 && ua.Op == token.MUL && ub.Op == token.MUL {
		fa, ok1 := core.FieldOfAddr(ua.X)
		fb, ok2 := core.FieldOfAddr(ub.X)
		if ok1 && ok2 && fa.Name == fb.Name && fa.Base == fb.Base && fa.Struct == fb.Struct {
			// two loads of the same field with no store to that field in the function
			for _, blk := range ua.Parent().Blocks {
				for _, in := range blk.Instrs {
					if st, ok := in.(*ssa.Store); ok {
						if fs, ok := core.FieldOfAddr(st.Addr); ok && fs.Name == fa.Name && fs.Struct == fa.Struct {
							return false
						}
					}
				}
			}
			return true
		}
	}
	return false
}

// rotatedGuard reports whether block p enters header h only under "0 < bound" (the pre-test of a rotated loop).
func rotatedGuard(p, h *ssa.BasicBlock, bound ssa.Value) bool {
	iff, ok := p.Instrs[len(p.Instrs)-1].(*ssa.If)
	if !ok || len(p.Succs) != 2 || p.Succs[0] != h {
		return false
	}
	cmp, ok := iff.Cond.(*ssa.BinOp)
	if !ok || cmp.Op != token.LSS {
		return false
	}
	if k, isK := core.ConstInt(cmp.X); !isK || k != 0 {
		return false
	}
	if cmp.Y == bound {
		return true
	}
	a, ok1 := core.IsLenOf(cmp.Y)
	b, ok2 := core.IsLenOf(bound)
	return ok1 && ok2 && sameCollection(a, b)
}

// loopBound returns the collection X when the loop at header is `for i over [0, len(X))` stepping by one.
func loopBound(h *ssa.BasicBlock) (ssa.Value, bool) {
	iff, ok := h.Instrs[len(h.Instrs)-1].(*ssa.If)
	if !ok {
		return nil, false
	}
	cmp, ok := iff.Cond.(*ssa.BinOp)
	if !ok || cmp.Op != token.LSS {
		return nil, false
	}
	x, ok := core.IsLenOf(cmp.Y)
	if !ok {
		// a loop over an integer N (for range N / for i := 0; i < N; i++): N itself is the counted domain
		if bt, isB := cmp.Y.Type().Underlying().(*types.Basic); isB && bt.Info()&types.IsInteger != 0 {
			x = cmp.Y
		} else {
			return nil, false
		}
	}
	// induction: either i' = phi + 1 with phi [-1, i'] (range lowering) or phi [0, phi+1] compared directly
	switch iv := cmp.X.(type) {
	case *ssa.BinOp: // t14 = t13 + 1
		if iv.Op != token.ADD {
			return nil, false
		}
		ph, ok := iv.X.(*ssa.Phi)
		one, ok2 := core.ConstInt(iv.Y)
		if !ok || !ok2 || one != 1 || ph.Block() != h {
			return nil, false
		}
		okInit, okStep := false, false
		for i, e := range ph.Edges {
			if k, ok := core.ConstInt(e); ok && k == -1 {
				okInit = true
			} else if k, ok := core.ConstInt(e); ok && k == 0 {
				// rotated loop (for range N): the body runs before the test, so the entry must be guarded by 0 < N
				if i < len(h.Preds) && rotatedGuard(h.Preds[i], h, cmp.Y) {
					okInit = true
				}
			} else if e == ssa.Value(iv) {
				okStep = true
			}
		}
		return x, okInit && okStep
	case *ssa.Phi:
		if iv.Block() != h {
			return nil, false
		}
		okInit, okStep := false, false
		for _, e := range iv.Edges {
			if k, ok := core.ConstInt(e); ok && k == 0 {
				okInit = true
			} else if b, ok := e.(*ssa.BinOp); ok && b.Op == token.ADD && b.X == ssa.Value(iv) {
				if one, ok := core.ConstInt(b.Y); ok && one == 1 {
					okStep = true
				}
			}
		}
		return x, okInit && okStep
	}
	return nil, false
}

func (f *frameClient) Edge(x *core.TSCtx, from, to *ssa.BasicBlock, s string) string {
	st := parseF(s)
	if st.typ == 0 || st.typ == 'E' {
		return s
	}
	g := backendGrammar[st.typ]
	if g.group == nil || st.q < len(g.pre) || st.cfn != f.fnID(x.Fn) {
		return s
	}
	loops := f.loopsOf(x.Fn)
	last := from.Instrs[len(from.Instrs)-1]
	if l, isHeader := loops[to]; isHeader {
		if l.Body[from] { // back edge
			if st.lh == to.Index+1 {
				if st.grp != 1 || st.q != len(g.pre) {
					f.fail(x, last, "count:"+g.name+":items-per-iteration", "each iteration of the counting loop emits exactly one "+g.name+" item", sprintf("an iteration ends having emitted %d complete item(s) (field position %d): the item count differs from the announced count", st.grp, st.q-len(g.pre)))
				}
				st.grp = 0
			}
		} else if st.lh == 0 { // entering the counting loop
			if st.grp != 0 {
				f.fail(x, last, "count:"+g.name+":item-before-loop", "items are emitted only by the counting loop", "an item was emitted before the loop over the announced collection")
			}
			xv, ok := loopBound(to)
			if !ok || st.cnt == 0 || !(sameCollection(xv, f.vals[st.cnt-1]) || lenEqGuard(xv, f.vals[st.cnt-1], to)) {
				f.fail(x, to.Instrs[len(to.Instrs)-1], "count:"+g.name+":loop-bound", "the loop that emits the items ranges over the collection whose length was announced", "the loop bound is not len() of the announced collection, or the loop does not step by one from zero")
			}
			st.lh = to.Index + 1
			st.grp = 0
		}
		return st.String()
	}
	// the pre-test of a rotated counting loop fails: zero iterations (the domain is empty)
	if st.lh == 0 && st.grp == 0 && st.cnt != 0 && len(from.Succs) == 2 && to == from.Succs[1] {
		if _, isHeader := loops[from.Succs[0]]; isHeader {
			if xv, ok := loopBound(from.Succs[0]); ok && sameCollection(xv, f.vals[st.cnt-1]) {
				if iff, isIf := last.(*ssa.If); isIf {
					if cmp, isCmp := iff.Cond.(*ssa.BinOp); isCmp && cmp.Op == token.LSS {
						if k, isK := core.ConstInt(cmp.X); isK && k == 0 {
							st.lh = -1
							return st.String()
						}
					}
				}
			}
		}
	}
	if st.lh > 0 {
		var hdr *ssa.BasicBlock
		for h := range loops {
			if h.Index+1 == st.lh {
				hdr = h
			}
		}
		if hdr != nil && loops[hdr].Body[from] && !loops[hdr].Body[to] {
			if from == hdr {
				st.lh = -1 // ran to exhaustion
			} else {
				st.early = true
				st.lh = -1
			}
			return st.String()
		}
	}
	return s
}

func (f *frameClient) Return(x *core.TSCtx, ret *ssa.Return, s string, err core.ErrK) string {
	st := parseF(s)
	if st.typ == 0 || len(x.Stack) > 0 || f.frag {
		return s
	}
	if err == core.KNonNil {
		return s // abandonment: the next Start discards the partial frame
	}
	f.fail(x, ret, "return-with-open-frame:"+string(rune(st.typ)), "a message-level function does not return successfully with a frame still open", "returns with an open '"+string(rune(st.typ))+"' frame and an error that may be nil: the message is never sent")
	return s
}

func (f *frameClient) token(x *core.TSCtx, site ssa.CallInstruction, st fstate, t tok, arg ssa.Value) fstate {
	if st.typ == 0 {
		if f.root != nil && (len(f.c.P.CallSitesOf(f.root)) > 0 || !f.c.reachesStart()[f.root]) {
			f.frag = true // fragment helper analysed as a root: only meaningful inside its callers' frames
			return st
		}
		f.fail(x, site, "field-outside-frame:"+tokName[t], "fields are added only inside a Start..End frame", "a "+tokName[t]+" is added while no frame is open")
		return st
	}
	if st.typ == 'E' {
		return f.tokenE(x, site, st, t, arg)
	}
	g := backendGrammar[st.typ]
	seq := append(append([]tok{}, g.pre...), g.group...)
	bad := func(want string) fstate {
		f.fail(x, site, "grammar:"+g.name+":"+tokName[t]+"@"+sprintf("%d", st.q), g.name+" body follows its protocol grammar", "got "+tokName[t]+" where the grammar of '"+string(rune(st.typ))+"' expects "+want)
		return st
	}
	if st.q >= len(seq) {
		return bad("end of message")
	}
	want := seq[st.q]
	// a string may be written in several pieces
	if t == tSTR && want != tSTR && st.q > 0 && seq[st.q-1] == tSTR {
		return st
	}
	switch {
	case want == tCNT:
		if t != tI16 {
			return bad(tokName[want])
		}
		cv, ok := arg.(*ssa.Convert)
		var coll ssa.Value
		if ok {
			coll, ok = core.IsLenOf(cv.X)
			if !ok {
				// the count of an integer domain N handed in by the caller: the items must come from a loop over N itself
				if bt, isB := cv.X.Type().Underlying().(*types.Basic); isB && bt.Info()&types.IsInteger != 0 {
					if _, isConst := cv.X.(*ssa.Const); !isConst {
						coll, ok = cv.X, true
					}
				}
			}
		}
		if !ok {
			f.fail(x, site, "count:"+g.name+":not-a-length", "the announced item count is the length of the collection that is emitted", "the count argument is not int16(len(collection))")
		} else {
			st.cnt = f.valID(coll)
		}
		st.cfn = f.fnID(site.Parent())
		st.lh, st.grp, st.early = 0, 0, false
	case want != t:
		return bad(tokName[want])
	}
	if st.typ == 'Z' {
		cv, ok := x.Const(arg)
		if !ok || cv.Kind() != constant.Int || !strings.ContainsRune("ITE", rune(constInt(cv))) {
			f.fail(x, site, "grammar:ReadyForQuery:status", "ReadyForQuery carries a transaction status of I, T or E", "the status byte is not one of the constants 'I','T','E' at this call site")
		}
	}
	st.q++
	// DataRow: a NULL column is the length -1 alone (no value bytes follow)
	if st.typ == 'D' && t == tI32 && st.q == len(g.pre)+1 {
		if cv, ok := x.Const(arg); ok && cv.Kind() == constant.Int && constInt(cv) == -1 {
			st.q = len(seq)
		}
	}
	if g.group != nil && st.q == len(seq) {
		st.q = len(g.pre)
		if st.grp < 2 {
			st.grp++
		}
		if st.lh <= 0 && st.cfn == f.fnID(x.Fn) {
			f.fail(x, site, "count:"+g.name+":item-outside-loop", "items are emitted only by the counting loop", "an item is completed outside the loop over the announced collection")
		}
	}
	return st
}

func constInt(v constant.Value) int64 {
	i, _ := constant.Int64Val(v)
	return i
}

func (f *frameClient) tokenE(x *core.TSCtx, site ssa.CallInstruction, st fstate, t tok, arg ssa.Value) fstate {
	bad := func(want string) fstate {
		f.fail(x, site, "grammar:ErrorResponse:"+tokName[t]+"@"+sprintf("%d", st.q), "ErrorResponse body is a list of (code byte, text, NUL) closed by one NUL", "got "+tokName[t]+" where "+want+" is expected")
		return st
	}
	switch st.q {
	case 0:
		switch t {
		case tB:
			cv, ok := x.Const(arg)
			if !ok {
				return bad("a constant field code")
			}
			code := rune(constInt(cv))
			idx := strings.IndexRune(errFieldCodes, code)
			if idx < 0 {
				return bad("a protocol field code (got " + string(code) + ")")
			}
			if st.codes&(1<<uint(idx)) != 0 {
				f.fail(x, site, "grammar:ErrorResponse:duplicate-field:"+string(code), "each ErrorResponse field appears at most once", "field '"+string(code)+"' is emitted twice on this path")
			}
			st.codes |= 1 << uint(idx)
			st.q = 1
		case tNUL:
			st.q = 2
		default:
			return bad("a field code or the terminator")
		}
	case 1:
		switch t {
		case tSTR:
		case tNUL:
			st.q = 0
		default:
			return bad("the field's text or its NUL terminator (all fields are text)")
		}
	default:
		return bad("End (nothing may follow the terminator)")
	}
	return st
}

// Call implements the engine client.
func (f *frameClient) Call(x *core.TSCtx, site ssa.CallInstruction, s string) ([]core.TSOut, bool) {
	m := writerMethod(site)
	if m == "" {
		return nil, false
	}
	st := parseF(s)
	args := site.Common().Args
	one := func(n fstate) ([]core.TSOut, bool) { return []core.TSOut{{S: n.String(), Err: core.KNoErr}}, true }
	switch m {
	case "Start":
		cv, ok := x.Const(args[1])
		if !ok {
			f.fail(x, site, "start:non-constant-type", "every frame is started with a constant message type", "the message type is not a constant at this call site")
			return one(fstate{})
		}
		typ := byte(constInt(cv))
		if _, ok := backendGrammar[typ]; !ok {
			f.fail(x, site, "start:unknown-type:"+string(rune(typ)), "the message type is a backend message of the protocol with a known grammar", "type byte '"+string(rune(typ))+"' has no grammar in the oracle table")
		}
		f.Frames[string(rune(typ))]++
		return one(fstate{typ: typ})
	case "AddByte":
		return one(f.token(x, site, st, tB, args[1]))
	case "AddInt16":
		return one(f.token(x, site, st, tI16, args[1]))
	case "AddInt32":
		return one(f.token(x, site, st, tI32, args[1]))
	case "AddString":
		return one(f.token(x, site, st, tSTR, args[1]))
	case "AddBytes":
		if x.Empty(args[1]) && st.typ != 0 && st.typ != 'E' {
			// appending a slice this path knows to be nil / empty adds nothing: it is not a field where the grammar
			// expects none (after the -1 of a NULL column)
			g := backendGrammar[st.typ]
			seq := append(append([]tok{}, g.pre...), g.group...)
			if st.q >= len(seq) || seq[st.q] != tBYTES {
				return one(st)
			}
		}
		return one(f.token(x, site, st, tBYTES, args[1]))
	case "AddNullTerminate":
		return one(f.token(x, site, st, tNUL, nil))
	case "Reset":
		return one(fstate{})
	case "End":
		f.Ends++
		if st.typ == 0 {
			if f.root != nil && (len(f.c.P.CallSitesOf(f.root)) > 0 || !f.c.reachesStart()[f.root]) {
				f.frag = true
			} else {
				f.fail(x, site, "end-without-start", "End closes a frame opened by Start", "End is reached with no open frame")
			}
		} else if st.typ == 'E' {
			need := uint32(0)
			for _, c := range "SCM" {
				need |= 1 << uint(strings.IndexRune(errFieldCodes, c))
			}
			if st.q != 2 {
				f.fail(x, site, "grammar:ErrorResponse:unterminated", "ErrorResponse is closed by a single zero byte", "End is reached without the terminating NUL (field position "+sprintf("%d", st.q)+")")
			}
			if st.codes&need != need {
				f.fail(x, site, "grammar:ErrorResponse:mandatory-fields", "ErrorResponse always carries severity (S), SQLSTATE (C) and message (M)", "a mandatory field is missing on this path")
			}
		} else {
			g := backendGrammar[st.typ]
			if st.q != len(g.pre) {
				f.fail(x, site, "grammar:"+g.name+":incomplete", g.name+" body is complete at End", sprintf("End is reached at field position %d of the grammar (incomplete item or missing fields)", st.q))
			}
			if g.group != nil {
				if st.early {
					f.fail(x, site, "count:"+g.name+":early-exit", "the counting loop runs to exhaustion before End", "End is reachable after leaving the loop early: fewer items than announced")
				} else if st.lh != -1 {
					f.fail(x, site, "count:"+g.name+":no-loop", "the announced number of items is emitted by a loop over the collection", "End is reached without having run the counting loop")
				}
			}
		}
		if st.typ != 0 {
			f.okSites[fkey(site.Parent())+":"+string(rune(st.typ))] = f.c.at(site)
			if f.OnMsg != nil {
				f.OnMsg(x, site, st.typ)
			}
		}
		idle := fstate{}.String()
		return []core.TSOut{{S: idle, Err: core.KNil}, {S: idle, Err: core.KNonNil}}, true
	case "Error", "Bytes":
		return []core.TSOut{{S: s, Err: core.KAny}}, true
	}
	return nil, false
}

// lenEqGuard reports whether a dominating branch establishes len(a) == len(b) at block at.
func lenEqGuard(a, b ssa.Value, at *ssa.BasicBlock) bool {
	for _, blk := range at.Parent().Blocks {
		for _, in := range blk.Instrs {
			cmp, ok := in.(*ssa.BinOp)
			if !ok || (cmp.Op != token.EQL && cmp.Op != token.NEQ) {
				continue
			}
			x, ok1 := core.IsLenOf(cmp.X)
			y, ok2 := core.IsLenOf(cmp.Y)
			if !ok1 || !ok2 || !((sameCollection(x, a) && sameCollection(y, b)) || (sameCollection(x, b) && sameCollection(y, a))) {
				continue
			}
			eqIdx := 0
			if cmp.Op == token.NEQ {
				eqIdx = 1
			}
			for _, u := range core.Referrers(cmp) {
				if iff, ok := u.(*ssa.If); ok && core.EdgeDominates(iff.Block(), eqIdx, at) {
					return true
				}
			}
		}
	}
	return false
}

// reachesStart: functions of S from which a Writer.Start call is reachable through static calls.
func (c *Ctx) reachesStart() map[*ssa.Function]bool {
	if c.startReach != nil {
		return c.startReach
	}
	direct := map[*ssa.Function]bool{}
	callers := map[*ssa.Function][]*ssa.Function{}
	for _, fn := range c.P.ScopeFuncs() {
		for _, ci := range core.Calls(fn) {
			if isWriterMethod(ci, "Start") {
				direct[fn] = true
			}
			if callee := core.StaticCallee(ci); callee != nil && c.P.InScope(callee) {
				callers[callee] = append(callers[callee], fn)
			}
		}
	}
	out := map[*ssa.Function]bool{}
	var mark func(fn *ssa.Function)
	mark = func(fn *ssa.Function) {
		if out[fn] {
			return
		}
		out[fn] = true
		for _, p := range callers[fn] {
			mark(p)
		}
	}
	for fn := range direct {
		mark(fn)
	}
	c.startReach = out
	return out
}
