package rules

import (
	"go/constant"
	"go/types"
	"strings"

	"golang.org/x/tools/go/ssa"

	"pwv/internal/core"
)

func init() { Registry["C13"] = runC13 }

func runC13(c *Ctx) {
	R := c.R
	defer c.errorCodeClosesCycle("C13.R6")
	defer c.include("C13.S1", "C03", []string{"C03.R3"}, "every CopyData payload is delivered byte-exact and once: each accepted message replaces the window", 2)
	R.Technique = "error-class (nil / io.EOF / other) analysis per switch arm of CopyReader.Read; emit-set and arm automata of the trace engine; format provenance"
	R.Explanation = "Decides the abort / completion discipline of COPY-in on every path: (R1) the CopyInResponse announces the handler-requested format overall and once per declared column (grammar and count by the C02 frame rules, re-run here for 'G'; the format operands are the CopyIn parameter). " +
		"(R2) in CopyReader.Read each message type maps to its outcome: CopyData -> nil, CopyDone -> exactly io.EOF, Flush/Sync -> no return (the loop continues), CopyFail and every other type -> a non-nil, non-EOF error; " +
		"(R3) the COPY readers emit nothing themselves, so an aborted COPY is reported exactly once by the cycle owner (C05.R1 / C06.R1 decide that single ErrorResponse); (R4) CopyData / CopyDone / CopyFail arriving outside COPY mode produce no reply, invoke nothing and keep the connection. " +
		"Not decided: byte-exactness of payloads beyond the exact message window (C03.R2) and what a handler does with the error."
	R.Explanation += " (R2) also: no path from the CopyData arm leads back to the next read (every payload is delivered). (R5) the failing Execute path ends the cycle itself (ErrorResponse and ReadyForQuery) or the COPY reader does not consume Sync: deferring ReadyForQuery to a later Sync while CopyReader.Read swallows Sync loses it. (R6) ErrorCode on its own sends ErrorResponse then ReadyForQuery on every path that is not a failed write (no severity- or class-dependent short cut)."
	R.Trusted = []string{"go/types + go/ssa"}

	// ---------- R1: format provenance
	if outer := c.mustMethod("C13.R1", "wire", "Columns", "CopyIn"); outer != nil {
		R.Analysed(fname(outer))
		// the function that emits the CopyInResponse frame: Columns.CopyIn itself or a helper it calls
		ci := outer
		emits := func(fn *ssa.Function) bool {
			for _, call := range core.Calls(fn) {
				if writerMethod(call) == "Start" {
					if k, ok := core.ConstInt(call.Common().Args[1]); ok && k == 'G' {
						return true
					}
				}
			}
			return false
		}
		var via ssa.CallInstruction
		if !emits(outer) {
			for _, call := range core.Calls(outer) {
				if h := core.StaticCallee(call); h != nil && c.P.InPkg(h, "wire") && h.Blocks != nil && emits(h) {
					ci, via = h, call
					R.Analysed(fname(h))
				}
			}
		}
		var format *ssa.Parameter
		for _, p := range ci.Params {
			if core.IsNamed(p.Type(), pkWire, "FormatCode") {
				format = p
			}
		}
		if via != nil {
			// the helper receives Columns.CopyIn's own format parameter
			var outerFormat *ssa.Parameter
			for _, p := range outer.Params {
				if core.IsNamed(p.Type(), pkWire, "FormatCode") {
					outerFormat = p
				}
			}
			passed := false
			for i, p := range ci.Params {
				if p == format && i < len(via.Common().Args) && outerFormat != nil && via.Common().Args[i] == ssa.Value(outerFormat) {
					passed = true
				}
			}
			R.Check(passed, "C13.R1", "(Columns).CopyIn:format-handed-to-emitter", c.at(via), "the function that emits CopyInResponse receives the format the handler requested", "argument is Columns.CopyIn's format parameter", "the emitting helper does not receive Columns.CopyIn's format parameter")
		}
		nB, nI := 0, 0
		for _, call := range core.Calls(ci) {
			switch writerMethod(call) {
			case "AddByte":
				nB++
				R.Check(format != nil && core.StripConv(call.Common().Args[1]) == ssa.Value(format), "C13.R1", "(Columns).CopyIn:overall-format", c.at(call), "the overall format byte of CopyInResponse is the format the handler requested", "operand is the format parameter", "the overall format is not the CopyIn format parameter")
			case "AddInt16":
				if _, isLen := core.IsLenOf(core.StripConv(call.Common().Args[1])); isLen {
					continue
				}
				if bt, isB := core.StripConv(call.Common().Args[1]).Type().Underlying().(*types.Basic); isB && bt.Kind() == types.Int {
					continue // the column count handed in as an int (count agreement is C02.R3's)
				}
				nI++
				R.Check(format != nil && core.StripConv(call.Common().Args[1]) == ssa.Value(format), "C13.R1", "(Columns).CopyIn:column-format", c.at(call), "each per-column format code of CopyInResponse is the format the handler requested", "operand is the format parameter", "a per-column format code is not the CopyIn format parameter")
			}
		}
		R.Floor("C13.R1", "format operands in Columns.CopyIn", nB+nI, 2)
	}
	if dci := c.mustMethod("C13.R1", "wire", "dataWriter", "CopyIn"); dci != nil {
		R.Analysed(fname(dci))
		cci := c.P.Method("wire", "Columns", "CopyIn")
		n := 0
		// the announcement may be a step of its own (a private method of the writer that CopyIn calls with the format)
		hosts := []*ssa.Function{dci}
		for _, ci := range core.Calls(dci) {
			if h := core.StaticCallee(ci); h != nil && h != dci && c.P.InPkg(h, "wire") && h.Blocks != nil && h.Signature.Recv() != nil && c.onlyCaller(h) == ci {
				hosts = append(hosts, h)
				R.Analysed(fname(h))
			}
		}
		var sites []ssa.CallInstruction
		for _, h := range hosts {
			sites = append(sites, callsIn(h, calleeIs(cci))...)
		}
		for _, call := range sites {
			n++
			args := call.Common().Args
			fr, isF := core.FieldOfValue(args[0])
			fmtArg := args[len(args)-1]
			if prm, isP := fmtArg.(*ssa.Parameter); isP && call.Parent() != dci {
				if a, _ := c.callerArg(prm); a != nil {
					fmtArg = a
				}
			}
			R.Check(fmtArg == ssa.Value(dci.Params[1]), "C13.R1", "(*dataWriter).CopyIn:requested-format", c.at(call), "the result writer forwards the handler's format to the CopyInResponse", "last argument is the method's format parameter", "CopyInResponse is built from a value other than the format the handler passed (e.g. the portal's result formats)")
			R.Check(isF && fr.Is(pkWire, "dataWriter", "columns"), "C13.R1", "(*dataWriter).CopyIn:declared-columns", c.at(call), "the CopyInResponse describes the statement's declared columns", "receiver is dataWriter.columns", "CopyInResponse is built for a column set other than the writer's declared columns")
		}
		R.Floor("C13.R1", "Columns.CopyIn calls in dataWriter.CopyIn", n, 1)
	}

	// ---------- R2: outcomes of CopyReader.Read
	read := c.mustMethod("C13.R2", "wire", "CopyReader", "Read")
	if read != nil {
		R.Analysed(fname(read))
		var typed ssa.Value
		for _, ci := range core.Calls(read) {
			if call, ok := ci.(*ssa.Call); ok && isReaderMethod(call, "ReadTypedMsg") {
				typed = resultOf(call, 0)
			}
		}
		if typed == nil {
			R.Fail("C13.R2", "(*CopyReader).Read:message-type", c.atFn(read), "Read dispatches on the type of the message it read", "no ReadTypedMsg whose type result is used")
		} else {
			arms := map[byte]string{'d': "CopyData", 'c': "CopyDone", 'f': "CopyFail", 'H': "Flush", 'S': "Sync"}
			errE := c.Err()
			seenArm := map[byte]bool{}
			// the dispatch may be a step of its own: a method that is handed the type and answers (skip, err) - Read
			// returns err unless skip, and reads the next message otherwise
			disp, dispTyped := read, typed
			var dispCall *ssa.Call
			skipIdx, errIdx := -1, -1
			for _, r := range core.Referrers(typed) {
				call, isCall := r.(*ssa.Call)
				if !isCall {
					continue
				}
				h := core.StaticCallee(call)
				if h == nil || !c.P.InPkg(h, "wire") || h.Blocks == nil || h.Signature.Results().Len() != 2 {
					continue
				}
				si, ei := -1, -1
				for i := 0; i < 2; i++ {
					t := h.Signature.Results().At(i).Type()
					if core.IsErrorType(t) {
						ei = i
					} else if bt, isB := t.Underlying().(*types.Basic); isB && bt.Kind() == types.Bool {
						si = i
					}
				}
				for i, a := range call.Call.Args {
					if a == typed && si >= 0 && ei >= 0 && i < len(h.Params) {
						disp, dispTyped, dispCall, skipIdx, errIdx = h, h.Params[i], call, si, ei
					}
				}
			}
			armOf := func(ret *ssa.Return) (arm byte, isDefault bool) {
				if ret.Parent() != disp {
					return 0, false // before the dispatch
				}
				for k := range arms {
					if anyDominates(constEqEdges(dispTyped, int64(k), true), ret.Block()) {
						arm = k
					}
				}
				isDefault = arm == 0
				if isDefault {
					for k := range arms {
						if !anyDominates(constEqEdges(dispTyped, int64(k), false), ret.Block()) {
							isDefault = false
						}
					}
				}
				if arm == 0 && !isDefault {
					// `case Flush, Sync:` - a block reachable through those two edges only
					var only []edge
					only = append(only, constEqEdges(dispTyped, int64('H'), true)...)
					only = append(only, constEqEdges(dispTyped, int64('S'), true)...)
					if len(only) > 0 && !reachableWithoutEdges(disp, ret.Block(), only) {
						arm = 'H'
					}
				}
				return
			}
			// outcome of one return of the dispatching function (skip: the dispatch step asks for the next message)
			outcome := func(ret *ssa.Return, ev ssa.Value, skip bool) {
				cls := errE.Classify(ev, ret.Block())
				arm, isDefault := armOf(ret)
				if skip {
					if arm == 'H' || arm == 'S' {
						return
					}
					name := arms[arm]
					if name == "" {
						name = "other"
					}
					R.Fail("C13.R2", "(*CopyReader).Read:"+name+"-skipped", c.at(ret), "only Flush and Sync are ignored during COPY-in", "the "+name+" arm asks for the next message: the payload, the end of the stream or the abort is dropped")
					return
				}
				// end of stream (io.EOF) means CopyDone and nothing else: a connection that ends, or any other failure, in
				// the middle of the COPY must not look like a clean end to the handler
				if arm != 'c' && ev != nil {
					R.Check(cls&core.CEOF == 0, "C13.R2", "(*CopyReader).Read:EOF-only-for-CopyDone:"+retDescr(ret), c.at(ret), "io.EOF is returned only for CopyDone; a stream that breaks off without CopyDone surfaces as an error", "error class "+cls.String(), "a return outside the CopyDone arm may carry io.EOF (class "+cls.String()+"): when the connection ends in the middle of a COPY the handler sees a clean end of stream and commits a truncated copy")
				}
				switch {
				case arm == 'd':
					seenArm['d'] = true
					R.Check(cls.OnlyNil(), "C13.R2", "(*CopyReader).Read:CopyData", c.at(ret), "a CopyData message makes Read return nil (payload available)", "error class "+cls.String(), "the CopyData arm returns error class "+cls.String())
				case arm == 'c':
					seenArm['c'] = true
					R.Check(cls == core.CEOF, "C13.R2", "(*CopyReader).Read:CopyDone", c.at(ret), "CopyDone surfaces as io.EOF", "error class "+cls.String(), "the CopyDone arm returns error class "+cls.String()+", not exactly io.EOF")
				case arm == 'f':
					org := c.errOrigins(ev)
					if org[oMalformed] && len(org) == 1 {
						return // malformed CopyFail body
					}
					seenArm['f'] = true
					R.Check(cls == core.CNonNil, "C13.R2", "(*CopyReader).Read:CopyFail", c.at(ret), "CopyFail surfaces as a non-nil, non-EOF error", "error class "+cls.String(), "the CopyFail arm returns error class "+cls.String()+": the handler can see success or end-of-stream after the client aborted")
				case arm == 'H' || arm == 'S':
					R.Fail("C13.R2", "(*CopyReader).Read:"+arms[arm]+"-returns", c.at(ret), "Flush and Sync are ignored during COPY-in (the read loop continues)", "a return is reachable only through the "+arms[arm]+" arm")
				case isDefault:
					seenArm[0] = true
					R.Check(cls == core.CNonNil, "C13.R2", "(*CopyReader).Read:other-message", c.at(ret), "any non-COPY message surfaces as a non-nil, non-EOF error", "error class "+cls.String(), "the default arm returns error class "+cls.String())
				}
			}
			var readCall ssa.Instruction
			for _, ci := range core.Calls(read) {
				if isReaderMethod(ci, "ReadTypedMsg") {
					readCall = ci
				}
			}
			reachesRead := func(from *ssa.BasicBlock) bool {
				for b := range reachableAvoiding(from, func(*ssa.BasicBlock) bool { return false }) {
					if readCall != nil && b == readCall.Block() {
						return true
					}
				}
				return false
			}
			if dispCall == nil {
				for _, ret := range returns(read) {
					outcome(ret, errOperand(ret), false)
				}
			} else {
				R.Analysed(fname(disp))
				skipV, errV := resultOf(dispCall, skipIdx), resultOf(dispCall, errIdx)
				stop, goOn := boolEdges(skipV, false), boolEdges(skipV, true)
				// Read's side of the contract
				okStop, okGo := len(stop) > 0, len(goOn) > 0
				for _, ret := range returns(read) {
					switch {
					case anyDominates(stop, ret.Block()):
						if errOperand(ret) != errV {
							okStop = false
						}
					case anyDominates(goOn, ret.Block()):
						okGo = false
					case dispCall.Block().Dominates(ret.Block()):
						okStop = false // a return after the dispatch that is on neither edge
					default:
						outcome(ret, errOperand(ret), false) // before the dispatch: the failed read
					}
				}
				for _, e := range goOn {
					if !reachesRead(e.to()) {
						okGo = false
					}
				}
				for _, e := range stop {
					if reachesRead(e.to()) {
						okStop = false
					}
				}
				R.Check(okStop && okGo, "C13.R2", "(*CopyReader).Read:dispatch-step-contract", c.at(dispCall), "Read returns the dispatch step's error unless the step asks for the next message, and then reads on", "the not-skip edge returns the step's error and never reads again; the skip edge leads back to the read and to no return", sprintf("Read does not follow the (skip, err) answer of %s: stop edge returns the step's error: %v, skip edge reads on: %v", fkey(disp), okStop, okGo))
				// the step's side: what each arm answers
				for _, ret := range returns(disp) {
					skip, isConst := core.ConstBool(ret.Results[skipIdx])
					if !isConst {
						R.Fail("C13.R2", "(*CopyReader).Read:dispatch-step-skip:"+retDescr(ret), c.at(ret), "each arm of the dispatch step says whether the message is skipped", "the skip result of this return is not a constant (undecided)")
						continue
					}
					outcome(ret, ret.Results[errIdx], skip)
				}
			}
			for _, k := range []byte{'d', 'c', 'f', 0} {
				name := arms[k]
				if k == 0 {
					name = "other"
				}
				R.Check(seenArm[k], "C13.R2", "(*CopyReader).Read:arm-exists:"+name, c.atFn(read), "Read has an outcome for "+name+" messages", "a return dominated by that arm's edge exists", "no return is attributed to the "+name+" arm: the dispatch changed shape (undecided)")
			}
			// every CopyData message is delivered: the CopyData arm never loops back to read the next message
			if dispCall == nil {
				for _, e := range constEqEdges(typed, int64('d'), true) {
					R.Check(!reachesRead(e.to()), "C13.R2", "(*CopyReader).Read:CopyData-always-delivered", c.at(e.to().Instrs[0]), "every CopyData payload is handed to the handler (none is skipped, whatever its content)", "no path from the CopyData arm leads back to the next ReadTypedMsg", "a path from the CopyData arm continues with the next message: some CopyData payloads are silently dropped")
				}
			} else {
				R.OK("C13.R2", "(*CopyReader).Read:CopyData-always-delivered", c.at(dispCall), "every CopyData payload is handed to the handler (none is skipped, whatever its content)", "every return of the CopyData arm of "+fkey(disp)+" answers skip = false (checked per return), and Read returns on that answer")
			}
			// Flush / Sync arms exist and lead back into the loop
			for _, k := range []byte{'H', 'S'} {
				es := constEqEdges(dispTyped, int64(k), true)
				R.Check(len(es) > 0, "C13.R2", "(*CopyReader).Read:ignores:"+arms[k], c.atFn(read), arms[k]+" is recognised and ignored during COPY-in", "a comparison with the constant exists and no return is attributed to it", arms[k]+" is not recognised: it would abort the COPY as a foreign message")
			}
		}
	}

	// ---------- R3: the COPY readers emit nothing
	for _, m := range [][2]string{{"CopyReader", "Read"}, {"BinaryCopyReader", "Read"}} {
		fn := c.mustMethod("C13.R3", "wire", m[0], m[1])
		if fn == nil {
			continue
		}
		er := &emitSetRule{msgs: map[string]ssa.Instruction{}}
		tc := newTraceClient(c, er)
		ts := core.NewTS(c.P, tc)
		ts.Relevant = c.reachesEvents()
		ts.Run(fn, joinState("", ""), core.TSEnv{})
		ok := true
		for msg, site := range er.msgs {
			ok = false
			R.Fail("C13.R3", fkey(fn)+":emits:"+msg, c.at(site), "the COPY readers never write to the client; the cycle owner reports an aborted COPY exactly once", fname(fn)+" can emit message '"+msg+"': together with the cycle owner's report the client receives two error cycles")
		}
		if ok {
			R.OK("C13.R3", fkey(fn)+":emits-nothing", c.atFn(fn), "the COPY readers never write to the client", sprintf("no message emission reachable (%d states explored)", ts.States))
		}
	}

	// ---------- R5: an aborted COPY gets its ReadyForQuery. The COPY reader consumes Sync messages (R2), so the
	// failing Execute path must end the cycle itself; deferring ReadyForQuery to "the next Sync" loses it when the
	// client pipelined that Sync in front of its CopyData.
	var he *ssa.Function
	for _, fn := range c.P.ScopeFuncs() {
		if !c.P.InPkg(fn, "wire") {
			continue
		}
		for _, ci := range core.Calls(fn) {
			cc := ci.Common()
			if cc.IsInvoke() && cc.Method.Name() == "Execute" && core.IsNamed(cc.Value.Type(), pkWire, "PortalCache") {
				he = fn
			}
		}
	}
	if he == nil {
		R.Fail("C13.R5", "anchor:portal-execution", "-", "a function of package wire runs the portal (PortalCache.Execute)", "no invoke of PortalCache.Execute found")
	}
	if he != nil && read != nil {
		swallows := false
		var typed ssa.Value
		var readCall ssa.Instruction
		for _, ci := range core.Calls(read) {
			if call, ok := ci.(*ssa.Call); ok && isReaderMethod(call, "ReadTypedMsg") {
				typed, readCall = resultOf(call, 0), call
			}
		}
		if typed != nil {
			for _, e := range constEqEdges(typed, int64('S'), true) {
				for b := range reachableAvoiding(e.to(), func(*ssa.BasicBlock) bool { return false }) {
					if b == readCall.Block() {
						swallows = true
					}
				}
			}
		}
		n := 0
		for _, ci := range core.Calls(he) {
			call, ok := ci.(*ssa.Call)
			if !ok || !call.Call.IsInvoke() || call.Call.Method.Name() != "Execute" || !core.IsNamed(call.Call.Value.Type(), pkWire, "PortalCache") {
				continue
			}
			n++
			sawE, sawZ := false, false
			for _, fe := range failEdges(errResultOf(call)) {
				for _, b := range he.Blocks {
					if !fe.dominates(b) {
						continue
					}
					for _, in := range b.Instrs {
						inner, isCall := in.(ssa.CallInstruction)
						if !isCall {
							continue
						}
						callee := core.StaticCallee(inner)
						if callee == nil || !c.P.InScope(callee) {
							continue
						}
						er := &emitSetRule{msgs: map[string]ssa.Instruction{}}
						tc := newTraceClient(c, er)
						ts := core.NewTS(c.P, tc)
						ts.Relevant = c.reachesEvents()
						ts.Run(callee, joinState("", ""), core.TSEnv{})
						if _, ok := er.msgs["E"]; ok {
							sawE = true
						}
						if _, ok := er.msgs["Z"]; ok {
							sawZ = true
						}
					}
				}
			}
			R.Check(!(swallows && sawE && !sawZ), "C13.R5", "handleExecute:aborted-copy-gets-ReadyForQuery", c.at(call), "a failed or aborted COPY ends with one ErrorResponse and one ReadyForQuery for the cycle", sprintf("COPY reader consumes Sync: %v; the failing Execute path emits ErrorResponse: %v, ReadyForQuery: %v", swallows, sawE, sawZ), "the failing Execute path reports the error but leaves ReadyForQuery to a later Sync, while CopyReader.Read consumes Sync messages during the COPY: a client that pipelined its Sync before the CopyData never receives ReadyForQuery for the cycle")
		}
		R.Floor("C13.R5", "PortalCache.Execute calls in "+fkey(he), n, 1)
	}

	// ---------- R4: stray COPY messages at top level
	hc := c.mustMethod("C13.R4", "wire", "Session", "handleCommand")
	if hc != nil {
		var tparam *ssa.Parameter
		for _, p := range hc.Params {
			if core.IsNamed(p.Type(), pkTypes, "ClientMessage") {
				tparam = p
			}
		}
		for _, k := range []byte{'d', 'c', 'f'} {
			if tparam == nil {
				break
			}
			er := &allEventsRule{}
			tc := newTraceClient(c, er)
			ts := core.NewTS(c.P, tc)
			ts.Relevant = c.reachesEvents()
			outs := ts.Run(hc, joinState("", ""), core.ConstEnv(tparam, constant.MakeInt64(int64(k))))
			onlyNil := len(outs) > 0
			for _, o := range outs {
				if o.Err != core.KNil {
					onlyNil = false
				}
			}
			name := armNames[k]
			R.Check(len(er.evs) == 0 && onlyNil, "C13.R4", "handleCommand:stray:"+name, c.atFn(hc), "a "+name+" message outside COPY mode is ignored: no reply, no callback, connection kept", "no event on any path and every exit returns nil", sprintf("events %v, exits %v", er.evs, outs))
		}
	}
}

// allEventsRule records every event other than reads.
type allEventsRule struct{ evs []string }

func (r *allEventsRule) step(tc *traceClient, x *core.TSCtx, site ssa.Instruction, q, ev string) string {
	if ev == "READ" || strings.HasPrefix(ev, "FAIL:") {
		return q
	}
	r.evs = append(r.evs, ev)
	return q
}
func (r *allEventsRule) ret(_ *traceClient, _ *core.TSCtx, _ *ssa.Return, q string, _ core.ErrK) string {
	return q
}

// errorReportRule: ErrorCode, taken on its own, answers with ErrorResponse then ReadyForQuery on every path that does
// not end in a failed write. The aborted COPY is reported through it, and the COPY reader has already consumed the
// client's Sync, so nothing later supplies a ReadyForQuery the report left out.
type errorReportRule struct {
	c    *Ctx
	rule string
}

func (r errorReportRule) step(tc *traceClient, x *core.TSCtx, site ssa.Instruction, q, ev string) string {
	if strings.HasPrefix(ev, "FAIL:") || !strings.HasPrefix(ev, "M:") {
		return q
	}
	switch {
	case q == "" && ev == "M:E":
		return "E"
	case q == "E" && ev == "M:Z":
		return "EZ"
	}
	tc.fail(r.rule, x, site, "ErrorCode:"+ev+"@"+q, "an error report is one ErrorResponse followed by one ReadyForQuery", "ErrorCode emits "+ev+" in state '"+q+"'")
	return q
}

func (r errorReportRule) ret(tc *traceClient, x *core.TSCtx, ret *ssa.Return, q string, err core.ErrK) string {
	if len(x.Stack) != 0 || q == "EZ" {
		return q
	}
	if err == core.KNonNil {
		if onlyConnectionEnding(r.c.errOrigins(errOperand(ret))) {
			return q
		}
		tc.fail(r.rule, x, ret, "ErrorCode:return:"+retDescr(ret)+"@"+q, "an aborted COPY is answered with one ErrorResponse and one ReadyForQuery", "ErrorCode returns an error that is not a failed write before the report is complete (state '"+q+"'): the session ends and the cycle has no ReadyForQuery")
		return q
	}
	tc.fail(r.rule, x, ret, "ErrorCode:return:"+retDescr(ret)+"@"+q, "an aborted COPY is answered with one ErrorResponse and one ReadyForQuery", "ErrorCode can return without error in state '"+q+"': the report lacks its ErrorResponse or ReadyForQuery, and the COPY reader has consumed the Sync that would have produced one")
	return q
}

func (c *Ctx) errorCodeClosesCycle(rule string) {
	R := c.R
	ec := c.P.Func("wire", "ErrorCode")
	if ec == nil {
		R.Fail(rule, "anchor:ErrorCode", "-", "anchor wire.ErrorCode resolves", "function not found")
		return
	}
	tc := newTraceClient(c, errorReportRule{c, rule})
	ts := core.NewTS(c.P, tc)
	ts.Relevant = c.reachesEvents()
	outs := ts.Run(ec, joinState("", ""), core.TSEnv{})
	for f := range ts.Funcs {
		R.Analysed(fname(f))
	}
	for _, p := range ts.Problem {
		R.Fail(rule, "ErrorCode:unsupported", c.atFn(ec), "analysable", p)
	}
	nDone := 0
	for _, o := range outs {
		if _, q := splitState(o.S); q == "EZ" {
			nDone++
		}
	}
	R.Check(nDone > 0 && tc.Events["M:E"] > 0 && tc.Events["M:Z"] > 0, rule, "ErrorCode:report-automaton", c.atFn(ec), "every path of ErrorCode that is not a failed write sends ErrorResponse then ReadyForQuery", sprintf("%d exit outcomes, %d complete; events %v", len(outs), nDone, tc.Events), "no path of ErrorCode completes the report (ErrorResponse, ReadyForQuery)")
}

// reachableWithoutEdges: target can be reached from the entry of fn on a path that uses none of the given edges.
func reachableWithoutEdges(fn *ssa.Function, target *ssa.BasicBlock, cut []edge) bool {
	if len(fn.Blocks) == 0 {
		return false
	}
	isCut := func(b *ssa.BasicBlock, i int) bool {
		for _, e := range cut {
			if e.from == b && e.idx == i {
				return true
			}
		}
		return false
	}
	seen := map[*ssa.BasicBlock]bool{}
	var walk func(b *ssa.BasicBlock) bool
	walk = func(b *ssa.BasicBlock) bool {
		if b == target {
			return true
		}
		if seen[b] {
			return false
		}
		seen[b] = true
		for i, sc := range b.Succs {
			if !isCut(b, i) && walk(sc) {
				return true
			}
		}
		return false
	}
	return walk(fn.Blocks[0])
}
