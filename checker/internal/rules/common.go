// Package rules holds the rule instances per property.
package rules

import (
	"fmt"
	"go/token"
	"go/types"
	"sort"
	"strings"

	"golang.org/x/tools/go/ssa"

	"pwv/internal/core"
)

// Ctx is the per-run context handed to a property's rule set.
type Ctx struct {
	included      bool // this run is a rule set included by another property: it includes nothing itself
	armReach      map[byte]map[*ssa.Function]bool
	malformedDrop string
	P             *core.Prog
	R             *core.Report
	Tier          string
	Repo          string
	Verif         string
	err           *core.ErrEngine

	evReach map[*ssa.Function]bool
	gScope  map[*ssa.Function]bool

	startReach map[*ssa.Function]bool
	sslS, sslN *ssa.Global
	sslDone    bool
	sum        *core.Summaries
	mods       *core.ModSets
}

// Registry maps property ids to their rule sets.
var Registry = map[string]func(*Ctx){}

const (
	pkWire   = core.Mod
	pkBuffer = core.Mod + "/pkg/buffer"
	pkTypes  = core.Mod + "/pkg/types"
	pkErrors = core.Mod + "/errors"
	pkCodes  = core.Mod + "/codes"
)

func (c *Ctx) Thorough() bool { return c.Tier == "thorough" }

func (c *Ctx) Err() *core.ErrEngine {
	if c.err == nil {
		c.err = core.NewErrEngine(c.P)
	}
	return c.err
}

func (c *Ctx) at(in ssa.Instruction) string { return c.P.Pos(core.PosOf(in)) }
func (c *Ctx) atFn(fn *ssa.Function) string { return c.P.Pos(fn.Pos()) }
func fname(fn *ssa.Function) string         { return core.FuncName(fn) }

// short function key without package qualifier noise: "(*Server).serve", "ClearTextPassword$1".
func fkey(fn *ssa.Function) string {
	s := core.FuncName(fn)
	for _, p := range []string{"wire.", "buffer.", "errors.", "codes.", "types."} {
		s = strings.Replace(s, "(*"+p, "(*", 1)
		s = strings.TrimPrefix(s, p)
		s = strings.Replace(s, "("+p, "(", 1)
	}
	return s
}

// mustFunc resolves an anchor function or records an unresolved-anchor violation.
func (c *Ctx) mustFunc(rule, short, name string) *ssa.Function {
	fn := c.P.Func(short, name)
	if fn == nil {
		c.R.Fail(rule, "anchor:"+short+"."+name, "-", "anchor function "+short+"."+name+" resolves", "anchor does not resolve: the function is gone or renamed; the rule cannot be decided")
	}
	return fn
}

// mustFn resolves a function that may be written as a method of typ or as a plain function of the package (a method
// that does not use its receiver is routinely turned into a function and back). Only for rules that do not address the
// parameters by position.
func (c *Ctx) mustFn(rule, short, typ, name string) *ssa.Function {
	if fn := c.P.Method(short, typ, name); fn != nil && len(fn.Blocks) > 0 {
		return fn
	}
	if fn := c.P.Func(short, name); fn != nil && len(fn.Blocks) > 0 {
		return fn
	}
	c.R.Fail(rule, "anchor:"+short+"."+typ+"."+name, "-", "anchor "+short+"."+name+" (method of "+typ+" or plain function) resolves", "anchor does not resolve: the function is gone or renamed; the rule cannot be decided")
	return nil
}

func (c *Ctx) mustMethod(rule, short, typ, name string) *ssa.Function {
	fn := c.P.Method(short, typ, name)
	if fn == nil || len(fn.Blocks) == 0 {
		c.R.Fail(rule, "anchor:"+short+"."+typ+"."+name, "-", "anchor method "+short+"."+typ+"."+name+" resolves", "anchor does not resolve: the method is gone or renamed; the rule cannot be decided")
		return nil
	}
	return fn
}

// resultOf returns the Extract of result idx of a tuple call (or the call itself for single results).
func resultOf(call *ssa.Call, idx int) ssa.Value {
	sig := call.Call.Signature()
	if sig.Results().Len() == 1 {
		if idx == 0 {
			return call
		}
		return nil
	}
	for _, r := range core.Referrers(call) {
		if e, ok := r.(*ssa.Extract); ok && e.Index == idx {
			return e
		}
	}
	return nil
}

// errResultOf returns the value holding the error result of call (nil if unused / none).
func errResultOf(call *ssa.Call) ssa.Value {
	ri := core.ErrorResultIndex(call.Call.Signature())
	if ri < 0 {
		return nil
	}
	return resultOf(call, ri)
}

// edge identifies a CFG edge.
type edge struct {
	from *ssa.BasicBlock
	idx  int
}

func (e edge) dominates(b *ssa.BasicBlock) bool { return core.EdgeDominates(e.from, e.idx, b) }
func (e edge) to() *ssa.BasicBlock              { return e.from.Succs[e.idx] }

// nilEdges returns, for every `if v ==/!= nil`, the edge taken when v is nil (isNil) or non-nil.
func nilEdges(v ssa.Value, wantNil bool) []edge {
	var out []edge
	for _, r := range core.Referrers(v) {
		b, ok := r.(*ssa.BinOp)
		if !ok {
			continue
		}
		tv, nonNilOnTrue, ok := core.NilTest(b)
		if !ok || tv != v {
			continue
		}
		for _, u := range core.Referrers(b) {
			if iff, ok := u.(*ssa.If); ok {
				idx := 0
				if nonNilOnTrue == wantNil { // true edge means non-nil; we want the nil edge => idx 1
					idx = 1
				}
				out = append(out, edge{iff.Block(), idx})
			}
		}
	}
	return out
}

// boolEdges returns the edges taken when boolean value v is want.
func boolEdges(v ssa.Value, want bool) []edge {
	var out []edge
	for _, r := range core.Referrers(v) {
		switch u := r.(type) {
		case *ssa.If:
			if want {
				out = append(out, edge{u.Block(), 0})
			} else {
				out = append(out, edge{u.Block(), 1})
			}
		case *ssa.UnOp:
			if u.Op == token.NOT {
				out = append(out, boolEdges(u, !want)...)
			}
		}
	}
	return out
}

// constEqEdges returns the edges on which v == k (want=true) or v != k for comparisons of v with constants.
func constEqEdges(v ssa.Value, k int64, want bool) []edge {
	var out []edge
	for _, r := range core.Referrers(v) {
		b, ok := r.(*ssa.BinOp)
		if !ok || (b.Op != token.EQL && b.Op != token.NEQ) {
			continue
		}
		other := b.Y
		if other == v {
			other = b.X
		}
		cv, ok := core.ConstInt(other)
		if !ok || cv != k {
			continue
		}
		eqIdx := 0
		if b.Op == token.NEQ {
			eqIdx = 1
		}
		for _, u := range core.Referrers(b) {
			if iff, ok := u.(*ssa.If); ok {
				if want {
					out = append(out, edge{iff.Block(), eqIdx})
				} else {
					out = append(out, edge{iff.Block(), 1 - eqIdx})
				}
			}
		}
	}
	return out
}

func anyDominates(es []edge, b *ssa.BasicBlock) bool {
	for _, e := range es {
		if e.dominates(b) {
			return true
		}
	}
	return false
}

// callsIn returns the *ssa.Call / Defer / Go instructions of fn matching pred.
func callsIn(fn *ssa.Function, pred func(ssa.CallInstruction) bool) []ssa.CallInstruction {
	var out []ssa.CallInstruction
	for _, ci := range core.Calls(fn) {
		if pred(ci) {
			out = append(out, ci)
		}
	}
	return out
}

func calleeIs(target *ssa.Function) func(ssa.CallInstruction) bool {
	return func(ci ssa.CallInstruction) bool { return target != nil && core.StaticCallee(ci) == target }
}

// throughField matches calls whose callee value is a load of struct field pkg.typ.field.
func throughField(pkgpath, typ, field string) func(ssa.CallInstruction) bool {
	return func(ci ssa.CallInstruction) bool {
		cc := ci.Common()
		if cc.IsInvoke() {
			return false
		}
		fr, ok := core.FieldOfValue(cc.Value)
		return ok && fr.Is(pkgpath, typ, field)
	}
}

// returns lists the Return instructions of fn.
func returns(fn *ssa.Function) []*ssa.Return {
	var out []*ssa.Return
	for _, b := range fn.Blocks {
		if len(b.Instrs) == 0 {
			continue
		}
		if r, ok := b.Instrs[len(b.Instrs)-1].(*ssa.Return); ok {
			out = append(out, r)
		}
	}
	return out
}

// errOperand returns the error-typed result operand of a return (spilled results are forwarded).
func errOperand(r *ssa.Return) ssa.Value {
	ri := core.ErrorResultIndex(r.Parent().Signature)
	if ri < 0 || ri >= len(r.Results) {
		return nil
	}
	return forwardLoad(r.Results[ri])
}

// forwardLoad resolves a load of a local cell to the value stored last in the same block
// (results are spilled to cells in functions that contain a defer).
func forwardLoad(v ssa.Value) ssa.Value {
	u, ok := v.(*ssa.UnOp)
	if !ok || u.Op != token.MUL {
		return v
	}
	a, ok := u.X.(*ssa.Alloc)
	if !ok {
		return v
	}
	blk := u.Block()
	for i := core.InstrIndex(u) - 1; i >= 0; i-- {
		if st, ok := blk.Instrs[i].(*ssa.Store); ok && st.Addr == a {
			return st.Val
		}
	}
	return v
}

// reachableAvoiding reports the blocks reachable from start without entering a block for which stop is true.
func reachableAvoiding(start *ssa.BasicBlock, stop func(*ssa.BasicBlock) bool) map[*ssa.BasicBlock]bool {
	seen := map[*ssa.BasicBlock]bool{}
	var walk func(b *ssa.BasicBlock)
	walk = func(b *ssa.BasicBlock) {
		if seen[b] || stop(b) {
			return
		}
		seen[b] = true
		for _, s := range b.Succs {
			walk(s)
		}
	}
	walk(start)
	return seen
}

// reachableAssuming is reachableAvoiding restricted to paths on which the boolean SSA value v has
// the value assume at every branch that tests it (an SSA value is immutable, so branches on the same
// value are correlated).
func reachableAssuming(start *ssa.BasicBlock, stop func(*ssa.BasicBlock) bool, v ssa.Value, assume bool) map[*ssa.BasicBlock]bool {
	dead := map[edge]bool{}
	for _, e := range boolEdges(v, !assume) {
		dead[e] = true
	}
	seen := map[*ssa.BasicBlock]bool{}
	var walk func(b *ssa.BasicBlock)
	walk = func(b *ssa.BasicBlock) {
		if seen[b] || stop(b) {
			return
		}
		seen[b] = true
		for i, s := range b.Succs {
			if dead[edge{b, i}] {
				continue
			}
			walk(s)
		}
	}
	walk(start)
	return seen
}

func blockHasCall(b *ssa.BasicBlock, pred func(ssa.CallInstruction) bool) bool {
	for _, in := range b.Instrs {
		if ci, ok := in.(ssa.CallInstruction); ok && pred(ci) {
			return true
		}
	}
	return false
}

// globalInit returns the constant a package-level variable of S is initialised to (string constants),
// provided it is never stored to outside the package initialiser.
func (c *Ctx) globalInitString(g *ssa.Global) (string, bool) {
	if g == nil || g.Pkg == nil {
		return "", false
	}
	var val string
	found := 0
	for fn := range c.P.AllFuncs {
		for _, b := range fn.Blocks {
			for _, in := range b.Instrs {
				st, ok := in.(*ssa.Store)
				if !ok || st.Addr != g {
					continue
				}
				if !(fn.Name() == "init" && fn.Pkg == g.Pkg) {
					return "", false // stored outside its initialiser: not a constant
				}
				s, ok := core.ConstString(st.Val)
				if !ok {
					return "", false
				}
				val = s
				found++
			}
		}
	}
	return val, found == 1
}

// codeOfErr walks a decorator chain built in place (WithCode(WithSeverity(x, ..), codes.X)) and returns
// the SQLSTATE given to the outermost WithCode.
func (c *Ctx) codeOfErr(v ssa.Value) (string, bool) {
	for depth := 0; depth < 8; depth++ {
		call, ok := core.Strip(v).(*ssa.Call)
		if !ok {
			return "", false
		}
		callee := core.StaticCallee(call)
		if callee == nil || !c.P.InPkg(callee, "errors") || len(call.Call.Args) < 1 {
			return "", false
		}
		if callee.Name() == "WithCode" && len(call.Call.Args) == 2 {
			if u, ok := call.Call.Args[1].(*ssa.UnOp); ok && u.Op == token.MUL {
				if g, ok := u.X.(*ssa.Global); ok {
					return c.globalInitString(g)
				}
			}
			if s, ok := core.ConstString(call.Call.Args[1]); ok {
				return s, true
			}
			return "", false
		}
		v = call.Call.Args[0]
	}
	return "", false
}

func sigString(sig *types.Signature) string { return types.TypeString(sig, nil) }

func sortedKeys[V any](m map[string]V) []string {
	ks := make([]string, 0, len(m))
	for k := range m {
		ks = append(ks, k)
	}
	sort.Strings(ks)
	return ks
}

func sprintf(f string, a ...any) string { return fmt.Sprintf(f, a...) }

// isWriterMethod reports whether ci is a static call of (*buffer.Writer).name.
func isWriterMethod(ci ssa.CallInstruction, name string) bool {
	return core.MethodIs(core.StaticCallee(ci), pkBuffer, "Writer", name)
}

func isReaderMethod(ci ssa.CallInstruction, name string) bool {
	return core.MethodIs(core.StaticCallee(ci), pkBuffer, "Reader", name)
}

// anyReaderMethod returns the Reader method name called by ci, or "".
func readerMethod(ci ssa.CallInstruction) string {
	f := core.StaticCallee(ci)
	if f != nil && core.MethodIs(f, pkBuffer, "Reader", f.Name()) {
		return f.Name()
	}
	return ""
}

func writerMethod(ci ssa.CallInstruction) string {
	f := core.StaticCallee(ci)
	if f != nil && core.MethodIs(f, pkBuffer, "Writer", f.Name()) {
		return f.Name()
	}
	return ""
}

// pathOf describes a value as a chain of field loads from a root value: root, ".statement.columns".
// Index expressions contribute "[]" (with the index value returned separately by the caller when needed).
func pathOf(v ssa.Value) (ssa.Value, string) {
	path := ""
	for depth := 0; depth < 12; depth++ {
		v = core.Strip(v)
		switch x := v.(type) {
		case *ssa.UnOp:
			if x.Op != token.MUL {
				return v, path
			}
			switch a := x.X.(type) {
			case *ssa.FieldAddr:
				fr, _ := core.FieldOfAddr(a)
				path = "." + core.CanonFieldName(fr.Struct, fr.Name) + path
				v = a.X
				continue
			case *ssa.IndexAddr:
				path = "[]" + path
				v = a.X
				continue
			}
			return v, path
		case *ssa.Field:
			fr, _ := core.FieldOfValue(x)
			path = "." + core.CanonFieldName(fr.Struct, fr.Name) + path
			v = x.X
			continue
		case *ssa.FieldAddr:
			// the address of a struct-typed field on the way to one of its members (&s.origin -> .file)
			fr, _ := core.FieldOfAddr(x)
			path = "." + core.CanonFieldName(fr.Struct, fr.Name) + path
			v = x.X
			continue
		case *ssa.MakeInterface:
			v = x.X
			continue
		}
		return v, path
	}
	return v, path
}

// connectionScope returns the functions of S reachable (CHA call graph) from the per-connection
// entry point (*Server).serve, plus the handler-visible helpers.
func (c *Ctx) connectionScope() map[*ssa.Function]bool {
	if c.gScope != nil {
		return c.gScope
	}
	out := map[*ssa.Function]bool{}
	cg := c.P.CHA()
	var walk func(fn *ssa.Function)
	walk = func(fn *ssa.Function) {
		if fn == nil || out[fn] || !c.P.InScope(fn) {
			return
		}
		out[fn] = true
		n := cg.Nodes[fn]
		if n == nil {
			return
		}
		for _, e := range n.Out {
			walk(e.Callee.Func)
		}
	}
	walk(c.P.Method("wire", "Server", "serve"))
	// documented helpers a handler calls on client-controlled data
	for _, fn := range c.P.ScopeFuncs() {
		if fn.Parent() != nil || !c.P.InPkg(fn, "wire") {
			continue
		}
		switch fn.Name() {
		case "ParseParameters", "NewBinaryColumnReader", "NewScanner", "NewCopyReader", "ErrorCode", "TypeMap", "ClientParameters", "ServerParameters", "RemoteAddress", "AuthenticatedUsername", "IsSuperUser":
			walk(fn)
		}
		if fn.Signature.Recv() != nil {
			if n := core.NamedOf(fn.Signature.Recv().Type()); n != nil {
				switch n.Obj().Name() {
				case "dataWriter", "CopyReader", "BinaryCopyReader", "Parameter", "Columns", "Column":
					walk(fn)
				}
			}
		}
	}
	c.gScope = out
	return out
}

// failEdges returns the edges taken when error value v is non-nil, following v through phis
// (err = f(); ...; if err != nil): when v is non-nil and flows into a phi, the phi's non-nil edge is taken.
func failEdges(v ssa.Value) []edge {
	var out []edge
	seen := map[ssa.Value]bool{}
	var walk func(v ssa.Value)
	walk = func(v ssa.Value) {
		if seen[v] {
			return
		}
		seen[v] = true
		out = append(out, nilEdges(v, false)...)
		known := nilEdges(v, true) // where v has been found nil it does not carry a failure any more
		for _, r := range core.Referrers(v) {
			if ph, ok := r.(*ssa.Phi); ok {
				carries := false
				for i, e := range ph.Edges {
					if e == v && i < len(ph.Block().Preds) && !anyDominates(known, ph.Block().Preds[i]) {
						carries = true
					}
				}
				if carries {
					walk(ph)
				}
			}
		}
	}
	walk(v)
	return out
}

// flowsToReturn reports whether error value v is returned (directly, through a spilled result or a phi).
func flowsToReturn(v ssa.Value) bool {
	seen := map[ssa.Value]bool{}
	var walk func(v ssa.Value) bool
	walk = func(v ssa.Value) bool {
		if seen[v] {
			return false
		}
		seen[v] = true
		for _, r := range core.Referrers(v) {
			switch x := r.(type) {
			case *ssa.Return:
				return true
			case *ssa.Store:
				if _, ok := x.Addr.(*ssa.Alloc); ok {
					return true
				}
			case *ssa.Phi:
				if walk(x) {
					return true
				}
			}
		}
		return false
	}
	return walk(v)
}

// serveRegion: (*Server).serve plus the functions of package wire it reaches through static calls
// without entering the command loop. A maintainer may split serve into helpers; rules about "what serve
// does before the command loop" range over this region.
func (c *Ctx) serveRegion() map[*ssa.Function]bool {
	out := map[*ssa.Function]bool{}
	stop := c.P.Method("wire", "Session", "consumeCommands")
	var walk func(fn *ssa.Function)
	walk = func(fn *ssa.Function) {
		if fn == nil || out[fn] || fn == stop || !c.P.InPkg(fn, "wire") {
			return
		}
		out[fn] = true
		for _, ci := range core.Calls(fn) {
			if _, isGo := ci.(*ssa.Go); isGo {
				continue
			}
			walk(core.StaticCallee(ci))
		}
	}
	walk(c.P.Method("wire", "Server", "serve"))
	return out
}

// flowsFromCallResult reports whether v is result idx of a call of target, directly or through
// parameters of region functions all of whose call sites pass such a value.
func (c *Ctx) flowsFromCallResult(v ssa.Value, target *ssa.Function, idx int, depth int) bool {
	if depth > 4 {
		return false
	}
	v = core.Strip(v)
	if mi, ok := v.(*ssa.MakeInterface); ok {
		v = core.Strip(mi.X)
	}
	switch x := v.(type) {
	case *ssa.Extract:
		if call, ok := x.Tuple.(*ssa.Call); ok && core.StaticCallee(call) == target && x.Index == idx {
			return true
		}
	case *ssa.Parameter:
		fn := x.Parent()
		pi := -1
		for i, p := range fn.Params {
			if p == x {
				pi = i
			}
		}
		sites := c.P.CallSitesOf(fn)
		if pi < 0 || len(sites) == 0 {
			return false
		}
		for _, s := range sites {
			if !c.flowsFromCallResult(s.Common().Args[pi], target, idx, depth+1) {
				return false
			}
		}
		return true
	case *ssa.Phi:
		for _, e := range x.Edges {
			if !c.flowsFromCallResult(e, target, idx, depth+1) {
				return false
			}
		}
		return true
	}
	return false
}

// onlyReachedThrough reports whether every static call chain (inside S) that reaches fn passes through
// gate: each caller of fn is gate itself or is, recursively, only reached through gate.
func (c *Ctx) onlyReachedThrough(fn, gate *ssa.Function, depth int) (bool, []string) {
	if fn == gate {
		return true, nil
	}
	if depth > 6 {
		return false, []string{"call chain too deep"}
	}
	sites := c.P.CallSitesOf(fn)
	if len(sites) == 0 {
		return false, []string{fkey(fn) + " has no caller"}
	}
	var who []string
	ok := true
	for _, s := range sites {
		who = append(who, fkey(s.Parent()))
		if sub, _ := c.onlyReachedThrough(s.Parent(), gate, depth+1); !sub {
			ok = false
		}
	}
	return ok, who
}

// exceededRecovery locates the session's recovery from an oversized message: the function of package wire
// (outside the COPY readers) that skips the rejected body with Reader.Slurp, and that Slurp call. The step may
// live in a helper of the command loop or in consumeSingleCommand itself.
func (c *Ctx) exceededRecovery() (*ssa.Function, ssa.CallInstruction) {
	for _, fn := range c.P.ScopeFuncs() {
		if !c.P.InPkg(fn, "wire") {
			continue
		}
		if fn.Signature.Recv() != nil {
			if n := core.NamedOf(fn.Signature.Recv().Type()); n != nil && (n.Obj().Name() == "CopyReader" || n.Obj().Name() == "BinaryCopyReader") {
				continue
			}
		}
		for _, ci := range core.Calls(fn) {
			if isReaderMethod(ci, "Slurp") {
				return fn, ci
			}
		}
	}
	return nil, nil
}

// throughCarrier sees through a struct that merely carries decoded values out of a helper: for v = field i of the
// struct result of a static call, it returns the single value the callee stores into that field of the struct it
// returns (in the callee's terms), and the callee. Otherwise (v, nil).
func (c *Ctx) throughCarrier(v ssa.Value) (ssa.Value, *ssa.Function) {
	var structVal ssa.Value
	field := -1
	switch x := v.(type) {
	case *ssa.Field:
		structVal, field = x.X, x.Field
	case *ssa.UnOp: // the struct was spilled into a local: *(&local.f) with local = call result
		fa, isFA := x.X.(*ssa.FieldAddr)
		if !isFA || x.Op != token.MUL {
			return v, nil
		}
		a, isAlloc := fa.X.(*ssa.Alloc)
		if !isAlloc {
			return v, nil
		}
		n := 0
		for _, ref := range core.Referrers(a) {
			if st, isSt := ref.(*ssa.Store); isSt && st.Addr == ssa.Value(a) {
				structVal = st.Val
				n++
			}
		}
		if n != 1 {
			return v, nil
		}
		field = fa.Field
	default:
		return v, nil
	}
	fld := struct{ Field int }{field}
	var call *ssa.Call
	idx := 0
	switch x := structVal.(type) {
	case *ssa.Extract:
		call, _ = x.Tuple.(*ssa.Call)
		idx = x.Index
	case *ssa.Call:
		call = x
	}
	if call == nil {
		return v, nil
	}
	h := core.StaticCallee(call)
	if h == nil || !c.P.InPkg(h, "wire") || len(h.Blocks) == 0 {
		return v, nil
	}
	var found ssa.Value
	n := 0
	for _, r := range returns(h) {
		if idx >= len(r.Results) {
			return v, nil
		}
		u, isLoad := r.Results[idx].(*ssa.UnOp)
		if !isLoad {
			continue // a composite literal / zero value on the failing returns
		}
		a, isAlloc := u.X.(*ssa.Alloc)
		if !isAlloc {
			return v, nil
		}
		for _, ref := range core.Referrers(a) {
			fa, isFA := ref.(*ssa.FieldAddr)
			if !isFA || fa.Field != fld.Field {
				continue
			}
			for _, r2 := range core.Referrers(fa) {
				if st, isSt := r2.(*ssa.Store); isSt && st.Addr == ssa.Value(fa) {
					if found != nil && found != st.Val {
						return v, nil
					}
					found = st.Val
					n++
				}
			}
		}
	}
	if found == nil {
		return v, nil
	}
	return found, h
}

// errorEmitter returns the function of package wire that writes the ErrorResponse frame (Start('E') ... End):
// ErrorCode itself, or the helper it delegates the frame to.
func (c *Ctx) errorEmitter() *ssa.Function {
	for _, fn := range c.P.ScopeFuncs() {
		if !c.P.InPkg(fn, "wire") {
			continue
		}
		for _, ci := range core.Calls(fn) {
			if writerMethod(ci) == "Start" {
				if k, ok := core.ConstInt(ci.Common().Args[1]); ok && k == 'E' {
					return fn
				}
			}
		}
	}
	return nil
}

// readMessageHandled: in the command loop a message that was read successfully is either handed to the dispatcher
// (or to the oversized-message recovery), or the loop ends with a non-nil result. A successful return that has
// consumed a message without handling it drops the message silently: the client waits for a reply that never comes.
func (c *Ctx) readMessageHandled(rule string) {
	R := c.R
	csc := c.P.Method("wire", "Session", "consumeSingleCommand")
	hc := c.P.Method("wire", "Session", "handleCommand")
	if csc == nil || hc == nil {
		// consumeSingleCommand may have been merged into the loop
		csc = c.P.Method("wire", "Session", "consumeCommands")
		if csc == nil || hc == nil || len(callsIn(csc, calleeIs(hc))) == 0 {
			R.Fail(rule, "command-loop:anchor", "-", "the command loop reads a message and dispatches it", "consumeSingleCommand / handleCommand not found")
			return
		}
	}
	var rcall *ssa.Call
	for _, ci := range core.Calls(csc) {
		if call, ok := ci.(*ssa.Call); ok && isReaderMethod(call, "ReadTypedMsg") {
			rcall = call
		}
	}
	if rcall == nil {
		return
	}
	okRead := nilEdges(errResultOf(rcall), true)
	n := 0
	for _, r := range returns(csc) {
		if !anyDominates(okRead, r.Block()) {
			continue
		}
		cls := c.Err().Classify(errOperand(r), r.Block())
		if !cls.MayBeNil() {
			continue
		}
		n++
		handled := false
		for _, ci := range callsIn(csc, calleeIs(hc)) {
			if core.InstrDominates(ci, r) {
				handled = true
			}
		}
		// `return srv.handleCommand(..)` is a return of the dispatcher's own result
		for _, root := range core.ErrRoots(errOperand(r)) {
			if call, ok := root.(*ssa.Call); ok && core.StaticCallee(call) == hc {
				handled = true
			}
		}
		R.Check(handled, rule, "consumeSingleCommand:read-message-is-handled:"+retDescr(r), c.at(r), "a message that was read is dispatched, or the connection ends: it is never dropped silently", "the successful return passes through handleCommand", "after a message was read successfully the loop can return nil without dispatching it (the 'server is closing' path): the message is dropped, a Query / Sync gets no ReadyForQuery, a Terminate is ignored, and the client waits on an open connection")
	}
	R.Floor(rule, "successful returns of the command step after a read", n, 1)
}

// pdSite is one place where a ParameterDescription frame ('t') is written, with the operands of its count and of
// its per-type OIDs expressed in the terms of handleDescribe: (root value in handleDescribe, field path from it).
type pdSite struct {
	fn    *ssa.Function       // function that writes the frame
	count ssa.CallInstruction // AddInt16 of the frame
	// operand of len() in the count, resolved to handleDescribe's values (one entry per call site of fn; one when inlined)
	countRoot  []ssa.Value
	countPath  []string
	countIsLen bool
	elems      []ssa.CallInstruction // AddInt32 calls of the frame
	elemOK     []bool                // operand is an element of the very list the count measures
	at         []ssa.Instruction     // the call site in handleDescribe (or the count itself when inlined)
}

// paramDescriptionSites finds the ParameterDescription frame wherever it is written (a method of Session, a plain
// function, a helper that takes the whole statement, or inline in handleDescribe) and resolves what it announces.
func (c *Ctx) paramDescriptionSites() []pdSite {
	roots := c.describeRoots()
	isRoot := map[*ssa.Function]bool{}
	for _, r := range roots {
		isRoot[r] = true
	}
	var out []pdSite
	for _, fn := range c.P.ScopeFuncs() {
		if !c.P.InPkg(fn, "wire") {
			continue
		}
		var starts []ssa.CallInstruction
		for _, ci := range core.Calls(fn) {
			if writerMethod(ci) == "Start" {
				starts = append(starts, ci)
			}
		}
		for _, st := range starts {
			if k, ok := core.ConstInt(st.Common().Args[1]); !ok || k != 't' {
				continue
			}
			under := func(ci ssa.CallInstruction) bool {
				if ci == st || !core.InstrDominates(st, ci) {
					return false
				}
				for _, s2 := range starts {
					if s2 != st && core.InstrDominates(st, s2) && core.InstrDominates(s2, ci) {
						return false
					}
				}
				return true
			}
			site := pdSite{fn: fn}
			var lenRoot ssa.Value
			lenPath := ""
			for _, ci := range core.Calls(fn) {
				if !under(ci) {
					continue
				}
				if isWriterMethod(ci, "AddInt16") && site.count == nil {
					site.count = ci
					if x, ok := core.IsLenOf(core.StripConv(ci.Common().Args[1])); ok {
						site.countIsLen = true
						lenRoot, lenPath = pathOf(x)
					}
				}
			}
			for _, ci := range core.Calls(fn) {
				if under(ci) && isWriterMethod(ci, "AddInt32") {
					site.elems = append(site.elems, ci)
					r, p := pathOf(core.StripConv(ci.Common().Args[1]))
					site.elemOK = append(site.elemOK, site.countIsLen && r == lenRoot && p == lenPath+"[]")
				}
			}
			if site.count == nil {
				continue
			}
			prm, isP := lenRoot.(*ssa.Parameter)
			for _, hd := range roots {
				if hd == fn {
					continue
				}
				for _, w := range callsIn(hd, calleeIs(fn)) {
					var r ssa.Value
					p := "?"
					if isP {
						for i, fp := range fn.Params {
							if fp == prm && i < len(w.Common().Args) {
								r, p = pathOf(w.Common().Args[i])
								p += lenPath
							}
						}
					}
					site.countRoot, site.countPath, site.at = append(site.countRoot, r), append(site.countPath, p), append(site.at, w)
				}
			}
			if len(site.at) == 0 && isRoot[fn] {
				site.countRoot, site.countPath, site.at = []ssa.Value{lenRoot}, []string{lenPath}, []ssa.Instruction{site.count}
			}
			out = append(out, site)
		}
	}
	return out
}

// describeSink is one (columns, formats) pair that reaches Columns.Define from handleDescribe, with the block at
// which the pair is chosen (the call's block, or the predecessor of the merge when both operands are phi values).
type describeSink struct {
	at       ssa.Instruction
	where    *ssa.BasicBlock
	cols, fm ssa.Value
}

// describeSinks resolves what handleDescribe hands to Columns.Define: directly, through a helper of package wire
// (method or plain function), or through local variables merged after the switch.
func (c *Ctx) describeSinks(hd *ssa.Function) []describeSink {
	def := c.P.Method("wire", "Columns", "Define")
	if def == nil || hd == nil {
		return nil
	}
	var out []describeSink
	add := func(ci ssa.CallInstruction, cols, fm ssa.Value) {
		cp, ok1 := core.Strip(cols).(*ssa.Phi)
		fp, ok2 := core.Strip(fm).(*ssa.Phi)
		if ok1 && ok2 && cp.Block() == fp.Block() {
			for i, pred := range cp.Block().Preds {
				out = append(out, describeSink{ci, pred, cp.Edges[i], fp.Edges[i]})
			}
			return
		}
		out = append(out, describeSink{ci, ci.Block(), cols, fm})
	}
	for _, ci := range core.Calls(hd) {
		callee := core.StaticCallee(ci)
		if callee == nil {
			continue
		}
		a := ci.Common().Args
		if callee == def {
			add(ci, a[0], a[len(a)-1])
			continue
		}
		if !c.P.InPkg(callee, "wire") || callee.Blocks == nil {
			continue
		}
		for _, hi := range callsIn(callee, calleeIs(def)) {
			ha := hi.Common().Args
			pc, ok1 := core.Strip(ha[0]).(*ssa.Parameter)
			pf, ok2 := core.Strip(ha[len(ha)-1]).(*ssa.Parameter)
			if !ok1 || !ok2 {
				continue
			}
			var cols, fm ssa.Value
			for i, p := range callee.Params {
				if i < len(a) && p == pc {
					cols = a[i]
				}
				if i < len(a) && p == pf {
					fm = a[i]
				}
			}
			if cols != nil && fm != nil {
				add(ci, cols, fm)
			}
		}
	}
	return out
}

// describeRoots returns handleDescribe and the helpers of package wire it calls directly that look a statement or a
// portal up (the per-kind halves of Describe when the switch arms are functions of their own).
func (c *Ctx) describeRoots() []*ssa.Function {
	hd := c.P.Method("wire", "Session", "handleDescribe")
	if hd == nil {
		return nil
	}
	roots := []*ssa.Function{hd}
	seen := map[*ssa.Function]bool{hd: true}
	for _, ci := range core.Calls(hd) {
		h := core.StaticCallee(ci)
		if h == nil || seen[h] || !c.P.InPkg(h, "wire") || h.Blocks == nil {
			continue
		}
		if len(callsIn(h, cacheInvoke("StatementCache", "Get")))+len(callsIn(h, cacheInvoke("PortalCache", "Get"))) > 0 {
			seen[h] = true
			roots = append(roots, h)
		}
	}
	return roots
}

// include runs the rule set of another property and takes over the obligations of the named rules as obligations of
// this property under rule id `as`: the other property's rule is a necessary condition of this property as well
// (e.g. "byte-identical values" needs the message window discipline). Shared obligations are decided on the same
// tree in the same run; an open finding of the source property is reported by the source only.
func (c *Ctx) include(as, from string, rules []string, why string, floor int) {
	if c.included {
		return
	}
	run, ok := Registry[from]
	if !ok {
		c.R.Fail(as, "include:"+from, "-", "shared rule set resolves", "unknown property "+from)
		return
	}
	sub := core.NewReport(from, c.Tier, 0)
	sc := &Ctx{P: c.P, R: sub, Tier: c.Tier, Repo: c.Repo, Verif: c.Verif, included: true}
	run(sc)
	open, err := core.OpenFindingKeys(c.Verif, from)
	if err != nil {
		c.R.Fail(as, "include:"+from, "-", "known findings readable", err.Error())
		return
	}
	wanted := map[string]bool{}
	for _, r := range rules {
		wanted[r] = true
	}
	n := c.R.Import(sub, wanted, as, why, open)
	c.R.Floor(as, "obligations shared with "+from+" "+strings.Join(rules, ","), n, floor)
}

// stopsOnError: the function returns the result of call as soon as it is non-nil - `if err := call(); err != nil
// { return err }` in a loop, or `for err == nil { err = call() }; return err` (the test is then made on the merge of
// the call's result with a value that is nil when the loop is entered).
func (c *Ctx) stopsOnError(call *ssa.Call) bool {
	cands := []ssa.Value{call}
	for _, r := range core.Referrers(call) {
		if ph, ok := r.(*ssa.Phi); ok {
			cands = append(cands, ph)
		}
	}
	for _, v := range cands {
		for _, e := range nilEdges(v, false) {
			blk := e.to()
			r, isRet := blk.Instrs[len(blk.Instrs)-1].(*ssa.Return)
			if !isRet {
				continue
			}
			has, only := false, true
			for _, root := range core.ErrRoots(errOperand(r)) {
				switch {
				case root == ssa.Value(call):
					has = true
				case c.Err().Classify(root, e.from).OnlyNil():
				default:
					only = false
				}
			}
			if has && only {
				return true
			}
		}
	}
	return false
}

// reachedOnlyAfterSuccess: site is reached only when step ran and returned no error, although step does not dominate
// it - the single-exit style `if err == nil { _, err = step() }; if err == nil { site }`: site is guarded by the nil
// edge of a merge of error values, and on every way into that merge the value is either step's own error (the step
// ran) or an error known to be non-nil on that way (so the nil edge is not taken).
func reachedOnlyAfterSuccess(step ssa.CallInstruction, site ssa.Instruction) bool {
	call, ok := step.(*ssa.Call)
	if !ok {
		return false
	}
	errv := errResultOf(call)
	if errv == nil {
		return false
	}
	for _, ref := range core.Referrers(errv) {
		ph, isPhi := ref.(*ssa.Phi)
		if !isPhi || !anyDominates(nilEdges(ph, true), site.Block()) {
			continue
		}
		all := true
		for i, e := range ph.Edges {
			pred := ph.Block().Preds[i]
			if e == errv {
				if !step.Block().Dominates(pred) {
					all = false
				}
				continue
			}
			known := anyDominates(nilEdges(e, false), pred)
			for _, ne := range nilEdges(e, false) {
				if ne.from == pred && ne.to() == ph.Block() {
					known = true
				}
			}
			if !known {
				all = false
			}
		}
		if all {
			return true
		}
	}
	return false
}

// comparesMsgType reports whether fn compares one of its ClientMessage parameters with a constant (the dispatch switch).
func comparesMsgType(fn *ssa.Function) bool {
	for _, p := range fn.Params {
		if !core.IsNamed(p.Type(), pkTypes, "ClientMessage") {
			continue
		}
		for _, r := range core.Referrers(p) {
			if b, ok := r.(*ssa.BinOp); ok && (b.Op == token.EQL || b.Op == token.NEQ) {
				if _, isC := core.ConstInt(b.X); isC {
					return true
				}
				if _, isC := core.ConstInt(b.Y); isC {
					return true
				}
			}
		}
	}
	return false
}

// dispatcher returns the function that holds the switch on the client message type: handleCommand itself, or -
// when handleCommand only prepares the command (context, bookkeeping) and hands its message type parameter on -
// the single in-scope function it passes that parameter to which compares it with the message constants. The
// second result lists the forwarding calls from handleCommand down to the dispatcher (empty when they coincide).
func (c *Ctx) dispatcher() (*ssa.Function, []ssa.CallInstruction) {
	hc := c.P.Method("wire", "Session", "handleCommand")
	var chain []ssa.CallInstruction
	for depth := 0; hc != nil && depth < 3 && !comparesMsgType(hc); depth++ {
		var next *ssa.Function
		var via ssa.CallInstruction
		n := 0
		for _, ci := range core.Calls(hc) {
			callee := core.StaticCallee(ci)
			if callee == nil || !c.P.InPkg(callee, "wire") || callee.Blocks == nil {
				continue
			}
			passes := false
			for _, a := range ci.Common().Args {
				if p, ok := core.Strip(a).(*ssa.Parameter); ok && p.Parent() == hc && core.IsNamed(p.Type(), pkTypes, "ClientMessage") {
					passes = true
				}
			}
			if passes {
				n++
				next, via = callee, ci
			}
		}
		if n != 1 {
			break
		}
		hc = next
		chain = append(chain, via)
	}
	return hc, chain
}
