package rules

import (
	"fmt"
	"go/token"
	"go/types"
	"os"
	"strings"

	"golang.org/x/tools/go/ssa"

	"pwv/internal/core"
)

func init() { Registry["C10"] = runC10 }

// exceededRule: automaton of consumeSingleCommand with the dispatch opaque: on the size-exceeded arm the
// declared size is skipped first, then exactly one ErrorResponse (+ ReadyForQuery) is sent.
type exceededRule struct{ c *Ctx }

func (r exceededRule) step(tc *traceClient, x *core.TSCtx, site ssa.Instruction, q, ev string) string {
	bad := func(why string) string {
		tc.fail("C10.R4", x, site, "consumeSingleCommand:"+ev+"@"+q, "an oversized message is skipped in full, answered with one ErrorResponse and the session continues", why)
		return q
	}
	if strings.HasPrefix(ev, "FAIL:") || strings.HasPrefix(ev, "CACHE:") || strings.HasPrefix(ev, "CB:") {
		return q
	}
	switch ev {
	case "READ":
		if q != "start" {
			return bad("a second message is read inside one iteration")
		}
		return "read"
	case "SLURP":
		if q != "read" {
			return bad("the declared size is skipped at an unexpected point (state " + q + ")")
		}
		return "skipped"
	case "M:E":
		if q == "read" {
			return "refused" // a refusal that ends the connection (e.g. the server is closing): nothing may follow it
		}
		if q != "skipped" {
			return bad("an ErrorResponse is sent before the oversized body was skipped: the unread body would be parsed as messages")
		}
		return "reported"
	case "M:Z":
		if q == "refused" {
			return bad("an ErrorResponse was sent without skipping an oversized body and the cycle continues with ReadyForQuery: the unread body would be parsed as messages")
		}
		if q != "reported" {
			return bad("ReadyForQuery without the preceding ErrorResponse")
		}
		return "ready"
	}
	return bad("unexpected event " + ev)
}

func (r exceededRule) ret(tc *traceClient, x *core.TSCtx, ret *ssa.Return, q string, err core.ErrK) string {
	if len(x.Stack) != 0 {
		return q
	}
	if q == "refused" && err != core.KNonNil {
		tc.fail("C10.R4", x, ret, "consumeSingleCommand:return@refused", "a message that is refused without being handled ends the connection", "after an ErrorResponse that was not preceded by the skip the iteration can end without error: the loop continues although the message (and possibly its unread body) was not handled")
	}
	if (q == "skipped" || q == "reported") && err != core.KNonNil {
		tc.fail("C10.R4", x, ret, "consumeSingleCommand:return@"+q, "after skipping an oversized message the client is told (ErrorResponse then ReadyForQuery) before the loop continues", "the iteration can end without error in state '"+q+"': the oversized message is dropped silently or the cycle is left open")
	}
	return q
}

func runC10(c *Ctx) {
	R := c.R
	R.Technique = "difference-constraint proofs symbolic in the limit (E-LIN), canonical-form comparison of the rejecting edges, provenance of the skipped size, loop rules for Slurp, trace automaton of the size-exceeded arm"
	R.Explanation = "All rules are symbolic in MaxMessageSize, hence hold for every configured limit L: (R1) in ReadUntypedMsg the window reset and the body read are dominated by 0 <= size <= L (proved by E-LIN), each edge into the rejecting block carries exactly size > L or size < 0 in canonical form (so L itself is accepted and L+1 rejected), and nothing is allocated or read for a rejected size; size is the unsigned header minus 4 (C03.R2 rule re-run), so lengths below 4 become negative and are rejected, never wrapped; " +
		"(R2) the limit is the configured size when positive and the 16 MiB default otherwise, set once in NewReader; (R3) the amount skipped is the rejected size itself (Slurp argument <- error's Size field <- NewMessageSizeExceeded(.., size)), Slurp reads chunks of at most L, subtracts exactly the bytes read and loops while bytes remain; (R4) the error carries SQLSTATE 54000 with severity ERROR, and on the exceeded arm of the command loop the order is skip, ErrorResponse, ReadyForQuery with a nil result so the next message is processed; (R5) during start-up / authentication the same error is returned and ends the connection (C03.R5 error-edge rule). Known finding C06.R1: the reply includes ReadyForQuery also for extended-protocol messages."
	R.Trusted = []string{"go/types + go/ssa", "io.ReadFull contract"}
	sum := c.summaries("C10.R1")
	mods := c.modSets()

	rum := c.mustMethod("C10.R1", "buffer", "Reader", "ReadUntypedMsg")
	reset := c.P.Method("buffer", "Reader", "reset")
	nmse := c.P.Func("buffer", "NewMessageSizeExceeded")
	if rum != nil && reset != nil && nmse != nil {
		R.Analysed(fname(rum))
		// the accept step may live in a method tail-called with the decoded size: the guard rules apply there
		var sizeV ssa.Value
		var fl []fill
		origRum := rum
		var outerSize ssa.Value
		if acc, f, outer, okAcc := c.acceptStep(rum); okAcc {
			if acc != rum {
				R.Analysed(fname(acc))
				rum = acc
			}
			fl = []fill{f}
			sizeV = f.size
			outerSize = outer
		}
		l := core.NewLin(c.P, rum, mods, sum)
		mts := maxTerms(l)
		// the guard may be a step of its own (readBodySize() (int, error)): ReadUntypedMsg hands its successful result to
		// the accept step. The accept bounds are then what the guard step proves about that result, and the rejecting
		// edges are examined in the guard step.
		if rum != origRum && len(mts) == 0 && outerSize != nil {
			if ex, isEx := core.StripConv(outerSize).(*ssa.Extract); isEx && ex.Index == 0 {
				if gcall, isCall := ex.Tuple.(*ssa.Call); isCall {
					g := core.StaticCallee(gcall)
					if g != nil && c.P.InPkg(g, "buffer") && g.Blocks != nil && len(callsIn(g, calleeIs(nmse))) > 0 {
						R.Analysed(fname(g))
						for _, site := range callsIn(origRum, calleeIs(rum)) {
							gr, _ := c.resultGuarantee("C10.R1", site, outerSize)
							R.Check(gr.nonNeg && gr.leMax, "C10.R1", "ReadUntypedMsg:accept-path:"+callDescr(site), c.at(site), "a body is buffered only if 0 <= size <= limit", "the size handed to the accept step is the successful result of "+fkey(g)+", which proves 0 <= result <= MaxMessageSize on every return that may carry a nil error", sprintf("the guard step %s does not prove 0 <= result (%v) and result <= MaxMessageSize (%v) on its successful returns", fkey(g), gr.nonNeg, gr.leMax))
						}
						rum = g
						l = core.NewLin(c.P, rum, mods, sum)
						mts = maxTerms(l)
						sizeV = nil
						for _, ci := range callsIn(g, calleeIs(nmse)) {
							sizeV = ci.Common().Args[1]
						}
						// the size the guard step hands back on success is the size it tested
						for _, r := range returns(g) {
							if len(r.Results) == 2 && !c.Err().Classify(r.Results[1], r.Block()).NeverNil() && r.Results[0] != sizeV {
								R.Fail("C10.R1", "ReadUntypedMsg:guard-step-result", c.at(r), "the size that is buffered is the size that was compared with the limit", "a successful return of "+fkey(g)+" hands back a value other than the size it tested")
							}
						}
					}
				}
			}
		}
		if sizeV == nil || len(mts) == 0 {
			R.Fail("C10.R1", "ReadUntypedMsg:shape", c.atFn(rum), "ReadUntypedMsg compares the declared size with the limit", "size or limit not found")
		} else {
			st, so := l.Expr(sizeV)
			for _, ci := range core.Calls(rum) {
				call, ok := ci.(*ssa.Call)
				if !ok {
					continue
				}
				callee := core.StaticCallee(call)
				if callee != reset && !core.FuncIs(callee, "io", "ReadFull") && ssa.Instruction(call) != fl[0].site {
					continue
				}
				if core.FuncIs(callee, "io", "ReadFull") && ssa.Instruction(call) != fl[0].site && fl[0].via == nil {
					if sl, isSl := call.Call.Args[1].(*ssa.Slice); isSl {
						if fr, isF := core.FieldOfAddr(sl.X); isF && fr.Name == "header" {
							continue // the 4-byte header read
						}
					}
				}
				if core.FuncIs(callee, "io", "ReadFull") && fl[0].via != nil {
					continue
				}
				upper := false
				for _, m := range mts {
					if l.Prove(call, st, m, -so) {
						upper = true
					}
				}
				lower := l.Prove(call, core.Zero, st, so)
				R.Check(upper && lower, "C10.R1", "ReadUntypedMsg:accept-path:"+callDescr(call), c.at(call), "a body is buffered only if 0 <= size <= limit", "E-LIN proves both bounds from the dominating branch edges", sprintf("cannot prove 0 <= size (%v) and size <= MaxMessageSize (%v) at this point: an oversized or negative size reaches the buffer", lower, upper))
			}
			// the rejecting block: each incoming edge is exactly size > limit or size < 0
			for _, ci := range callsIn(rum, calleeIs(nmse)) {
				blk := ci.Block()
				R.Check(ci.Common().Args[1] == sizeV, "C10.R3", "ReadUntypedMsg:error-carries-size", c.at(ci), "the size-exceeded error records the rejected size", "NewMessageSizeExceeded(limit, size)", "the error does not record the declared size")
				okEdges := len(blk.Preds) > 0
				var got []string
				for _, p := range blk.Preds {
					iff, isIf := p.Instrs[len(p.Instrs)-1].(*ssa.If)
					if !isIf {
						okEdges = false
						got = append(got, "unconditional")
						continue
					}
					truth := p.Succs[0] == blk
					// a boolean helper (e.g. reader.fits(size)) guarding the accept path: the rejecting edge is
					// its false outcome, and what it implies when true must be exactly the two accept bounds
					condV := iff.Cond
					if u, isNot := condV.(*ssa.UnOp); isNot && u.Op == token.NOT {
						condV, truth = u.X, !truth
					}
					if pc, isCall := condV.(*ssa.Call); isCall {
						// fits(size) rejects on its false outcome, outOfBounds(size) on its true outcome: what the helper
						// implies on the accepting outcome must be exactly the two accept bounds
						facts := l.PredicateFactStringsWhen(pc, !truth)
						want := map[string]bool{canonLE(core.Zero, st, so): true}
						for _, m := range mts {
							want[canonLE(st, m, -so)] = true
						}
						nMatch := 0
						extra := false
						for _, f := range facts {
							if want[f] {
								nMatch++
							} else if !strings.HasPrefix(f, "0 - ") || !strings.HasSuffix(f, "<= 0") { // ignore trivial unsigned facts
								extra = true
							}
						}
						got = append(got, "!"+callDescr(pc)+"{"+strings.Join(facts, "; ")+"}")
						if nMatch < 2 || extra {
							okEdges = false
						}
						continue
					}
					form := c.canon(l, iff.Cond, truth)
					got = append(got, form)
					exact := false
					for _, m := range mts {
						if form == canonLE(m, st, so-1) { // limit - size <= -1  <=>  size > limit
							exact = true
						}
					}
					if form == canonLE(st, core.Zero, -1-so) { // size <= -1
						exact = true
					}
					if !exact {
						okEdges = false
					}
				}
				R.Check(okEdges, "C10.R1", "ReadUntypedMsg:reject-exactly", c.at(ci), "a message is rejected exactly when size > limit or size < 0 (the boundary L is accepted, L+1 rejected)", "edges into the rejecting block: "+strings.Join(got, " ; "), "edges into the rejecting block are "+strings.Join(got, " ; ")+" - not exactly {limit - size <= -1, size <= -1}: off-by-one at the boundary or a missing lower bound")
				// nothing buffered on the rejecting path
				for _, in := range blk.Instrs {
					if call, ok := in.(*ssa.Call); ok {
						if cal := core.StaticCallee(call); cal == reset || core.FuncIs(cal, "io", "ReadFull") || (fl[0].via != nil && cal == fl[0].via) {
							R.Fail("C10.R1", "ReadUntypedMsg:reject-buffers", c.at(call), "nothing is allocated or read for a rejected size", "the rejecting block calls "+callDescr(call))
						}
					}
				}
			}
		}
	}
	// size = header - 4 (shared with C03.R2)
	c.sizeIsHeaderMinus4("C10.R1")

	// ---------- R2: default
	if nr := c.mustFunc("C10.R2", "buffer", "NewReader"); nr != nil {
		R.Analysed(fname(nr))
		var stv ssa.Value
		for _, b := range nr.Blocks {
			for _, in := range b.Instrs {
				if st, ok := in.(*ssa.Store); ok {
					if fr, ok := core.FieldOfAddr(st.Addr); ok && fr.Is(pkBuffer, "Reader", "MaxMessageSize") {
						stv = st.Val
					}
				}
			}
		}
		ok := false
		why := "MaxMessageSize is not a phi of the parameter and the default"
		if ph, isPhi := stv.(*ssa.Phi); isPhi {
			var size *ssa.Parameter
			for _, p := range nr.Params {
				if p.Name() == "bufferSize" || (p.Type().String() == "int") {
					size = p
				}
			}
			okParam, okDef := false, false
			for i, e := range ph.Edges {
				pred := ph.Block().Preds[i]
				if e == ssa.Value(size) {
					// reached only when bufferSize > 0
					l := core.NewLin(c.P, nr, mods, sum)
					t, off := l.Expr(size)
					var ex *ssa.If
					if iff, isIf := pred.Instrs[len(pred.Instrs)-1].(*ssa.If); isIf {
						ex = iff
					}
					_ = ex
					if l.ProveOnEdge(pred, ph.Block(), core.Zero, t, off-1) {
						okParam = true
					}
				} else if k, isC := core.ConstInt(e); isC && k == 1<<24 {
					// only when bufferSize <= 0
					l := core.NewLin(c.P, nr, mods, sum)
					t, off := l.Expr(size)
					if l.ProveOnEdge(pred, ph.Block(), t, core.Zero, -off) {
						okDef = true
					}
				}
			}
			ok = okParam && okDef
			why = sprintf("parameter edge proved > 0: %v; default edge (16777216) proved <= 0: %v", okParam, okDef)
		}
		R.Check(ok, "C10.R2", "NewReader:limit", c.atFn(nr), "the limit is the configured size when positive and the 16 MiB default otherwise", why, why)
	}
	// BufferedMsgSize flows from the option into NewReader
	if hs := c.P.Method("wire", "Server", "Handshake"); hs != nil {
		nr := c.P.Func("buffer", "NewReader")
		for _, ci := range c.P.CallSitesOf(nr) {
			fn := ci.Parent()
			if !c.P.InPkg(fn, "wire") {
				continue
			}
			{
				ok := c.originPath(ci.Common().Args[2], fn, 3) == "Server.BufferedMsgSize"
				R.Check(ok, "C10.R2", fkey(fn)+":configured-limit", c.at(ci), "readers are built with the configured message buffer size", "NewReader(.., Server.BufferedMsgSize)", "NewReader does not receive Server.BufferedMsgSize")
			}
		}
	}

	// ---------- R3: what is skipped
	h, _ := c.exceededRecovery()
	if h == nil {
		R.Fail("C10.R3", "anchor:recovery", "-", "a function of package wire skips a rejected body with Reader.Slurp", "no Slurp call found in package wire outside the COPY readers")
	}
	if h != nil {
		R.Analysed(fname(h))
		n := 0
		for _, ci := range core.Calls(h) {
			if !isReaderMethod(ci, "Slurp") {
				continue
			}
			n++
			amount := ci.Common().Args[1]
			// the size may be handed in by the only caller of the recovery step
			for depth := 0; depth < 3; depth++ {
				prm, isP := core.Strip(amount).(*ssa.Parameter)
				if !isP {
					break
				}
				a, _ := c.callerArg(prm)
				if a == nil {
					break
				}
				amount = a
			}
			root, p := pathOf(amount)
			okSrc := false
			if p == ".Size" {
				if a, isAlloc := root.(*ssa.Alloc); isAlloc {
					for _, r := range core.Referrers(a) {
						if st, ok := r.(*ssa.Store); ok {
							if ex, ok := st.Val.(*ssa.Extract); ok {
								if call, ok := ex.Tuple.(*ssa.Call); ok && core.FuncIs(core.StaticCallee(call), pkBuffer, "UnwrapMessageSizeExceeded") {
									okSrc = true
								}
							}
						}
					}
				}
				if ex, ok := root.(*ssa.Extract); ok {
					if call, ok := ex.Tuple.(*ssa.Call); ok && core.FuncIs(core.StaticCallee(call), pkBuffer, "UnwrapMessageSizeExceeded") {
						okSrc = true
					}
				}
			}
			R.Check(okSrc, "C10.R3", "recovery:skips-declared-size", c.at(ci), "exactly the rejected body size is skipped", "Slurp(unwrapped.Size) of the error being handled", "the amount skipped is not the Size recorded in the size-exceeded error")
		}
		R.Floor("C10.R3", "Slurp calls in the recovery step", n, 1)
	}
	if nmse != nil {
		ok := false
		for _, b := range nmse.Blocks {
			for _, in := range b.Instrs {
				if st, isSt := in.(*ssa.Store); isSt {
					if fr, isF := core.FieldOfAddr(st.Addr); isF && fr.Name == "Size" {
						// the size parameter: the one that does not receive the limit at the call sites
						if p, isP := st.Val.(*ssa.Parameter); isP {
							isLimit := false
							for _, a := range c.argsOfParam(p) {
								if fr2, isF2 := core.FieldOfValue(core.Strip(a.v)); isF2 && fr2.Name == "MaxMessageSize" {
									isLimit = true
								}
							}
							if !isLimit && len(c.argsOfParam(p)) > 0 {
								ok = true
							}
						}
					}
				}
			}
		}
		R.Check(ok, "C10.R3", "NewMessageSizeExceeded:size-field", c.atFn(nmse), "the error's Size field is the size it was constructed with", "Size = size parameter", "MessageSizeExceeded.Size is not the constructor's size argument")
		// code and severity
		okCode := false
		for _, r := range returns(nmse) {
			code, okc := c.codeOfErr(r.Results[0])
			sev := ""
			if call, isCall := core.Strip(r.Results[0]).(*ssa.Call); isCall && core.StaticCallee(call) != nil && core.StaticCallee(call).Name() == "WithSeverity" {
				sev, _ = core.ConstString(call.Call.Args[1])
			}
			okCode = okc && code == "54000" && sev == "ERROR"
			R.Check(okCode, "C10.R4", "NewMessageSizeExceeded:54000-ERROR", c.at(r), "the error is a non-fatal program_limit_exceeded (SQLSTATE 54000, severity ERROR)", "code "+code+", severity "+sev, "code '"+code+"' severity '"+sev+"' (expected 54000 / ERROR)")
		}
	}
	c.c10Slurp()
	c.c10EverySessionRead()
	c.c10NoArmedDeadline()

	// ---------- R4: order on the exceeded arm
	if csc := c.mustMethod("C10.R4", "wire", "Session", "consumeSingleCommand"); csc != nil {
		tc := newTraceClient(c, exceededRule{c})
		ts := core.NewTS(c.P, tc)
		ts.Relevant = c.reachesEvents()
		if hc := c.P.Method("wire", "Session", "handleCommand"); hc != nil {
			ts.Opaque[hc] = true
		}
		before := len(R.Obls)
		outs := ts.Run(csc, joinState("", "start"), core.TSEnv{})
		ready := false
		for _, o := range outs {
			if _, q := splitState(o.S); q == "ready" && o.Err == core.KNil {
				ready = true
			}
		}
		R.Check(ready && tc.Events["SLURP"] > 0, "C10.R4", "consumeSingleCommand:recovers", c.atFn(csc), "after an oversized message the iteration ends without error in the state skip -> ErrorResponse -> ReadyForQuery, so the following message is processed normally", sprintf("exits %v", outs), "no path skips, reports and returns nil: the session does not recover from an oversized message")
		if len(R.Obls) == before+1 {
			R.OK("C10.R4", "consumeSingleCommand:exceeded-arm-order", c.atFn(csc), "on every path: the body is skipped before the ErrorResponse, which is followed by ReadyForQuery", sprintf("%d states explored", ts.States))
		}
	}
	// ---------- R4: what is reported is the size error itself (it carries 54000 / ERROR by the constructor rule)
	if h, slurpSite := c.exceededRecovery(); h != nil {
		resolve := func(v ssa.Value) ssa.Value {
			for depth := 0; depth < 4; depth++ {
				v = core.Strip(v)
				if mi, ok := v.(*ssa.MakeInterface); ok {
					v = mi.X
					continue
				}
				if prm, ok := v.(*ssa.Parameter); ok {
					if a, _ := c.callerArg(prm); a != nil {
						v = a
						continue
					}
				}
				break
			}
			return v
		}
		// the error that was recognised as size-exceeded: the operand of UnwrapMessageSizeExceeded / errors.Is(.., ErrMessageSizeExceeded)
		var handled []ssa.Value
		fns := []*ssa.Function{h}
		if site := c.onlyCaller(h); site != nil {
			fns = append(fns, site.Parent())
		}
		for _, fn := range fns {
			for _, ci := range core.Calls(fn) {
				callee := core.StaticCallee(ci)
				if core.FuncIs(callee, pkBuffer, "UnwrapMessageSizeExceeded") || (core.FuncIs(callee, "errors", "Is") && len(ci.Common().Args) == 2) {
					if core.FuncIs(callee, "errors", "Is") {
						u, isLoad := core.Strip(ci.Common().Args[1]).(*ssa.UnOp)
						if !isLoad {
							continue
						}
						if g, isG := u.X.(*ssa.Global); !isG || g.Name() != "ErrMessageSizeExceeded" {
							continue
						}
					}
					handled = append(handled, resolve(ci.Common().Args[0]))
				}
			}
		}
		emit := c.errorEmitter()
		ec := c.P.Func("wire", "ErrorCode")
		n := 0
		for _, ci := range core.Calls(h) {
			callee := core.StaticCallee(ci)
			if callee == nil || (callee != emit && callee != ec) || len(ci.Common().Args) < 2 || !core.InstrDominates(slurpSite, ci) {
				continue // only the report that follows the skip
			}
			n++
			v := ci.Common().Args[1]
			// further decoration keeps the code: With*(err, ..) wraps err
			for depth := 0; depth < 6; depth++ {
				call, isCall := core.Strip(v).(*ssa.Call)
				if !isCall {
					break
				}
				d := core.StaticCallee(call)
				if d == nil || !c.P.InPkg(d, "errors") || !strings.HasPrefix(d.Name(), "With") || len(call.Call.Args) < 1 {
					break
				}
				v = call.Call.Args[0]
			}
			root := resolve(v)
			ok := false
			for _, hv := range handled {
				if hv == root {
					ok = true
				}
			}
			R.Check(ok, "C10.R4", "recovery:reports-the-size-error", c.at(ci), "the ErrorResponse of an oversized message is built from the size error itself (SQLSTATE 54000, severity ERROR by its constructor), possibly decorated further", "the reported error is (a With* decoration of) the error recognised as size-exceeded", "the error handed to the ErrorResponse is not the recognised size error (e.g. the unwrapped inner value, which carries no code): the client receives XXUUU instead of 54000")
		}
		R.Floor("C10.R4", "error reports in the recovery step", n, 1)
	}
	// ---------- R5
	if h, _ := c.exceededRecovery(); h != nil {
		var who []string
		ok := true
		csc := c.P.Method("wire", "Session", "consumeSingleCommand")
		if csc != nil && h == csc {
			who = append(who, "the command loop itself")
		} else {
			for _, site := range c.P.CallSitesOf(h) {
				who = append(who, fkey(site.Parent()))
				if csc == nil || site.Parent() != csc {
					ok = false
				}
			}
		}
		R.Check(ok && len(who) > 0, "C10.R5", "recovery:only-in-command-loop", c.atFn(h), "recovery from an oversized message happens only inside an established session; during start-up and authentication the error ends the connection", sprintf("callers %v", who), sprintf("callers %v: an oversized start-up / authentication message would be skipped and the connection kept", who))
	}
	c.c03ErrorEdges()
	for _, o := range R.Obls {
		if o.Rule == "C03.R5" {
			o.Rule = "C10.R5"
			o.Key = "C10.R5" + o.Key[len("C03.R5"):]
		}
	}
}

func canonLE(x, y core.Term, k int64) string { return sprintf("%s - %s <= %d", x, y, k) }

// canon renders a branch condition (with polarity) as a canonical difference constraint "x - y <= k".
func (c *Ctx) canon(l *core.Lin, cond ssa.Value, truth bool) string {
	b, ok := cond.(*ssa.BinOp)
	if !ok {
		return "non-comparison"
	}
	x, xo := l.Expr(b.X)
	y, yo := l.Expr(b.Y)
	op := b.Op
	if !truth {
		switch op {
		case token.LSS:
			op = token.GEQ
		case token.LEQ:
			op = token.GTR
		case token.GTR:
			op = token.LEQ
		case token.GEQ:
			op = token.LSS
		default:
			return "equality"
		}
	}
	switch op {
	case token.LSS:
		return canonLE(x, y, yo-xo-1)
	case token.LEQ:
		return canonLE(x, y, yo-xo)
	case token.GTR:
		return canonLE(y, x, xo-yo-1)
	case token.GEQ:
		return canonLE(y, x, xo-yo)
	}
	return "equality"
}

func (c *Ctx) sizeIsHeaderMinus4(rule string) {
	R := c.R
	rum := c.mustMethod(rule, "buffer", "Reader", "ReadUntypedMsg")
	if rum == nil {
		return
	}
	_, f0, outerSize, okAcc := c.acceptStep(rum)
	if !okAcc {
		R.Fail(rule, "ReadMsgSize:size-is-unsigned-header-minus-4", c.atFn(rum), "the body size is the unsigned 32-bit header minus 4", "the reset + ReadFull step of ReadUntypedMsg was not found")
		return
	}
	fl := []fill{f0}
	l := core.NewLin(c.P, rum, c.modSets(), c.summaries(rule))
	R.Check(c.headerSizeExpr(l, outerSize, 0), rule, "ReadMsgSize:size-is-unsigned-header-minus-4", c.at(fl[0].site), "the body size is the unsigned 32-bit header minus 4: declared lengths 0..3 become negative (rejected), large lengths are never wrapped or truncated", "E-LIN normal form: Uint32(header[:]) - 4 through value-preserving conversions", "the size is not Uint32(header) - 4 through value-preserving conversions: huge declared lengths wrap (e.g. become negative and skip nothing)")
}

// c10Slurp: chunked skipping.
func (c *Ctx) slurpExact(rule string) {
	R := c.R
	sl := c.mustMethod(rule, "buffer", "Reader", "Slurp")
	if sl == nil {
		return
	}
	R.Analysed(fname(sl))
	loops := core.Loops(sl)
	if len(loops) != 1 {
		R.Fail(rule, "Slurp:loop", c.atFn(sl), "Slurp skips in a loop", sprintf("%d loops", len(loops)))
		return
	}
	var loop *core.Loop
	for _, l := range loops {
		loop = l
	}
	h := loop.Header
	// the bytes still to skip: a counter initialised from the size parameter and counted down (remaining), or a
	// counter initialised to 0 and counted up to size (remaining = size - counter)
	var rem *ssa.Phi
	countUp := false
	for _, in := range h.Instrs {
		if ph, ok := in.(*ssa.Phi); ok {
			for _, e := range ph.Edges {
				if e == ssa.Value(sl.Params[1]) {
					rem = ph
				}
			}
		}
	}
	if rem == nil {
		for _, in := range h.Instrs {
			if ph, ok := in.(*ssa.Phi); ok {
				for i, e := range ph.Edges {
					if k, isK := core.ConstInt(e); isK && k == 0 && !loop.Body[h.Preds[i]] {
						rem, countUp = ph, true
					}
				}
			}
		}
	}
	if rem == nil {
		R.Fail(rule, "Slurp:remaining", c.at(h.Instrs[0]), "Slurp tracks the bytes still to skip, starting from its argument", "no loop variable initialised from the size parameter (or from 0 and compared with it)")
		return
	}
	sizeT := core.Term{K: core.TVal, V: sl.Params[1]}
	remT := core.Term{K: core.TVal, V: rem}
	// guard: remaining > 0
	okGuard := false
	if iff, ok := h.Instrs[len(h.Instrs)-1].(*ssa.If); ok {
		l := core.NewLin(c.P, sl, c.modSets(), c.summaries(rule))
		want := canonLE(core.Zero, remT, -1)
		if countUp {
			want = canonLE(remT, sizeT, -1) // counter < size
		}
		if c.canon(l, iff.Cond, true) == want && loop.Body[h.Succs[0]] {
			okGuard = true
		}
	}
	R.Check(okGuard, rule, "Slurp:loops-while-remaining", c.at(h.Instrs[len(h.Instrs)-1]), "Slurp continues exactly while bytes remain (remaining > 0)", "header condition 0 - remaining <= -1 (or counter - size <= -1) enters the body", "the loop condition is not remaining > 0")
	// decrement by the bytes read
	okDec := false
	var sf *fill
	for _, f := range c.fills(sl) {
		if loop.Body[f.site.Block()] {
			ff := f
			sf = &ff
		}
	}
	for i, e := range rem.Edges {
		if !loop.Body[h.Preds[i]] {
			continue
		}
		if upd, ok := e.(*ssa.BinOp); ok && sf != nil {
			if !countUp && upd.Op == token.SUB && upd.X == ssa.Value(rem) && upd.Y == sf.n {
				okDec = true
			}
			if countUp && upd.Op == token.ADD && ((upd.X == ssa.Value(rem) && upd.Y == sf.n) || (upd.Y == ssa.Value(rem) && upd.X == sf.n)) {
				okDec = true
			}
		}
	}
	R.Check(okDec, rule, "Slurp:subtracts-bytes-read", c.at(h.Instrs[0]), "each iteration accounts for exactly the number of bytes io.ReadFull consumed", "remaining = remaining - n (or counter = counter + n) with n the ReadFull result", "the loop variable is not updated by the ReadFull byte count")
	// the term that stands for the bytes still to skip inside the loop body
	remaining := remT
	if countUp {
		found := false
		for b := range loop.Body {
			for _, in := range b.Instrs {
				if sub, ok := in.(*ssa.BinOp); ok && sub.Op == token.SUB && sub.X == ssa.Value(sl.Params[1]) && sub.Y == ssa.Value(rem) {
					remaining, found = core.Term{K: core.TVal, V: sub}, true
				}
			}
		}
		if !found {
			R.Fail(rule, "Slurp:chunk-bounds", c.at(h.Instrs[0]), "each chunk is between 1 and min(remaining, limit) bytes", "the loop does not compute size - counter: the relation between the chunk and the bytes that remain is undecided")
			return
		}
	}
	// chunk <= limit and <= remaining: lifted preconditions of reset are proved by C04.R2 / panicFreedom; here: chunk <= remaining
	if sf != nil {
		for _, ci := range []ssa.Instruction{sf.site} {
			l := core.NewLin(c.P, sl, c.modSets(), c.summaries(rule))
			arg := sf.size
			t, off := l.Expr(arg)
			okRem := l.Prove(ci, t, remaining, -off)
			okMax := false
			for _, m := range maxTerms(l) {
				if l.Prove(ci, t, m, -off) {
					okMax = true
				}
			}
			okPos := l.Prove(ci, core.Zero, t, off-1)
			R.Check(okRem && okMax && okPos, rule, "Slurp:chunk-bounds", c.at(ci), "each chunk is between 1 and min(remaining, limit) bytes: the skip never buffers more than the limit and never over-reads into the next message", "E-LIN: 1 <= chunk <= remaining and chunk <= MaxMessageSize", sprintf("chunk <= remaining: %v, chunk <= limit: %v, chunk >= 1: %v", okRem, okMax, okPos))
		}
	}
	// what was skipped is gone: when Slurp returns successfully the message window is empty, so nothing of the skipped
	// body can be taken for data by whoever reads next (the COPY row reader decodes a non-empty window)
	{
		l := core.NewLin(c.P, sl, c.modSets(), c.summaries(rule))
		n, okAll := 0, true
		for ret, snap := range l.FM.AtReturn {
			cls := c.Err().Classify(errOperand(ret), ret.Block())
			if !cls.MayBeNil() {
				continue
			}
			found := false
			for key, mv := range snap {
				if !strings.HasSuffix(key, ".Msg") {
					continue
				}
				found = true
				n++
				var lt core.Term
				if mv.Kind == core.MStore {
					lt = l.LenOf(mv.Val)
				} else {
					lt = core.Term{K: core.TLen, M: mv}
				}
				if !l.Prove(ret, lt, core.Zero, 0) {
					okAll = false
					if os.Getenv("PWV_LINDEBUG") != "" {
						fmt.Fprintf(os.Stderr, "slurp-empty: key=%s kind=%v term=%s\n", key, mv.Kind, lt)
					}
				}
			}
			if !found {
				// the window is not touched directly in Slurp (the fill lives in a helper): the last call that can change
				// it before this return is reset(0)
				okTail := false
				resetFn := c.P.Method("buffer", "Reader", "reset")
				blk := ret.Block()
				for i := len(blk.Instrs) - 1; i >= 0; i-- {
					ci, isCall := blk.Instrs[i].(ssa.CallInstruction)
					if !isCall {
						continue
					}
					if core.StaticCallee(ci) == resetFn {
						if k, isK := core.ConstInt(ci.Common().Args[1]); isK && k == 0 {
							okTail = true
						}
						break
					}
					if c.modSets().MayModify(ci, "Reader", "Msg") {
						break
					}
				}
				if okTail {
					n++
				} else {
					okAll = false
				}
			}
		}
		R.Check(okAll && n > 0, rule, "Slurp:leaves-empty-window", c.atFn(sl), "after a message was skipped nothing of it remains in the message window", sprintf("len(Msg) == 0 proved at %d successful return(s) (E-LIN with the verified reset summary)", n), "Slurp can return successfully with the last skipped chunk still in the window: a reader that decodes a non-empty window before fetching (BinaryCopyReader.Read) takes skipped bytes for data")
	}

}

func (c *Ctx) c10Slurp() { c.slurpExact("C10.R3") }

// c10EverySessionRead (R6): a declared size above the limit leaves the message body unread in the stream. Every place of
// the session phase that reads a message frame (ReadTypedMsg / ReadUntypedMsg outside pkg/buffer, reachable from the
// command loop) must therefore skip the body on that error before the error leaves the library - otherwise the body is
// parsed as the next messages. The start-up phase ends the connection instead (decided by R5 / C01).
func (c *Ctx) c10EverySessionRead() {
	R := c.R
	slurp := c.P.Method("buffer", "Reader", "Slurp")
	cc := c.P.Method("wire", "Session", "consumeCommands")
	if slurp == nil || cc == nil {
		R.Fail("C10.R6", "anchor", "-", "Reader.Slurp and the command loop resolve", "anchor not found")
		return
	}
	// session phase: what the command loop reaches through static calls, plus the COPY readers (called by statement
	// functions). Frame reads anywhere else must belong to the start-up phase.
	session := map[*ssa.Function]bool{}
	var walk func(fn *ssa.Function)
	walk = func(fn *ssa.Function) {
		if fn == nil || session[fn] || !c.P.InScope(fn) {
			return
		}
		session[fn] = true
		for _, ci := range core.Calls(fn) {
			walk(core.StaticCallee(ci))
		}
		for _, a := range fn.AnonFuncs {
			walk(a)
		}
	}
	walk(cc)
	for _, fn := range c.P.ScopeFuncs() {
		if fn.Signature.Recv() != nil {
			if n := core.NamedOf(fn.Signature.Recv().Type()); n != nil && (n.Obj().Name() == "CopyReader" || n.Obj().Name() == "BinaryCopyReader") {
				walk(fn)
			}
		}
	}
	// start-up phase: serve's region before the command loop, and whatever the authentication strategies reach
	startup := map[*ssa.Function]bool{}
	for fn := range c.serveRegion() {
		startup[fn] = true
	}
	var walkS func(fn *ssa.Function)
	walkS = func(fn *ssa.Function) {
		if fn == nil || startup[fn] || session[fn] || !c.P.InScope(fn) {
			return
		}
		startup[fn] = true
		for _, ci := range core.Calls(fn) {
			walkS(core.StaticCallee(ci))
		}
		for _, a := range fn.AnonFuncs {
			walkS(a)
		}
	}
	if as := c.P.Named("wire", "AuthStrategy"); as != nil {
		for _, fn := range c.P.ScopeFuncs() {
			if types.Identical(fn.Signature, as.Underlying()) {
				walkS(fn)
			}
		}
	}
	for _, fn := range c.P.ScopeFuncs() {
		if session[fn] || c.P.InPkg(fn, "buffer") {
			continue
		}
		for _, ci := range core.Calls(fn) {
			if isReaderMethod(ci, "ReadTypedMsg") || isReaderMethod(ci, "ReadUntypedMsg") {
				R.Check(startup[fn], "C10.R6", fkey(fn)+":frame-read-phase", c.at(ci), "every frame read outside the session phase belongs to the start-up phase (where an oversized message ends the connection)", "function of the start-up region / authentication strategy", "a frame read in "+fname(fn)+" belongs neither to the session phase nor to start-up: undecided")
			}
		}
	}
	var reachesSlurp func(fn *ssa.Function, depth int) bool
	reachesSlurp = func(fn *ssa.Function, depth int) bool {
		if fn == slurp {
			return true
		}
		if fn == nil || depth == 0 || fn.Blocks == nil || !c.P.InScope(fn) {
			return false
		}
		for _, ci := range core.Calls(fn) {
			if reachesSlurp(core.StaticCallee(ci), depth-1) {
				return true
			}
		}
		return false
	}
	// the frame reader may skip the rejected body itself; then its callers must not skip it a second time
	selfSkip := map[string]bool{}
	for _, name := range []string{"ReadTypedMsg", "ReadUntypedMsg"} {
		if fr := c.P.Method("buffer", "Reader", name); fr != nil {
			selfSkip[name] = reachesSlurp(fr, 3)
		}
	}
	n := 0
	for fn := range session {
		if c.P.InPkg(fn, "buffer") {
			continue
		}
		for _, ci := range core.Calls(fn) {
			call, ok := ci.(*ssa.Call)
			if !ok || !(isReaderMethod(call, "ReadTypedMsg") || isReaderMethod(call, "ReadUntypedMsg")) {
				continue
			}
			n++
			inside := selfSkip[readerMethod(call)]
			skips := false
			errv := errResultOf(call)
			fes := failEdges(errv)
			// edges on which the error was recognised as size-exceeded: errors.Is / errors.As / UnwrapMessageSizeExceeded on it
			for _, other := range core.Calls(fn) {
				oc, isCall := other.(*ssa.Call)
				if !isCall || len(oc.Call.Args) == 0 || !c.sameErr(oc.Call.Args[0], errv) {
					continue
				}
				if f := core.StaticCallee(oc); f != nil && (core.FuncIs(f, "errors", "Is") || core.FuncIs(f, "errors", "As")) {
					fes = append(fes, boolEdges(oc, true)...)
				}
				if f := core.StaticCallee(oc); f != nil && f.Name() == "UnwrapMessageSizeExceeded" {
					fes = append(fes, boolEdges(resultOf(oc, 1), true)...)
				}
			}
			for _, b := range fn.Blocks {
				for _, in := range b.Instrs {
					inner, isCall := in.(ssa.CallInstruction)
					if !isCall || !reachesSlurp(core.StaticCallee(inner), 3) {
						continue
					}
					if anyDominates(fes, b) {
						skips = true
					}
				}
			}
			if inside && skips {
				R.Fail("C10.R6", fkey(fn)+":oversized-skipped:"+callDescr(call), c.at(call), "wherever the session reads a message frame, a message above the limit is skipped in full, once, before its error is reported", "the frame reader skips the rejected body itself and "+fname(fn)+" skips it again on the failure edge: an oversized message is consumed at twice its declared length and the messages behind it are swallowed")
				continue
			}
			R.Check(skips || inside, "C10.R6", fkey(fn)+":oversized-skipped:"+callDescr(call), c.at(call), "wherever the session reads a message frame, a message above the limit is skipped in full, once, before its error is reported (the next message is then processed normally)", sprintf("Reader.Slurp on the failure edge of the frame read: %v; inside the frame reader: %v", skips, inside), "the frame read in "+fname(fn)+" passes the size-exceeded error on without skipping the unread body: the body bytes are parsed as the following messages")
		}
	}
	R.Floor("C10.R6", "session-phase frame reads outside pkg/buffer", n, 2)
}

// sameErr reports whether a is error value v, possibly through phis / conversions.
func (c *Ctx) sameErr(a, v ssa.Value) bool {
	if a == v {
		return true
	}
	for _, r := range core.ErrRoots(a) {
		if call, ok := r.(*ssa.Call); ok {
			if ex, ok2 := v.(*ssa.Extract); ok2 && ex.Tuple == ssa.Value(call) {
				return true
			}
			if v == ssa.Value(call) {
				return true
			}
		}
	}
	return false
}

// c10NoArmedDeadline (R4): recovering from an oversized message leaves the connection as it was: a read / write
// deadline armed on the connection in the session phase is disarmed again (SetXDeadline(time.Time{})) on every path
// to a return - otherwise the message after the skipped one is processed normally only if it arrives in time.
func (c *Ctx) c10NoArmedDeadline() {
	R := c.R
	isDeadline := func(ci ssa.CallInstruction) (armed, ok bool) {
		cc := ci.Common()
		if !cc.IsInvoke() || !strings.HasPrefix(cc.Method.Name(), "Set") || !strings.HasSuffix(cc.Method.Name(), "Deadline") {
			return false, false
		}
		if !core.IsNamed(cc.Value.Type(), "net", "Conn") {
			return false, false
		}
		arg := cc.Args[0]
		if k, isConst := arg.(*ssa.Const); isConst && k.Value == nil {
			return false, true // the zero time.Time: disarm
		}
		if u, isLoad := arg.(*ssa.UnOp); isLoad {
			if a, isAlloc := u.X.(*ssa.Alloc); isAlloc {
				stored := false
				for _, r := range core.Referrers(a) {
					if _, isStore := r.(*ssa.Store); isStore {
						stored = true
					}
				}
				if !stored {
					return false, true // var zero time.Time
				}
			}
		}
		return true, true
	}
	n := 0
	for fn := range c.connectionScope() {
		if !c.P.InPkg(fn, "wire") {
			continue
		}
		for _, ci := range core.Calls(fn) {
			armed, ok := isDeadline(ci)
			if !ok || !armed {
				continue
			}
			n++
			disarmBlocks := map[*ssa.BasicBlock]bool{}
			for _, other := range core.Calls(fn) {
				if a, ok := isDeadline(other); ok && !a && other.Common().Method.Name() == ci.Common().Method.Name() {
					disarmBlocks[other.Block()] = true
				}
			}
			left := false
			seen := map[*ssa.BasicBlock]bool{}
			var walk func(b *ssa.BasicBlock, first bool)
			walk = func(b *ssa.BasicBlock, first bool) {
				if seen[b] || (!first && disarmBlocks[b]) {
					return
				}
				seen[b] = true
				if _, isRet := b.Instrs[len(b.Instrs)-1].(*ssa.Return); isRet {
					left = true
				}
				for _, s := range b.Succs {
					walk(s, false)
				}
			}
			walk(ci.Block(), true)
			R.Check(!left, "C10.R4", fkey(fn)+":deadline-left-armed:"+ci.Common().Method.Name(), c.at(ci), "a deadline armed on the connection while serving a message is disarmed before the function returns", "every path to a return passes the matching Set*Deadline(time.Time{})", "a connection deadline is armed and a return is reachable without disarming it: the messages after this one are processed normally only if they arrive before the deadline (afterwards every read fails and the connection is dropped)")
		}
	}
	R.Count("deadline_arming_sites", n)
}
