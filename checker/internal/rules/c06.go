package rules

import (
	"go/constant"
	"go/types"
	"regexp"
	"sort"
	"strings"

	"golang.org/x/tools/go/ssa"

	"pwv/internal/core"
)

func init() { Registry["C06"] = runC06 }

// A reply pattern is a sequence of elements; each element is a set of alternative events, optionally skippable.
type patElem struct {
	alts []string
	opt  bool
}

func pe(alts ...string) patElem  { return patElem{alts: alts} }
func opt(alts ...string) patElem { return patElem{alts: alts, opt: true} }

// designated replies per client message (frozen oracle: PostgreSQL protocol flow, extended query).
// Several patterns = alternatives (Describe has a statement and a portal variant).
var designated = map[byte][][]patElem{
	'P': {{pe("CB:parse"), pe("CACHE:StatementCache.Set"), pe("M:1")}},
	'B': {{pe("CACHE:StatementCache.Get"), pe("CACHE:PortalCache.Bind"), pe("M:2")}},
	'D': {
		{pe("CACHE:StatementCache.Get"), pe("M:t"), pe("M:T", "M:n")},
		{pe("CACHE:PortalCache.Get"), pe("M:T", "M:n")},
	},
	'E': {{pe("CACHE:PortalCache.Execute"), pe("CB:stmt")}},
	'C': {{pe("M:3")}},
	'H': {{}},
	'S': {{pe("M:Z")}},
	'd': {{}},
	'c': {{}},
	'f': {{}},
	'X': {{opt("CB:terminate"), pe("CLOSE")}},
}

var armNames = map[byte]string{'P': "Parse", 'B': "Bind", 'D': "Describe", 'E': "Execute", 'C': "Close", 'H': "Flush", 'S': "Sync", 'd': "CopyData", 'c': "CopyDone", 'f': "CopyFail", 'X': "Terminate", 'Q': "Query", 'p': "Password", 0x7f: "other"}

type armRule struct {
	c    *Ctx
	arm  byte
	pats [][]patElem
	// known-finding style reports are keyed by the ErrorCode call site of the arm
}

// state encoding: "ok:<p>.<i>,<p>.<i>" live pattern positions | "mustE" | "E" | "EZ" | "bad"
func (r *armRule) initState() string {
	var live []string
	for p := range r.pats {
		live = append(live, r.closure(p, 0)...)
	}
	return "ok:" + strings.Join(uniq(live), ",")
}

func uniq(xs []string) []string {
	sort.Strings(xs)
	var out []string
	for i, x := range xs {
		if i == 0 || xs[i-1] != x {
			out = append(out, x)
		}
	}
	return out
}

// closure returns position (p,i) plus the positions reachable by skipping optional elements.
func (r *armRule) closure(p, i int) []string {
	out := []string{pos(p, i)}
	for i < len(r.pats[p]) && r.pats[p][i].opt {
		i++
		out = append(out, pos(p, i))
	}
	return out
}

func pos(p, i int) string { return string(rune('a'+p)) + "." + string(rune('0'+i)) }

func (r *armRule) complete(q string) bool {
	if !strings.HasPrefix(q, "ok:") {
		return false
	}
	for _, l := range strings.Split(q[3:], ",") {
		if l == "" {
			continue
		}
		p, i := int(l[0]-'a'), int(l[2]-'0')
		if i == len(r.pats[p]) {
			return true
		}
	}
	return false
}

// errorCodeSite returns a stable key for the ErrorCode call (if any) on the current call stack.
func (r *armRule) errorCodeSite(x *core.TSCtx) (string, bool) {
	ec := r.c.P.Func("wire", "ErrorCode")
	for _, s := range x.Stack {
		if core.StaticCallee(s) == ec {
			// keyed by the message arm: the defect is in ErrorCode (it appends ReadyForQuery whatever failed), every
			// failing message of the arm shows it; which constructor built the error does not identify a different fault
			return armNames[r.arm] + ":ErrorCode", true
		}
	}
	return "", false
}

// argDescr names an error argument by its origin (position-free).
var fmtVerb = regexp.MustCompile(`%[-+# 0-9.]*[a-zA-Z]`)

func argDescr(v ssa.Value) string {
	var parts []string
	for _, root := range core.ErrRoots(v) {
		switch x := root.(type) {
		case *ssa.Call:
			d := callDescr(x)
			if len(x.Call.Args) > 0 {
				if msg, ok := core.ConstString(x.Call.Args[0]); ok { // errors.New("unknown portal")
					msg = fmtVerb.ReplaceAllString(msg, "") // the text identifies the site, not how operands are formatted
					msg = strings.TrimRight(msg, " :")
					if len(msg) > 28 {
						msg = msg[:28]
					}
					d += "(" + strings.Map(func(r rune) rune {
						if r == ' ' {
							return '_'
						}
						if (r >= 'a' && r <= 'z') || (r >= 'A' && r <= 'Z') || (r >= '0' && r <= '9') {
							return r
						}
						return -1
					}, msg) + ")"
				}
			}
			parts = append(parts, d)
		case *ssa.Parameter:
			parts = append(parts, "param."+x.Name())
		case *ssa.MakeInterface:
			parts = append(parts, "new-error")
		default:
			parts = append(parts, "value")
		}
	}
	return strings.Join(uniq(parts), "|")
}

func (r *armRule) step(tc *traceClient, x *core.TSCtx, site ssa.Instruction, q, ev string) string {
	if ev == "READ" {
		return q
	}
	arm := armNames[r.arm]
	if r.arm == 'Q' { // the simple Query cycle is decided by C05
		return q
	}
	bad := func(construct, why string) string {
		tc.fail("C06.R1", x, site, arm+":"+construct, "a "+arm+" message receives exactly its designated reply", why)
		return q
	}
	if strings.HasPrefix(ev, "FAIL:") {
		if q == "E" || q == "EZ" {
			return q
		}
		return "mustE"
	}
	if strings.HasPrefix(q, "drop:") {
		if ev == "M:E" {
			return "E"
		}
		return bad(ev+"-after-failure", "after a failed step ("+q+") the next event must be the ErrorResponse, got "+ev)
	}
	switch {
	case q == "mustE":
		if ev == "M:E" {
			return "E"
		}
		return bad(ev+"-after-failure", "a failing step must be answered by an ErrorResponse next, got "+ev)
	case q == "E":
		if ev == "M:Z" {
			if r.arm == 0x7f || r.arm == 'p' {
				return "EZ" // unknown message type: the property does not fix the reply after the ErrorResponse
			}
			key, ok := r.errorCodeSite(x)
			if !ok {
				key = fkey(site.Parent()) + ":direct"
			}
			tc.fail("C06.R1", x, site, key+":ReadyForQuery-outside-Sync", "ReadyForQuery is sent only in reply to Sync (or at the end of a simple Query)", "the ErrorResponse of an extended-protocol message is followed by its own ReadyForQuery: the client sees an extra ReadyForQuery before its Sync is answered")
			return "EZ"
		}
		return bad(ev+"-after-ErrorResponse", "after the ErrorResponse of a failing message nothing else may be emitted or invoked, got "+ev)
	case q == "EZ":
		return bad(ev+"-after-ErrorResponse", "after the ErrorResponse of a failing message nothing else may be emitted or invoked, got "+ev)
	}
	if ev == "M:E" {
		return "E"
	}
	if ev == "M:Z" && r.arm != 'S' {
		return bad("ReadyForQuery", "ReadyForQuery emitted by a message other than Sync")
	}
	// advance the live pattern positions
	var next []string
	for _, l := range strings.Split(strings.TrimPrefix(q, "ok:"), ",") {
		if l == "" {
			continue
		}
		p, i := int(l[0]-'a'), int(l[2]-'0')
		if i < len(r.pats[p]) {
			for _, a := range r.pats[p][i].alts {
				if a == ev {
					next = append(next, r.closure(p, i+1)...)
				}
			}
		}
	}
	if len(next) == 0 {
		return bad(ev+"-unexpected", "event "+ev+" is not the next designated step of "+arm+" (wrong, duplicated or reordered reply)")
	}
	return "ok:" + strings.Join(uniq(next), ",")
}

func (r *armRule) ret(tc *traceClient, x *core.TSCtx, ret *ssa.Return, q string, err core.ErrK) string {
	if r.arm == 'Q' || r.arm == 'X' { // decided by C05 (simple Query cycle) and C19 (Terminate)
		return q
	}
	arm := armNames[r.arm]
	if q == "E" || q == "EZ" || r.complete(q) {
		return q
	}
	if err == core.KNonNil && !strings.HasPrefix(q, "drop:") && q != "mustE" {
		// Judge a non-nil error where it originates: if it is not a transport / malformed-message
		// error it must be turned into an ErrorResponse by some caller before the arm returns.
		org := map[string]bool{}
		for _, root := range core.ErrRoots(errOperand(ret)) {
			if call, ok := root.(*ssa.Call); ok {
				if callee := core.StaticCallee(call); callee != nil && tc.c.reachesEvents()[callee] {
					continue // forwarded from a summarised callee: judged at that callee's return
				}
				if k, ok := x.Known(call); ok && k == core.KNil {
					continue
				}
			}
			if p, ok := root.(*ssa.Parameter); ok {
				if k, ok := x.Known(p); ok && k == core.KNonNil {
					org[oCallback] = true // an error handed in by the caller (already pending)
				}
				continue
			}
			for o := range r.c.errOrigins(root) {
				org[o] = true
			}
		}
		if !onlyConnectionEnding(org) {
			q = "drop:" + fkey(ret.Parent()) + ":" + retDescr(ret) + "{" + originList(org) + "}"
		} else if org[oMalformed] && r.arm != 0x7f && r.arm != 'p' {
			// a well-framed message whose body cannot be decoded: the error is handed up unchanged and the connection is
			// closed without an ErrorResponse (one finding for the whole class, see runC06)
			if r.c.malformedDrop == "" {
				r.c.malformedDrop = tc.c.at(ret) + " (" + arm + ": " + retDescr(ret) + ")"
			}
		}
	}
	if len(x.Stack) != 0 {
		return q // the caller may still answer with an ErrorResponse
	}
	switch {
	case strings.HasPrefix(q, "drop:") || q == "mustE":
		tc.fail("C06.R2", x, ret, arm+":silent-drop:"+strings.TrimPrefix(q, "drop:"), "a failing message produces an ErrorResponse, never silence or a dropped connection", arm+" returns a non-nil error ("+q+") without an ErrorResponse having been sent: the connection is dropped silently")
	case err == core.KNonNil:
		// only transport / malformed-message errors were seen on this path: the connection ends
	default:
		tc.fail("C06.R2", x, ret, arm+":reply-missing:"+retDescr(ret)+"@"+q, "a message that is processed without error receives its designated reply", arm+" can return without error before its designated reply is complete (automaton state "+q+"): the client waits for a reply that never comes")
	}
	return q
}

func clientMessageConsts(c *Ctx) map[string]byte {
	out := map[string]byte{}
	tp := c.P.Scope["types"]
	cm := c.P.Named("types", "ClientMessage")
	for name, m := range tp.Members {
		nc, ok := m.(*ssa.NamedConst)
		if !ok || cm == nil || !types.Identical(nc.Type(), cm) {
			continue
		}
		if v, ok := constant.Int64Val(nc.Value.Value); ok {
			out[name] = byte(v)
		}
	}
	return out
}

func runC06(c *Ctx) {
	R := c.R
	defer c.startResetsFrame("C06.S1")
	R.Technique = "trace automaton per dispatch arm (handleCommand specialised on each ClientMessage constant), default caches resolved through the cache interfaces, error-origin classification"
	R.Explanation = "For every ClientMessage constant, handleCommand is explored with the message type bound to that constant; on every path the event sequence (cache operations, callbacks, backend messages) must match the designated reply of that message from the protocol flow (Parse: parser, cache Set, ParseComplete; Bind: Get, Bind, BindComplete; Describe: Get, [ParameterDescription], RowDescription|NoData; Execute: portal execution, statement; Close: CloseComplete; Flush/Copy*: nothing; Sync: ReadyForQuery), " +
		"a failing step must be followed by exactly one ErrorResponse and nothing else, ReadyForQuery may only be sent by Sync, a non-nil error that is not a transport/malformed-message error may not be returned without an ErrorResponse (silent drop), and a nil return requires the complete designated reply (no silence). Replies leave at Writer.End without buffering (C02.R1), i.e. without waiting for further input. " +
		"Known findings on this tree (listed in known_findings.jsonl, one per ErrorCode call site): ErrorCode appends its own ReadyForQuery in extended arms, and no discard-until-Sync state exists. Not decided: DataRow contents; custom cache implementations."
	R.Assumptions = []string{"StatementCache / PortalCache are the library's default implementations (user caches are out of scope)", "callbacks reach the connection only through the DataWriter"}
	R.Explanation += " (R4) replies are delivered without waiting for further client input: only Writer.End writes to the connection, the session writer wraps the connection returned by Handshake directly (no buffering layer), and nothing outside pkg/buffer touches the writer's sink or frame (rules shared with C02.R1)."
	R.Trusted = []string{"go/types + go/ssa", "designated-reply table from the protocol documentation (internal/rules/c06.go)"}
	// R4: replies are delivered when they are produced - Writer.End writes each message to the connection itself, the
	// session writer wraps the connection directly (no buffering layer, nothing else owns the sink)
	defer c.writeThrough("C06.R4")
	defer c.errorCodeReturnsWriteErrors("C06.R2")
	defer c.include("C06.S3", "C05", []string{"C05.R2"}, "Execute is answered by DataRows and one CommandComplete: the result writer handed to the statement function can emit nothing else (an EmptyQueryResponse from Complete / Empty, say)", 8)
	defer c.include("C06.S2", "C02", []string{"C02.R4"}, "a reply is delivered when its message ends, without waiting for further input: End writes the whole frame to the connection on every successful path", 6)
	R.Exhaustive = true

	hc := c.mustMethod("C06.R1", "wire", "Session", "handleCommand")
	if hc == nil {
		return
	}
	var tparam *ssa.Parameter
	for _, p := range hc.Params {
		if core.IsNamed(p.Type(), pkTypes, "ClientMessage") {
			tparam = p
		}
	}
	if tparam == nil {
		R.Fail("C06.R1", "handleCommand:type-parameter", c.atFn(hc), "handleCommand dispatches on a ClientMessage parameter", "no parameter of type types.ClientMessage")
		return
	}
	consts := clientMessageConsts(c)
	R.Check(len(consts) == 13, "C06.R1", "floor:ClientMessage-constants", "-", "the closed enumeration of client message types has its 13 members", sprintf("%d constants", len(consts)), sprintf("%d ClientMessage constants found (expected 13): the dispatch enumeration changed, the oracle table must be reviewed", len(consts)))
	arms := map[byte]string{0x7f: "other"}
	for name, v := range consts {
		arms[v] = name
	}
	var order []int
	for v := range arms {
		order = append(order, int(v))
	}
	sort.Ints(order)
	for _, vi := range order {
		v := byte(vi)
		pats, ok := designated[v]
		if !ok {
			if v == 'Q' {
				pats = [][]patElem{{}}
			} else {
				pats = [][]patElem{{pe("M:E")}} // Password and unknown types outside authentication: error
			}
		}
		if _, named := armNames[v]; !named {
			armNames[v] = arms[v]
		}
		rule := &armRule{c: c, arm: v, pats: pats}
		tc := newTraceClient(c, rule)
		ts := core.NewTS(c.P, tc)
		ts.Relevant = c.reachesEvents()
		ts.NoMemo = true
		env := core.ConstEnv(tparam, constant.MakeInt64(int64(v)))
		before := len(R.Obls)
		outs := ts.Run(hc, joinState("", rule.initState()), env)
		R.Count("ts_states", ts.States)
		for f := range ts.Funcs {
			R.Analysed(fname(f))
		}
		for _, p := range ts.Problem {
			R.Fail("C06.R1", armNames[v]+":unsupported", c.atFn(hc), "analysable", p)
		}
		if len(R.Obls) == before {
			var states []string
			for _, o := range outs {
				_, q := splitState(o.S)
				states = append(states, q+"/"+o.Err.String())
			}
			R.OK("C06.R1", "arm:"+armNames[v], c.atFn(hc), "every path of the "+armNames[v]+" arm produces the designated reply, or exactly one ErrorResponse, or ends the connection on a transport/malformed-message error", sprintf("explored %d states; exits %v", ts.States, uniq(states)))
		}
	}

	if c.malformedDrop != "" {
		R.Fail("C06.R2", "malformed-body:connection-dropped-without-ErrorResponse", c.malformedDrop, "a failing message produces exactly one ErrorResponse, never silence or a dropped connection", "an extended-protocol message with a correct length whose body cannot be decoded (short, unterminated) makes the accessor's error travel up unchanged: the connection is closed without any ErrorResponse and the following Sync is never answered (first such return: "+c.malformedDrop+")")
	}
	// ---------- R1 (continued): oversized message in a session (cannot know whether it was extended)
	if h, slurp := c.exceededRecovery(); h != nil {
		ec := c.P.Func("wire", "ErrorCode")
		for _, ci := range callsIn(h, calleeIs(ec)) {
			if !core.InstrDominates(slurp, ci) {
				continue
			}
			R.Fail("C06.R1", "SizeExceeded:ErrorCode(size-exceeded-error):ReadyForQuery-outside-Sync", c.at(ci), "ReadyForQuery is sent only in reply to Sync (or at the end of a simple Query)", "an oversized extended-protocol message is answered with ErrorResponse + ReadyForQuery; Parse(oversized) Sync yields E Z Z")
		}
	}

	c.readMessageHandled("C06.R2")
	// ---------- R3: discard-until-Sync state
	c.c06DiscardState(hc)
}

// c06DiscardState looks for a per-session flag that is set on extended-protocol errors, cleared by Sync and
// tested before dispatch.
func (c *Ctx) c06DiscardState(hc *ssa.Function) {
	R := c.R
	sess := c.P.Named("wire", "Session")
	st, _ := sess.Underlying().(*types.Struct)
	found := ""
	if st != nil {
		for i := 0; i < st.NumFields(); i++ {
			f := st.Field(i)
			if b, ok := f.Type().Underlying().(*types.Basic); !ok || b.Kind() != types.Bool {
				continue
			}
			setTrue, setFalse, tested := false, false, false
			for _, fn := range c.P.ScopeFuncs() {
				for _, b := range fn.Blocks {
					for _, in := range b.Instrs {
						switch v := in.(type) {
						case *ssa.Store:
							if fr, ok := core.FieldOfAddr(v.Addr); ok && fr.Is(pkWire, "Session", f.Name()) {
								if cv, ok := v.Val.(*ssa.Const); ok && cv.Value != nil {
									if constant.BoolVal(cv.Value) {
										setTrue = true
									} else {
										setFalse = true
									}
								}
							}
						case *ssa.UnOp:
							if fr, ok := core.FieldOfValue(v); ok && fr.Is(pkWire, "Session", f.Name()) {
								if len(boolEdges(v, true)) > 0 && (fn == hc || fn == c.P.Method("wire", "Session", "consumeSingleCommand")) {
									tested = true
								}
							}
						}
					}
				}
			}
			if setTrue && setFalse && tested {
				found = f.Name()
			}
		}
	}
	R.Check(found != "", "C06.R3", "Session:no-discard-until-sync-state", c.atFn(hc), "after an ErrorResponse in the extended protocol, messages up to the next Sync are discarded without invoking callbacks (a per-session flag set on error, cleared by Sync, tested before dispatch)",
		"flag Session."+found, "no boolean field of Session is set on errors, cleared by Sync and tested before dispatch: later messages of a failed batch are still processed")
}

// errorCodeReturnsWriteErrors: an error reported with ErrorCode is an answer, not the end of the session: ErrorCode (and
// the frame helper below it) hand back only what the writes returned. A result of their own making (io.EOF for a
// FATAL severity, say) makes every caller that reports a recoverable error - unknown statement, unknown portal -
// drop the connection.
func (c *Ctx) errorCodeReturnsWriteErrors(rule string) {
	R := c.R
	fns := []*ssa.Function{c.P.Func("wire", "ErrorCode")}
	if e := c.errorEmitter(); e != nil && e != fns[0] {
		fns = append(fns, e)
	}
	n := 0
	for _, fn := range fns {
		if fn == nil {
			continue
		}
		for _, r := range returns(fn) {
			if r.Block() == fn.Recover {
				continue
			}
			var srcs []ssa.Value
			leaves(errOperand(r), map[ssa.Value]bool{}, &srcs)
			for _, v := range srcs {
				n++
				v = core.Strip(v)
				ok := core.IsNilConst(v)
				if ex, isEx := v.(*ssa.Extract); isEx {
					v = ex.Tuple
				}
				if call, isCall := v.(*ssa.Call); isCall {
					callee := core.StaticCallee(call)
					ok = callee != nil && (c.P.InPkg(callee, "wire") || c.P.InPkg(callee, "buffer")) && !c.P.InPkg(callee, "errors")
				}
				R.Check(ok, rule, fkey(fn)+":returns-only-write-results:"+retDescr(r), c.at(r), "reporting an error to the client succeeds unless the write fails: the reporting function returns nil or the result of a write", "the result is nil or the result of a writer / frame helper call", "the error-reporting function returns a value of its own making (a sentinel such as io.EOF, a constructed error): callers that report a recoverable error - unknown statement or portal - end the session instead of answering")
			}
		}
	}
	R.Floor(rule, "results of the error-reporting functions", n, 3)
}
