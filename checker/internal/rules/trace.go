package rules

import (
	"go/constant"
	"go/token"
	"go/types"
	"golang.org/x/tools/go/ssa/ssautil"
	"strings"
	"sync"

	"golang.org/x/tools/go/ssa"

	"pwv/internal/core"
)

// Session-level client of the trace engine: abstracts every path into a sequence of reply events
// (backend messages at their End, callbacks, cache operations, connection close, reads) and feeds
// them to a rule-supplied automaton.
//
// Events:  "M:<T>" message of type T sent ("M:R0"/"M:R3" for Authentication with a constant code),
//          "CB:<name>" user callback (parse, stmt, session, auth, terminate, validate),
//          "CACHE:<op>" default cache operation resolved from the StatementCache/PortalCache interfaces,
//          "CLOSE" net.Conn.Close, "SLURP" Reader.Slurp, "READ" Reader.ReadTypedMsg/ReadUntypedMsg,
//          "RAW:S"/"RAW:N" single-byte SSL replies.

type traceRule interface {
	// step consumes one event in automaton state q and returns the next state. It reports violations itself.
	step(tc *traceClient, x *core.TSCtx, site ssa.Instruction, q, ev string) string
	// ret is called for every return of the root function and of summarised callees (depth = len(x.Stack));
	// it returns the automaton state handed back to the caller.
	ret(tc *traceClient, x *core.TSCtx, r *ssa.Return, q string, err core.ErrK) string
}

type traceClient struct {
	c    *Ctx
	rule traceRule
	// resolveCaches: apply the default cache implementations at StatementCache / PortalCache invokes.
	resolveCaches bool
	// opaqueCallbacks lists callback events after which the error result is unknown (always).
	seen   map[string]bool
	Events map[string]int
}

func newTraceClient(c *Ctx, r traceRule) *traceClient {
	return &traceClient{c: c, rule: r, resolveCaches: true, seen: map[string]bool{}, Events: map[string]int{}}
}

func splitState(s string) (open, q string) {
	i := strings.IndexByte(s, '|')
	if i < 0 {
		return "", s
	}
	return s[:i], s[i+1:]
}

func joinState(open, q string) string { return open + "|" + q }

func (tc *traceClient) fail(rule string, x *core.TSCtx, in ssa.Instruction, construct, desc, detail string) {
	key := construct
	if tc.seen[rule+key+detail] {
		return
	}
	tc.seen[rule+key+detail] = true
	tc.c.R.Fail(rule, key, tc.c.at(in), desc, detail, x.Trail(10)...)
}

// callbackName classifies dynamic calls into callback events.
func callbackName(ci ssa.CallInstruction) string {
	cc := ci.Common()
	if cc.IsInvoke() {
		return ""
	}
	if core.StaticCallee(ci) != nil {
		return ""
	}
	if _, ok := cc.Value.(*ssa.Builtin); ok {
		return ""
	}
	if core.IsNamed(cc.Value.Type(), "context", "CancelFunc") {
		return "" // the cancel function of a derived context is not a user callback
	}
	if fr, ok := core.FieldOfValue(cc.Value); ok && fr.Struct != nil && fr.Struct.Obj().Pkg() != nil && fr.Struct.Obj().Pkg().Path() == pkWire {
		switch fr.Struct.Obj().Name() + "." + fr.Name {
		case "Server.parse":
			return "parse"
		case "PreparedStatement.fn", "Statement.fn":
			return "stmt"
		case "Server.Session":
			return "session"
		case "Server.Auth":
			return "auth"
		case "Server.TerminateConn":
			return "terminate"
		case "Server.CloseConn":
			return "closeconn"
		case "Server.Statements":
			return "newStatementCache"
		case "Server.Portals":
			return "newPortalCache"
		}
		return "field:" + fr.Struct.Obj().Name() + "." + fr.Name
	}
	if isValidatorCall(ci) {
		return "validate"
	}
	// an element of Server.types: the type-map extension functions registered by ExtendTypes
	if u, ok := cc.Value.(*ssa.UnOp); ok {
		if ia, ok := u.X.(*ssa.IndexAddr); ok {
			if fr, ok := core.FieldOfValue(ia.X); ok && fr.Is(pkWire, "Server", "types") {
				return "extendTypes"
			}
		}
	}
	// ... however it reached the call (a parameter that receives Server.types, a range variable): a value of the
	// extension function type func(*pgtype.Map)
	if sig, ok := cc.Value.Type().Underlying().(*types.Signature); ok && sig.Params().Len() == 1 && sig.Results().Len() == 0 {
		if pt, ok := sig.Params().At(0).Type().Underlying().(*types.Pointer); ok && core.IsNamed(pt.Elem(), "github.com/jackc/pgx/v5/pgtype", "Map") {
			return "extendTypes"
		}
	}
	switch v := cc.Value.(type) {
	case *ssa.FreeVar:
		return "freevar:" + v.Name()
	case *ssa.Parameter:
		// a hook handed to a private helper as an argument (handleConnTerminate(ctx, srv.TerminateConn)): the field
		// every caller passes
		if name := hookOfParam(v); name != "" {
			return name
		}
		return "param:" + v.Name()
	}
	return "dynamic"
}

var (
	hookSitesOnce sync.Once
	hookSites     map[*ssa.Function][]ssa.CallInstruction
)

// hookOfParam: the callback name of the Server field that every static call site passes for parameter p ("" if the
// call sites disagree, pass something else, or the function can be reached other than by a static call).
func hookOfParam(p *ssa.Parameter) string {
	fn := p.Parent()
	if fn == nil || fn.Prog == nil || token.IsExported(fn.Name()) {
		return ""
	}
	hookSitesOnce.Do(func() {
		hookSites = map[*ssa.Function][]ssa.CallInstruction{}
		for f := range ssautil.AllFunctions(fn.Prog) {
			for _, b := range f.Blocks {
				for _, in := range b.Instrs {
					if ci, ok := in.(ssa.CallInstruction); ok {
						if callee := core.StaticCallee(ci); callee != nil {
							hookSites[callee] = append(hookSites[callee], ci)
						}
					}
				}
			}
		}
	})
	idx := -1
	for i, q := range fn.Params {
		if q == p {
			idx = i
		}
	}
	sites := hookSites[fn]
	if idx < 0 || len(sites) == 0 {
		return ""
	}
	name := ""
	for _, site := range sites {
		a := site.Common().Args
		if idx >= len(a) {
			return ""
		}
		fr, ok := core.FieldOfValue(a[idx])
		if !ok || fr.Struct == nil || fr.Struct.Obj().Pkg() == nil || fr.Struct.Obj().Pkg().Path() != pkWire {
			return ""
		}
		n := ""
		switch fr.Struct.Obj().Name() {
		case "Server":
			n = map[string]string{"parse": "parse", "Session": "session", "Auth": "auth", "TerminateConn": "terminate", "CloseConn": "closeconn", "Statements": "newStatementCache", "Portals": "newPortalCache"}[fr.Name]
		case "PreparedStatement", "Statement":
			if fr.Name == "fn" {
				n = "stmt" // the statement function handed to a helper that runs it (executeStatement(ctx, writer, stmt.fn))
			}
		}
		if n == "" || (name != "" && name != n) {
			return ""
		}
		name = n
	}
	return name
}

func (tc *traceClient) emit(x *core.TSCtx, site ssa.Instruction, open, q, ev string) string {
	tc.Events[ev]++
	return tc.rule.step(tc, x, site, q, ev)
}

func (tc *traceClient) Call(x *core.TSCtx, site ssa.CallInstruction, s string) ([]core.TSOut, bool) {
	open, q := splitState(s)
	cc := site.Common()
	one := func(open, q string, k core.ErrK) ([]core.TSOut, bool) {
		return []core.TSOut{{S: joinState(open, q), Err: k}}, true
	}
	if m := writerMethod(site); m != "" {
		switch m {
		case "Start":
			cv, ok := x.Const(cc.Args[1])
			if !ok {
				return one("?", q, core.KNoErr)
			}
			return one(string(rune(constInt(cv))), q, core.KNoErr)
		case "AddInt32":
			if open == "R" {
				if cv, ok := x.Const(cc.Args[1]); ok && cv.Kind() == constant.Int {
					return one("R"+cv.ExactString(), q, core.KNoErr)
				}
			}
			return one(open, q, core.KNoErr)
		case "Reset":
			return one("", q, core.KNoErr)
		case "End":
			nq := q
			if open != "" {
				nq = tc.emit(x, site, open, q, "M:"+open)
			}
			// a failed End may or may not have delivered the message; the automaton has consumed it,
			// and the non-nil outcome ends the connection.
			return []core.TSOut{{S: joinState("", nq), Err: core.KNil}, {S: joinState("", nq), Err: core.KNonNil}}, true
		default:
			return one(open, q, core.KNoErr)
		}
	}
	switch readerMethod(site) {
	case "Slurp":
		nq := tc.emit(x, site, open, q, "SLURP")
		return []core.TSOut{{S: joinState(open, nq), Err: core.KNil}, {S: joinState(open, nq), Err: core.KNonNil}}, true
	case "ReadTypedMsg", "ReadUntypedMsg":
		nq := tc.emit(x, site, open, q, "READ")
		return []core.TSOut{{S: joinState(open, nq), Err: core.KNil}, {S: joinState(open, nq), Err: core.KNonNil}}, true
	}
	if cc.IsInvoke() {
		recv := cc.Value.Type()
		switch {
		case core.IsNamed(recv, "net", "Conn") && cc.Method.Name() == "Close":
			nq := tc.emit(x, site, open, q, "CLOSE")
			return one(open, nq, core.KAny)
		case core.IsNamed(recv, "net", "Conn") && cc.Method.Name() == "Write":
			ev := "RAW:?"
			if len(cc.Args) == 1 {
				if u, ok := core.Strip(cc.Args[0]).(*ssa.UnOp); ok {
					if g, ok := u.X.(*ssa.Global); ok {
						gs, gn := tc.c.sslReplies()
						switch g {
						case gs:
							ev = "RAW:S"
						case gn:
							ev = "RAW:N"
						}
					}
				}
			}
			nq := tc.emit(x, site, open, q, ev)
			return []core.TSOut{{S: joinState(open, nq), Err: core.KNil}, {S: joinState(open, nq), Err: core.KNonNil}}, true
		case core.IsNamed(recv, pkWire, "StatementCache") || core.IsNamed(recv, pkWire, "PortalCache"):
			n := core.NamedOf(recv)
			op := n.Obj().Name() + "." + cc.Method.Name()
			nq := tc.emit(x, site, open, q, "CACHE:"+op)
			if tc.resolveCaches {
				def := map[string]string{"StatementCache": "DefaultStatementCache", "PortalCache": "DefaultPortalCache"}[n.Obj().Name()]
				if impl := tc.c.P.Method("wire", def, cc.Method.Name()); impl != nil {
					return x.E.Summarise(x, site, impl, joinState(open, nq)), true
				}
			}
			return one(open, nq, core.KAny)
		}
		return nil, false
	}
	if cb := callbackName(site); cb != "" {
		nq := tc.emit(x, site, open, q, "CB:"+cb)
		k := core.KNoErr
		if sig := cc.Signature(); core.ErrorResultIndex(sig) >= 0 {
			// the failing outcome is announced to the automaton as a separate event
			tc.Events["FAIL:"+cb]++
			fq := tc.rule.step(tc, x, site, nq, "FAIL:"+cb)
			return []core.TSOut{{S: joinState(open, nq), Err: core.KNil}, {S: joinState(open, fq), Err: core.KNonNil}}, true
		}
		return one(open, nq, k)
	}
	return nil, false
}

func (tc *traceClient) Return(x *core.TSCtx, r *ssa.Return, s string, err core.ErrK) string {
	open, q := splitState(s)
	return joinState(open, tc.rule.ret(tc, x, r, q, err))
}

// edgeRule is implemented by rules that react to CFG edges.
type edgeRule interface {
	edge(tc *traceClient, x *core.TSCtx, from, to *ssa.BasicBlock, q string) string
}

func (tc *traceClient) Edge(x *core.TSCtx, from, to *ssa.BasicBlock, s string) string {
	if er, ok := tc.rule.(edgeRule); ok {
		open, q := splitState(s)
		return joinState(open, er.edge(tc, x, from, to, q))
	}
	return s
}

// ---------- error origins

// Origin classes of an error value.
const (
	oTransport = "transport" // result of a connection write (Writer.End) or connection read
	oMalformed = "malformed" // constructed by a buffer.Reader accessor on short / unterminated data
	oCallback  = "callback"  // returned by a user callback or a cache implementation
	oNew       = "constructed"
	oNil       = "nil"
	oUnknown   = "unknown"
)

// errOrigins computes the set of origin classes of error value v (through phis, S callees and named results).
func (c *Ctx) errOrigins(v ssa.Value) map[string]bool {
	out := map[string]bool{}
	c.originsInto(v, out, map[ssa.Value]bool{}, 0)
	return out
}

func (c *Ctx) originsInto(v ssa.Value, out map[string]bool, seen map[ssa.Value]bool, depth int) {
	if depth > 12 {
		out[oUnknown] = true
		return
	}
	for _, root := range core.ErrRoots(v) {
		if seen[root] {
			continue
		}
		seen[root] = true
		switch x := root.(type) {
		case *ssa.Const:
			if x.Value == nil {
				out[oNil] = true
			} else {
				out[oUnknown] = true
			}
		case *ssa.MakeInterface:
			out[oNew] = true
		case *ssa.UnOp:
			if _, ok := x.X.(*ssa.Global); ok {
				out[oNew] = true // package-level sentinel
			} else {
				out[oUnknown] = true
			}
		case *ssa.Parameter:
			out["param:"+x.Name()] = true
		case *ssa.Call:
			c.callOrigins(x, out, seen, depth)
		default:
			out[oUnknown] = true
		}
	}
}

func (c *Ctx) callOrigins(call *ssa.Call, out map[string]bool, seen map[ssa.Value]bool, depth int) {
	cc := call.Common()
	if cc.IsInvoke() {
		switch {
		case core.IsNamed(cc.Value.Type(), "context", "Context"):
			out[oCallback] = true // cancellation: reported like a handler error
		case core.IsNamed(cc.Value.Type(), "net", "Conn"), core.IsNamed(cc.Value.Type(), "io", "Writer"):
			out[oTransport] = true
		default:
			out[oCallback] = true
		}
		return
	}
	callee := core.StaticCallee(call)
	if callee == nil {
		out[oCallback] = true
		return
	}
	switch {
	case core.MethodIs(callee, pkBuffer, "Writer", "End"):
		out[oTransport] = true
		return
	case core.FuncIs(callee, "errors", "New"), core.FuncIs(callee, "fmt", "Errorf"):
		out[oNew] = true
		return
	case core.FuncIs(callee, "io", "ReadFull") || core.MethodIs(callee, "bufio", "Reader", "ReadByte"):
		out[oTransport] = true
		return
	}
	if !c.P.InScope(callee) {
		out[oUnknown] = true
		return
	}
	if core.MethodIs(callee, pkBuffer, "Reader", callee.Name()) {
		switch callee.Name() {
		case "GetString", "GetBytes", "GetUint16", "GetUint32", "GetPrepareType":
			out[oMalformed] = true
			return
		}
	}
	ri := core.ErrorResultIndex(callee.Signature)
	if ri < 0 {
		out[oUnknown] = true
		return
	}
	for _, r := range returns(callee) {
		if ri >= len(r.Results) {
			continue
		}
		sub := map[string]bool{}
		c.originsInto(r.Results[ri], sub, seen, depth+1)
		for o := range sub {
			if strings.HasPrefix(o, "param:") {
				// map the callee's error parameter back to the caller's argument
				name := strings.TrimPrefix(o, "param:")
				for i, p := range callee.Params {
					if p.Name() == name && i < len(cc.Args) && core.IsErrorType(p.Type()) {
						c.originsInto(cc.Args[i], out, seen, depth+1)
					}
				}
				continue
			}
			out[o] = true
		}
	}
	if callee.Recover != nil {
		out[oCallback] = true
	}
}

func originList(m map[string]bool) string {
	return strings.Join(sortedKeys(m), ",")
}

// onlyConnectionEnding reports whether every non-nil origin is a transport or malformed-message error
// (after which the connection legitimately ends without an ErrorResponse).
func onlyConnectionEnding(m map[string]bool) bool {
	for o := range m {
		switch o {
		case oTransport, oMalformed, oNil:
		default:
			return false
		}
	}
	return true
}

var _ = types.Identical

// isTraceEvent reports whether the trace client models call ci as an event.
func isTraceEvent(ci ssa.CallInstruction) bool {
	if writerMethod(ci) != "" {
		return true
	}
	switch readerMethod(ci) {
	case "Slurp", "ReadTypedMsg", "ReadUntypedMsg":
		return true
	}
	cc := ci.Common()
	if cc.IsInvoke() {
		recv := cc.Value.Type()
		if core.IsNamed(recv, "net", "Conn") && (cc.Method.Name() == "Close" || cc.Method.Name() == "Write") {
			return true
		}
		return core.IsNamed(recv, pkWire, "StatementCache") || core.IsNamed(recv, pkWire, "PortalCache")
	}
	return callbackName(ci) != ""
}

// reachesEvents: functions of S from which a trace event is reachable through static calls
// (the default cache implementations are reachable through the cache interfaces).
func (c *Ctx) reachesEvents() map[*ssa.Function]bool {
	if c.evReach != nil {
		return c.evReach
	}
	direct := map[*ssa.Function]bool{}
	callers := map[*ssa.Function][]*ssa.Function{}
	for _, fn := range c.P.ScopeFuncs() {
		for _, ci := range core.Calls(fn) {
			if isTraceEvent(ci) {
				direct[fn] = true
			}
			if callee := core.StaticCallee(ci); callee != nil && c.P.InScope(callee) {
				callers[callee] = append(callers[callee], fn)
			}
		}
	}
	out := map[*ssa.Function]bool{}
	var mark func(fn *ssa.Function)
	mark = func(fn *ssa.Function) {
		if out[fn] {
			return
		}
		out[fn] = true
		for _, p := range callers[fn] {
			mark(p)
		}
	}
	for fn := range direct {
		mark(fn)
	}
	c.evReach = out
	return out
}
