package rules

import (
	"encoding/json"
	"os"
	"os/exec"
	"path/filepath"
	"regexp"
	"sort"
	"strconv"
	"strings"

	"golang.org/x/tools/go/ssa"

	"pwv/internal/core"
)

// Thorough tier additions (all static; nothing of the analysed code is executed):
//  1. a second bounds pass with 32-bit int (GOARCH=386 type-check) for the properties that carry bounds obligations;
//  2. a cross-check of the panic-site inventory against the sites the Go compiler itself cannot prove
//     (go build -gcflags=-d=ssa/check_bce/debug=1): every such site inside an analysed function must
//     correspond to an enumerated obligation - otherwise the inventory has a hole;
//  3. VTA call graph: the connection scope computed with CHA must contain the VTA scope;
//  4. rule liveness: the stored mutants that this property's check is known to detect are applied to a scratch
//     copy of the current tree (outside /repo and /verif, removed afterwards) and the analyser is re-run on the
//     copy; the count of mutants still detected is recorded (it never decides the verdict);
//  5. cross-reference: go vet / staticcheck / errcheck findings are recorded (never deciding).

var boundsProps = map[string]bool{"C03": true, "C04": true, "C10": true, "C14": true, "C20": true}

func Thorough(c *Ctx, prop, self string) {
	R := c.R
	if boundsProps[prop] {
		c.thorough32(prop)
	}
	if prop == "C04" {
		c.bceCrossCheck()
		c.crossReference()
	}
	if prop == "C15" || prop == "C04" {
		c.vtaScope(prop)
	}
	c.liveness(prop, self)
	R.Note("thorough tier: 32-bit pass=%v, BCE cross-check=%v, liveness mutants re-analysed on scratch copies", boundsProps[prop], prop == "C04")
}

// thorough32 repeats the panic-freedom pass with 32-bit int.
func (c *Ctx) thorough32(prop string) {
	R := c.R
	p32, err := core.Load(core.LoadOpts{Repo: c.Repo, GOARCH: "386"})
	if err != nil {
		R.Fail(prop+".R1", "32bit:load", "-", "the tree type-checks for GOARCH=386", "load failed: "+err.Error())
		return
	}
	R.Count("wordbits_second_pass", p32.WordBits)
	c32 := &Ctx{P: p32, R: R, Tier: c.Tier, Repo: c.Repo, Verif: c.Verif}
	var fns []*ssa.Function
	switch prop {
	case "C04":
		fns = c32.scopeList()
	case "C03", "C10":
		fns = bufferFuncs(c32)
	case "C14":
		fns = []*ssa.Function{p32.Method("wire", "BinaryCopyReader", "Read"), p32.Func("wire", "NewBinaryColumnReader")}
	case "C20":
		fns = []*ssa.Function{p32.Func("wire", "ParseParameters")}
	}
	var clean []*ssa.Function
	for _, f := range fns {
		if f != nil {
			clean = append(clean, f)
		}
	}
	before := len(R.Obls)
	nOb, nOK := c32.panicFreedom(prop+".R1/386", clean)
	for _, o := range R.Obls[before:] {
		o.Key = strings.Replace(o.Key, prop+".R1/386:", prop+".R1/386:", 1)
	}
	R.Count("bounds_obligations_32bit", nOb)
	R.Count("bounds_discharged_32bit", nOK)
	// the declared size must not wrap where int is 32 bits wide
	if prop == "C10" || prop == "C03" {
		rule := prop + ".R1/386"
		if prop == "C03" {
			rule = "C03.R2/386"
		}
		c32.sizeIsHeaderMinus4(rule)
	}
}

var bceLine = regexp.MustCompile(`^(.+\.go):(\d+):(\d+): Found (IsInBounds|IsSliceInBounds)`)

// bceCrossCheck: every bounds check the compiler cannot eliminate inside a function of the connection scope must be
// on a source line that carries at least one enumerated obligation.
func (c *Ctx) bceCrossCheck() {
	R := c.R
	cmd := exec.Command("go", "build", "-gcflags=-d=ssa/check_bce/debug=1", ".", "./pkg/buffer", "./errors")
	cmd.Dir = c.Repo
	cmd.Env = append(os.Environ(), "GOFLAGS=-mod=mod", "GOPROXY=off", "GOSUMDB=off", "GOWORK=off", "GOTOOLCHAIN=local")
	out, _ := cmd.CombinedOutput()
	// lines that carry an obligation
	have := map[string]bool{}
	callLines := map[string]bool{}
	inFn := map[string]string{}
	for _, fn := range c.scopeList() {
		for _, ob := range c.boundsObligations(fn) {
			pos := c.P.Fset.Position(core.PosOf(ob.in))
			rel, _ := filepath.Rel(c.Repo, pos.Filename)
			have[rel+":"+strconv.Itoa(pos.Line)] = true
		}
		for _, ci := range core.Calls(fn) {
			if core.StaticCallee(ci) != nil {
				pos := c.P.Fset.Position(core.PosOf(ci))
				rel, _ := filepath.Rel(c.Repo, pos.Filename)
				callLines[rel+":"+strconv.Itoa(pos.Line)] = true
			}
		}
		if fn.Syntax() != nil {
			s, e := c.P.Fset.Position(fn.Syntax().Pos()), c.P.Fset.Position(fn.Syntax().End())
			rel, _ := filepath.Rel(c.Repo, s.Filename)
			for l := s.Line; l <= e.Line; l++ {
				inFn[rel+":"+strconv.Itoa(l)] = fname(fn)
			}
		}
	}
	sites, holes, inlined := 0, 0, 0
	seen := map[string]bool{}
	for _, line := range strings.Split(string(out), "\n") {
		m := bceLine.FindStringSubmatch(strings.TrimSpace(line))
		if m == nil {
			continue
		}
		file := strings.TrimPrefix(m[1], "./")
		key := file + ":" + m[2]
		if seen[key] {
			continue
		}
		seen[key] = true
		fnName, scoped := inFn[key]
		if !scoped {
			continue // outside the connection scope (configuration-time code, String methods)
		}
		sites++
		if !have[key] && callLines[key] {
			inlined++ // the check belongs to a callee inlined at this call (library code, or a function of S with its own obligations)
			continue
		}
		if !have[key] {
			holes++
			R.Fail("C04.R1", "bce-hole:"+fnName, key, "every bounds check the compiler cannot prove away inside the connection scope is an enumerated obligation", "the compiler keeps a "+m[4]+" check at "+key+" ("+fnName+") but the inventory has no obligation on that line: the panic-site inventory has a hole")
		}
	}
	R.Count("bce_sites_in_scope", sites)
	if holes == 0 && sites > 0 {
		R.OK("C04.R1", "bce-cross-check", "-", "every bounds check the compiler cannot prove away inside the connection scope is an enumerated obligation", "compiler listing (check_bce): "+strconv.Itoa(sites)+" lines in scope; "+strconv.Itoa(sites-inlined)+" carry an obligation of the inventory, "+strconv.Itoa(inlined)+" belong to callees inlined at a call on that line")
	} else if sites == 0 {
		R.Note("BCE cross-check: the compiler listing was empty (build failed or cache replay missing); skipped")
	}
}

func (c *Ctx) vtaScope(prop string) {
	R := c.R
	cg := c.P.VTA()
	out := map[*ssa.Function]bool{}
	var walk func(fn *ssa.Function)
	walk = func(fn *ssa.Function) {
		if fn == nil || out[fn] || !c.P.InScope(fn) {
			return
		}
		out[fn] = true
		if n := cg.Nodes[fn]; n != nil {
			for _, e := range n.Out {
				walk(e.Callee.Func)
			}
		}
	}
	walk(c.P.Method("wire", "Server", "serve"))
	G := c.connectionScope()
	missing := 0
	for fn := range out {
		if !G[fn] {
			missing++
			R.Fail(prop+".R1", "scope:vta-not-in-cha:"+fkey(fn), c.atFn(fn), "the CHA connection scope over-approximates the VTA scope", fname(fn)+" is reachable from serve in the VTA call graph but missing from the analysed scope")
		}
	}
	R.Count("scope_cha", len(G))
	R.Count("scope_vta", len(out))
	if missing == 0 {
		R.OK(prop+".R1", "scope:cha-covers-vta", "-", "the analysed connection scope (CHA) contains every function the more precise VTA call graph reaches from serve", "CHA "+strconv.Itoa(len(G))+" functions, VTA "+strconv.Itoa(len(out)))
	}
}

func (c *Ctx) crossReference() {
	R := c.R
	for _, tool := range [][]string{{"go", "vet", "./..."}, {"staticcheck", "./..."}, {"errcheck", "./..."}} {
		cmd := exec.Command(tool[0], tool[1:]...)
		cmd.Dir = c.Repo
		cmd.Env = append(os.Environ(), "GOFLAGS=-mod=mod", "GOPROXY=off", "GOSUMDB=off", "GOWORK=off", "GOTOOLCHAIN=local")
		out, _ := cmd.CombinedOutput()
		n := 0
		var first []string
		for _, l := range strings.Split(string(out), "\n") {
			if strings.Contains(l, ".go:") {
				n++
				if len(first) < 3 {
					first = append(first, strings.TrimSpace(l))
				}
			}
		}
		R.Note("cross-reference (never deciding): %s reports %d line(s) %v", strings.Join(tool, " "), n, first)
	}
}

// liveness re-runs this property's check on scratch copies of the current tree with one stored mutant applied.
func (c *Ctx) liveness(prop, self string) {
	R := c.R
	type mutant struct{ name, patch string }
	var ms []mutant
	// own development mutants: selftest/mut/<cNN>_*.diff
	glob, _ := filepath.Glob(filepath.Join(c.Verif, "selftest", "mut", strings.ToLower(prop)+"_*.diff"))
	for _, g := range glob {
		ms = append(ms, mutant{"selftest/" + filepath.Base(g), g})
	}
	// seeded changes whose metadata says this check fires
	metas, _ := filepath.Glob(filepath.Join(c.Verif, "seeded", "*", "meta.json"))
	for _, m := range metas {
		b, err := os.ReadFile(m)
		if err != nil {
			continue
		}
		var meta struct {
			Seed   string   `json:"seed"`
			Checks []string `json:"checks_that_fire"`
		}
		if json.Unmarshal(b, &meta) != nil {
			continue
		}
		for _, ch := range meta.Checks {
			if ch == prop {
				ms = append(ms, mutant{"seeded/" + meta.Seed, filepath.Join(filepath.Dir(m), "patch.diff")})
			}
		}
	}
	sort.Slice(ms, func(i, j int) bool { return ms[i].name < ms[j].name })
	detected, applied := 0, 0
	var missed, skipped []string
	for _, m := range ms {
		tmp, err := os.MkdirTemp("", "pwv-live-")
		if err != nil {
			continue
		}
		func() {
			defer os.RemoveAll(tmp)
			repoCopy := filepath.Join(tmp, "repo")
			verifCopy := filepath.Join(tmp, "verif")
			os.MkdirAll(verifCopy, 0o755)
			if out, err := exec.Command("rsync", "-a", "--exclude", ".git", c.Repo+"/", repoCopy+"/").CombinedOutput(); err != nil {
				skipped = append(skipped, m.name+" (copy failed: "+strings.TrimSpace(string(out))+")")
				return
			}
			ap := exec.Command("git", "apply", m.patch)
			ap.Dir = repoCopy
			if err := ap.Run(); err != nil {
				skipped = append(skipped, m.name+" (patch no longer applies)")
				return
			}
			if kf, err := os.ReadFile(filepath.Join(c.Verif, "known_findings.jsonl")); err == nil {
				os.WriteFile(filepath.Join(verifCopy, "known_findings.jsonl"), kf, 0o644)
			}
			applied++
			run := exec.Command(self, "-prop", prop, "-tier", "quick", "-repo", repoCopy, "-verif", verifCopy)
			run.Env = os.Environ()
			err := run.Run()
			if ee, ok := err.(*exec.ExitError); ok && ee.ExitCode() == 1 {
				detected++
			} else {
				missed = append(missed, m.name)
			}
		}()
	}
	R.Count("liveness_mutants", len(ms))
	R.Count("liveness_applied", applied)
	R.Count("liveness_detected", detected)
	R.Note("rule liveness (never deciding): %d stored mutants, %d applied to a scratch copy of the current tree, %d detected; missed %v; skipped %v", len(ms), applied, detected, missed, skipped)
}
