package rules

import (
	"go/token"

	"golang.org/x/tools/go/ssa"

	"pwv/internal/core"
)

func init() { Registry["C14"] = runC14 }

func runC14(c *Ctx) {
	R := c.R
	defer c.include("C14.S2", "C04", []string{"C04.R6"}, "a truncated or malformed field is reported as an error, never as a crash: the codec that decodes client bytes runs under a deferred function that itself calls recover and stores the error result", 3)
	defer c.include("C14.S1", "C08", []string{"C08.R2"}, "NULL fields become nil and only those: the -1 sentinel is tested by equality and an empty field is not nil", 3)
	R.Technique = "bounds obligations (E-BND/E-LIN) and guard-dominance rules on the binary COPY row reader; sentinel equality rules; provenance of the per-column scanners"
	R.Explanation = "Value decoding (what pgx codecs return) and independence from how the client splits the stream are runtime clauses that static analysis does not decide; the second one is in fact violated on this tree (open finding R3: a row that spans two CopyData messages is not reassembled). Decided structural clauses: (R1) the field count of a row is compared by equality with the number of declared columns before the row is allocated or decoded, and every index into the scanners and the row is proved in range; " +
		"(R2) the end-of-data trailer (field count 0xFFFF) is recognised by equality before the count is used, yields no row and surfaces the stream's end; the NULL field marker (length 0xFFFFFFFF) is recognised by equality and leaves the value nil, every other length is read as a length and failures are returned as errors; (R3) [open finding] a short read inside a row must be able to fetch the next CopyData message; " +
		"(R4) scanner i is built from declared column i in order, in binary format, by the connection's type map; (R5) value i is produced by scanner i from exactly the bytes read for field i, the row is returned only when all announced fields were decoded, and a row is never returned together with an error."
	R.Explanation += " (R4) also: every scanner NewScanner returns decodes through Codec.DecodeValue."
	R.Trusted = []string{"go/types + go/ssa", "pgx codecs return errors rather than panic on malformed bytes"}

	read := c.mustMethod("C14.R1", "wire", "BinaryCopyReader", "Read")
	if read == nil {
		return
	}
	R.Analysed(fname(read))
	pfns := []*ssa.Function{read, c.P.Func("wire", "NewBinaryColumnReader"), c.P.Func("wire", "NewScanner")}
	for _, fn := range c.P.ScopeFuncs() { // helpers Read may be split into
		if fn != read && fn.Parent() == nil && fn.Signature.Recv() != nil {
			if n := core.NamedOf(fn.Signature.Recv().Type()); n != nil && n.Obj().Name() == "BinaryCopyReader" && n.Obj().Pkg().Path() == pkWire {
				pfns = append(pfns, fn)
			}
		}
	}
	// and the plain functions of package wire they call (error constructors, decoding helpers): a slice expression
	// in one of those runs on the row's values as well
	seenP := map[*ssa.Function]bool{}
	for _, fn := range pfns {
		seenP[fn] = true
	}
	for i := 0; i < len(pfns) && i < 64; i++ {
		if pfns[i] == nil {
			continue
		}
		fns := append([]*ssa.Function{pfns[i]}, pfns[i].AnonFuncs...)
		for _, f := range fns {
			for _, ci := range core.Calls(f) {
				h := core.StaticCallee(ci)
				if h == nil || seenP[h] || !c.P.InPkg(h, "wire") || h.Blocks == nil || h.Signature.Recv() != nil {
					continue
				}
				seenP[h] = true
				pfns = append(pfns, h)
			}
		}
	}
	nOb, nOK := c.panicFreedom("C14.R1", pfns)
	R.Count("bounds_obligations", nOb)
	R.Count("bounds_discharged", nOK)
	R.Floor("C14.R1", "bounds obligations in the binary COPY reader", nOb, 5)

	// Read may be two sequential steps: fetch the next chunk, then decode a row in a method whose results Read returns
	// unchanged (nextChunk(); return readRow()). The row rules then apply to that method; the window rule spans both.
	var outer *ssa.Function
	var outerCall *ssa.Call
	{
		has := false
		for _, ci := range core.Calls(read) {
			if call, ok := ci.(*ssa.Call); ok && isReaderMethod(call, "GetUint16") {
				has = true
			}
		}
		if !has {
			for _, ci := range core.Calls(read) {
				call, isCall := ci.(*ssa.Call)
				h := core.StaticCallee(ci)
				if !isCall || h == nil || h == read || !c.P.InPkg(h, "wire") || h.Blocks == nil {
					continue
				}
				hasH := false
				for _, hi := range core.Calls(h) {
					if hc, ok := hi.(*ssa.Call); ok && isReaderMethod(hc, "GetUint16") {
						hasH = true
					}
				}
				tail := hasH
				for _, r := range returns(read) {
					if !core.InstrDominates(call, r) {
						continue
					}
					for j, res := range r.Results {
						if ex, isEx := forwardLoad(res).(*ssa.Extract); !isEx || ex.Tuple != ssa.Value(call) || ex.Index != j {
							tail = false
						}
					}
				}
				if tail {
					outer, outerCall = read, call
				}
			}
			if outer != nil {
				read = core.StaticCallee(outerCall)
				R.Analysed(fname(read))
			}
		}
	}
	var fields ssa.Value
	for _, ci := range core.Calls(read) {
		if call, ok := ci.(*ssa.Call); ok && isReaderMethod(call, "GetUint16") {
			fields = resultOf(call, 0)
		}
	}
	var row *ssa.MakeSlice
	for _, b := range read.Blocks {
		for _, in := range b.Instrs {
			if ms, ok := in.(*ssa.MakeSlice); ok && fields != nil && core.StripConv(ms.Len) == fields {
				row = ms
			}
		}
	}
	// the row may be assembled by a method that Read hands the count to and whose results it returns unchanged
	asm := read              // the function that allocates and fills the row
	asmFields := fields      // the count in asm's terms
	var gate ssa.Instruction // what the count guards must dominate in Read
	if row == nil && fields != nil {
		for _, ci := range core.Calls(read) {
			call, isCall := ci.(*ssa.Call)
			if !isCall {
				continue
			}
			h := core.StaticCallee(call)
			if h == nil || h == read || !c.P.InPkg(h, "wire") || h.Blocks == nil {
				continue
			}
			for i, a := range call.Call.Args {
				if core.StripConv(a) != fields || i >= len(h.Params) {
					continue
				}
				for _, b := range h.Blocks {
					for _, in := range b.Instrs {
						if ms, ok := in.(*ssa.MakeSlice); ok && core.StripConv(ms.Len) == ssa.Value(h.Params[i]) {
							tail := true
							for _, r := range returns(read) {
								if !core.InstrDominates(call, r) {
									continue
								}
								for j, res := range r.Results {
									if ex, isEx := forwardLoad(res).(*ssa.Extract); !isEx || ex.Tuple != ssa.Value(call) || ex.Index != j {
										tail = false
									}
								}
							}
							if tail {
								row, asm, asmFields, gate = ms, h, h.Params[i], call
							}
						}
					}
				}
			}
		}
		if asm != read {
			R.Analysed(fname(asm))
		}
	}
	if fields == nil || row == nil {
		R.Fail("C14.R1", "Read:shape", c.atFn(read), "Read decodes a field count and allocates a row of that many values", "GetUint16 count or make([]any, count) not found (in Read or in a method it hands the count to)")
		return
	}
	if gate == nil {
		gate = row
	}
	// a row is decoded only from a non-empty window: the read of the field count is dominated by an edge on which
	// len(Msg) != 0 holds, with nothing in between that can change the window. (A refill that is tried only once leaves
	// the window empty when a CopyData message held nothing but the stream header.)
	{
		var fieldsCall *ssa.Call
		for _, ci := range core.Calls(read) {
			if call, ok := ci.(*ssa.Call); ok && isReaderMethod(call, "GetUint16") {
				fieldsCall = call
			}
		}
		nonEmptyEdges := func(fn *ssa.Function) []edge {
			var out []edge
			for _, b := range fn.Blocks {
				for _, in := range b.Instrs {
					cmp, ok := in.(*ssa.BinOp)
					if !ok {
						continue
					}
					x, isLen := core.IsLenOf(cmp.X)
					if !isLen {
						continue
					}
					if fr, ok := core.FieldOfValue(x); !ok || !fr.Is(pkBuffer, "Reader", "Msg") {
						continue
					}
					k, isK := core.ConstInt(cmp.Y)
					if !isK || k != 0 {
						continue
					}
					for _, u := range core.Referrers(cmp) {
						iff, isIf := u.(*ssa.If)
						if !isIf {
							continue
						}
						switch cmp.Op {
						case token.EQL:
							out = append(out, edge{iff.Block(), 1})
						case token.NEQ, token.GTR:
							out = append(out, edge{iff.Block(), 0})
						}
					}
				}
			}
			return out
		}
		// no window change between the edge and the instruction `until` (nil: the end of every block it dominates)
		cleanAfter := func(fn *ssa.Function, e edge, until ssa.Instruction) bool {
			for _, b := range fn.Blocks {
				if !e.dominates(b) {
					continue
				}
				if until != nil && !b.Dominates(until.Block()) {
					continue
				}
				for _, in := range b.Instrs {
					if until != nil && in == until {
						break
					}
					if ci, isCall := in.(ssa.CallInstruction); isCall && c.modSets().MayModify(ci, "Reader", "Msg") {
						return false
					}
				}
			}
			return true
		}
		winFn := read // the function in which the window is established before the row is decoded
		if outer != nil {
			winFn = outer
		}
		nonEmpty := nonEmptyEdges(winFn)
		// a helper of the reader that returns without error only with a non-empty window (nextChunk): its success edge
		// is such an edge
		for _, ci := range core.Calls(winFn) {
			call, isCall := ci.(*ssa.Call)
			h := core.StaticCallee(ci)
			if !isCall || h == nil || h == winFn || h == read || !c.P.InPkg(h, "wire") || h.Blocks == nil || errResultOf(call) == nil {
				continue
			}
			hEdges := nonEmptyEdges(h)
			if len(hEdges) == 0 {
				continue
			}
			est := len(returns(h)) > 0
			for _, r := range returns(h) {
				if cls := c.Err().Classify(errOperand(r), r.Block()); !cls.MayBeNil() {
					continue
				}
				okR := false
				for _, e := range hEdges {
					if e.dominates(r.Block()) && cleanAfter(h, e, r) {
						okR = true
					}
				}
				if !okR {
					est = false
				}
			}
			if est {
				nonEmpty = append(nonEmpty, nilEdges(errResultOf(call), true)...)
				R.Analysed(fname(h))
			}
		}
		okNE := false
		if fieldsCall != nil && outer != nil {
			// split form: the edge dominates the call of the row step with no window change up to it, and the row step
			// changes nothing before it reads the count
			inner := true
			for _, b := range read.Blocks {
				if !b.Dominates(fieldsCall.Block()) {
					continue
				}
				for _, in := range b.Instrs {
					if in == ssa.Instruction(fieldsCall) {
						break
					}
					if ci, isCall := in.(ssa.CallInstruction); isCall && c.modSets().MayModify(ci, "Reader", "Msg") {
						inner = false
					}
				}
			}
			for _, e := range nonEmpty {
				if inner && e.dominates(outerCall.Block()) && cleanAfter(outer, e, outerCall) {
					okNE = true
				}
			}
		}
		if fieldsCall != nil && outer == nil {
			for _, e := range nonEmpty {
				if !e.dominates(fieldsCall.Block()) {
					continue
				}
				clean := true
				for _, b := range read.Blocks {
					if !e.dominates(b) || !b.Dominates(fieldsCall.Block()) {
						continue
					}
					for _, in := range b.Instrs {
						if in == ssa.Instruction(fieldsCall) {
							break
						}
						if ci, isCall := in.(ssa.CallInstruction); isCall && c.modSets().MayModify(ci, "Reader", "Msg") {
							clean = false
						}
					}
				}
				if clean {
					okNE = true
				}
			}
		}
		where := c.atFn(read)
		if fieldsCall != nil {
			where = c.at(fieldsCall)
		}
		R.Check(okNE, "C14.R3", "(*BinaryCopyReader).Read:decodes-non-empty-window", where, "the next row is decoded only when the window holds data: an empty message (e.g. one that carried only the stream header) makes the reader fetch the next one", "the field-count read is dominated by a len(Msg) != 0 edge with no window change in between", "after the (single) refill the window can be empty again - a CopyData message that holds exactly the 19-byte stream header - and the field count is read from it: a well-formed stream split at that boundary fails with 'insufficient data'")
	}
	// field count == len(scanners) dominates the row allocation
	eq := false
	for _, b := range read.Blocks {
		for _, in := range b.Instrs {
			cmp, ok := in.(*ssa.BinOp)
			if !ok || (cmp.Op != token.EQL && cmp.Op != token.NEQ) {
				continue
			}
			isCount := func(v ssa.Value) bool { return core.StripConv(v) == fields }
			isLen := func(v ssa.Value) bool {
				x, ok := core.IsLenOf(v)
				if !ok {
					return false
				}
				_, p := pathOf(x)
				return p == ".scanners"
			}
			if !((isCount(cmp.X) && isLen(cmp.Y)) || (isCount(cmp.Y) && isLen(cmp.X))) {
				continue
			}
			idx := 0
			if cmp.Op == token.NEQ {
				idx = 1
			}
			for _, u := range core.Referrers(cmp) {
				if iff, ok := u.(*ssa.If); ok && core.EdgeDominates(iff.Block(), idx, gate.Block()) {
					eq = true
				}
			}
		}
	}
	R.Check(eq, "C14.R1", "Read:field-count-equals-columns", c.at(row), "a row is decoded only if its field count equals the number of declared columns", "the fields == len(scanners) edge dominates the row allocation", "the row is allocated without the field count having been compared (by equality) with the declared columns: extra or missing fields are not reported as an error")

	// ---------- R2: trailer
	trailerIs := constEqEdges(fields, 0xFFFF, true)
	trailerNot := constEqEdges(fields, 0xFFFF, false)
	R.Check(len(trailerIs) > 0 && anyDominates(trailerNot, gate.Block()), "C14.R2", "Read:trailer-recognised", c.at(row), "the end-of-data trailer (field count -1) is recognised by equality before the count is used as a row size", "the fields != 0xFFFF edge dominates the row allocation", "the field count is used without the 0xFFFF trailer having been tested: the standard trailer is misread as a 65535-field row")
	cr := c.P.Method("wire", "CopyReader", "Read")
	for _, e := range trailerIs {
		reads := false
		okRet := true
		reach := reachableAvoiding(e.to(), func(*ssa.BasicBlock) bool { return false })
		for b := range reach {
			if !e.dominates(b) {
				continue
			}
			if blockHasCall(b, calleeIs(cr)) {
				reads = true
			}
			// ... or through a step of the reader (endOfData()) that makes that read before it returns
			for _, in := range b.Instrs {
				ci, isCall := in.(ssa.CallInstruction)
				if !isCall {
					continue
				}
				if h := core.StaticCallee(ci); h != nil && h != cr && c.P.InPkg(h, "wire") && h.Blocks != nil {
					all := len(returns(h)) > 0
					for _, hr := range returns(h) {
						dom := false
						for _, hc := range callsIn(h, calleeIs(cr)) {
							if core.InstrDominates(hc.(ssa.Instruction), hr) {
								dom = true
							}
						}
						all = all && dom
					}
					if all {
						reads = true
						R.Analysed(fname(h))
					}
				}
			}
			if r, ok := b.Instrs[len(b.Instrs)-1].(*ssa.Return); ok {
				cls := c.Err().Classify(errOperand(r), b)
				if !core.IsNilConst(forwardLoad(r.Results[0])) || cls.MayBeNil() {
					okRet = false
				}
			}
		}
		R.Check(reads && okRet, "C14.R2", "Read:trailer-ends-stream", c.at(e.to().Instrs[0]), "after the trailer no row is produced: the reader waits for the end of the stream and returns it (io.EOF) or an error", "the trailer edge reads the next COPY message and every return on it has a nil row and a non-nil error", sprintf("trailer edge: reads next message=%v, returns (nil row, non-nil error) only=%v", reads, okRet))
	}
	c.nullSentinels("C14.R2")

	// end of stream surfaces only between rows: once a row has begun (the count is known and is not the trailer) an
	// error that comes from fetching the next COPY message is not handed on as a bare io.EOF - a stream that ends
	// inside a row is an error, not a clean end
	var fromStream func(v ssa.Value, depth int) bool
	fromStream = func(v ssa.Value, depth int) bool {
		for _, root := range core.ErrRoots(v) {
			call, ok := root.(*ssa.Call)
			if !ok {
				continue
			}
			callee := core.StaticCallee(call)
			if callee == cr {
				return true
			}
			if callee != nil && depth > 0 && c.P.InPkg(callee, "wire") && callee.Blocks != nil {
				for _, r := range returns(callee) {
					if ev := errOperand(r); ev != nil && fromStream(ev, depth-1) {
						return true
					}
				}
			}
		}
		return false
	}
	nMid := 0
	midRets := returns(read)
	if asm != read {
		midRets = append(midRets, returns(asm)...)
	}
	for _, r := range midRets {
		if r.Parent() == read && !anyDominates(trailerNot, r.Block()) {
			continue
		}
		if r.Parent() == read && asm != read && core.InstrDominates(gate, r) {
			continue // the assembling method's own returns are inspected instead
		}
		ev := errOperand(r)
		if ev == nil || !fromStream(ev, 2) {
			continue
		}
		nMid++
		cls := c.Err().Classify(ev, r.Block())
		R.Check(cls&core.CEOF == 0, "C14.R2", "Read:no-clean-EOF-inside-row:"+retDescr(r), c.at(r), "a COPY stream that ends inside a row is reported as an error, never as a clean end of stream", "error class "+cls.String()+" at this return", "inside a row the error of fetching the next COPY message is returned unchanged (class "+cls.String()+"): CopyDone in the middle of a row surfaces as io.EOF, the handler sees a clean end and the truncated row is silently dropped")
	}
	R.Count("in_row_stream_error_returns", nMid)

	// ---------- R3: refill inside a row (open finding)
	// the field loop: the loop of the assembling function that reads the per-field length (other loops, e.g. a refill
	// loop in front of the row, are not "inside a row")
	allLoops := core.Loops(asm)
	loops := map[*ssa.BasicBlock]*core.Loop{}
	for h, l := range allLoops {
		for b := range l.Body {
			if blockHasCall(b, func(ci ssa.CallInstruction) bool { return isReaderMethod(ci, "GetUint32") }) {
				loops[h] = l
			}
		}
	}
	refill := false
	for _, l := range loops {
		for b := range l.Body {
			if blockHasCall(b, calleeIs(cr)) {
				refill = true
			}
			// or a helper of the row reader that fetches the next message
			if blockHasCall(b, func(ci ssa.CallInstruction) bool {
				h := core.StaticCallee(ci)
				return h != nil && c.P.InPkg(h, "wire") && h.Blocks != nil && len(callsIn(h, calleeIs(cr))) > 0
			}) {
				refill = true
			}
		}
	}
	R.Check(refill, "C14.R3", "(*BinaryCopyReader).Read:no-refill-inside-row", c.atFn(read), "a row may span CopyData messages: when the current message is exhausted inside a row the next one is fetched", "a CopyReader.Read call is reachable inside the field loop", "no call of CopyReader.Read inside the field loop: a short read inside a row returns 'insufficient data' instead of continuing with the next CopyData message")

	// the stream signature is looked for only between rows (never inside a row, where the same bytes are data)
	sig := c.P.Global("wire", "CopySignature")
	usesSig := func(fn *ssa.Function) bool {
		for _, b := range fn.Blocks {
			for _, in := range b.Instrs {
				if u, ok := in.(*ssa.UnOp); ok && u.X == ssa.Value(sig) {
					return true
				}
			}
		}
		return false
	}
	inRow := false
	for _, l := range loops {
		for b := range l.Body {
			for _, in := range b.Instrs {
				if u, ok := in.(*ssa.UnOp); ok && u.X == ssa.Value(sig) {
					inRow = true
				}
				if ci, ok := in.(ssa.CallInstruction); ok {
					if callee := core.StaticCallee(ci); callee != nil && c.P.InPkg(callee, "wire") && usesSig(callee) {
						inRow = true
					}
				}
			}
		}
	}
	consulted := usesSig(read)
	sigHosts := []*ssa.Function{read}
	if outer != nil { // the chunk step of a split Read runs between rows
		sigHosts = append(sigHosts, outer)
		consulted = consulted || usesSig(outer)
	}
	for _, host := range sigHosts {
		for _, ci := range core.Calls(host) {
			if callee := core.StaticCallee(ci); callee != nil && c.P.InPkg(callee, "wire") && usesSig(callee) {
				consulted = true
			}
		}
	}
	R.Check(sig != nil && consulted && !inRow, "C14.R2", "Read:header-only-between-rows", c.atFn(read), "the COPY stream header (signature) is recognised and skipped only at a row boundary, never inside a row where the same bytes would be user data", "the signature is consulted outside the field loop only", sprintf("signature consulted by Read or a helper: %v; consulted inside the field loop (or by a helper called from it): %v - inside a row, value bytes that happen to equal the signature would be dropped and the rest of the stream decoded from a shifted offset", consulted, inRow))

	// ---------- R5: row assembly
	var loop *core.Loop
	for _, l := range loops {
		loop = l
	}
	if loop != nil {
		// loop bound is the field count
		okBound := false
		for b := range loop.Body { // header test or (rotated loop) latch test
			iff, ok := b.Instrs[len(b.Instrs)-1].(*ssa.If)
			if !ok {
				continue
			}
			continues := loop.Body[b.Succs[0]] && !loop.Body[b.Succs[1]]
			if cmp, ok := iff.Cond.(*ssa.BinOp); ok && continues && cmp.Op == token.LSS && isInduction(cmp.X) {
				if core.StripConv(cmp.Y) == asmFields {
					okBound = true
				}
				// len(scanners), which the equality guard (R1) makes the same number
				if x, ok := core.IsLenOf(cmp.Y); ok && eq {
					if _, p := pathOf(x); p == ".scanners" {
						okBound = true
					}
				}
				// len(row), the slice made with one slot per announced field
				if x, ok := core.IsLenOf(cmp.Y); ok && row != nil && x == ssa.Value(row) && core.StripConv(row.Len) == asmFields {
					okBound = true
				}
			}
		}
		R.Check(okBound, "C14.R5", "Read:loop-over-announced-fields", c.at(loop.Header.Instrs[0]), "the field loop runs once per announced field", "induction variable < field count", "the field loop's bound is not the announced field count")
		for _, r := range returns(asm) {
			v := forwardLoad(r.Results[0])
			if v != ssa.Value(row) {
				continue
			}
			cls := c.Err().Classify(errOperand(r), r.Block())
			R.Check(!loop.Body[r.Block()] && cls.OnlyNil(), "C14.R5", "Read:row-only-when-complete", c.at(r), "a row is returned only after all announced fields were decoded, and never together with an error", "the return of the row lies after the loop and carries a nil error", "the row can be returned from inside the field loop or together with an error (fabricated / partial row)")
		}
		// row[i] = scanners[i](bytes of field i)
		n := 0
		for b := range loop.Body {
			for _, in := range b.Instrs {
				st, ok := in.(*ssa.Store)
				if !ok {
					continue
				}
				ia, ok := st.Addr.(*ssa.IndexAddr)
				if !ok || ia.X != ssa.Value(row) {
					continue
				}
				n++
				okVal := false
				if ex, ok := st.Val.(*ssa.Extract); ok {
					if call, ok := ex.Tuple.(*ssa.Call); ok {
						// the scanner called is scanners[same index]
						if u, ok := call.Call.Value.(*ssa.UnOp); ok {
							if sa, ok := u.X.(*ssa.IndexAddr); ok && sa.Index == ia.Index {
								if _, p := pathOf(sa.X); p == ".scanners" {
									// its argument is the GetBytes result of this iteration
									if ax, ok := call.Call.Args[0].(*ssa.Extract); ok {
										if gb, ok := ax.Tuple.(*ssa.Call); ok && isReaderMethod(gb, "GetBytes") && loop.Body[gb.Block()] {
											okVal = true
										}
									}
								}
							}
						}
					}
				}
				R.Check(okVal && isInduction(ia.Index), "C14.R5", "Read:value-i-by-scanner-i", c.at(st), "value i of the row is what scanner i decodes from exactly the bytes read for field i", "row[i] = scanners[i](GetBytes result of this iteration)", "the stored value is not scanners[i] applied to this field's bytes at the loop index")
			}
		}
		R.Floor("C14.R5", "row element stores", n, 1)
	}

	// ---------- R4: scanners built from the declared columns
	if nb := c.mustFunc("C14.R4", "wire", "NewBinaryColumnReader"); nb != nil {
		R.Analysed(fname(nb))
		ns := c.P.Func("wire", "NewScanner")
		n := 0
		for _, ci := range callsIn(nb, calleeIs(ns)) {
			n++
			call := ci.(*ssa.Call)
			a := call.Call.Args
			k, okFmt := core.ConstInt(a[2])
			colRoot, colPath := pathOf(a[1])
			_ = colRoot
			colIdx := indexOf(a[1])
			okTM := false
			if tmc, ok := a[0].(*ssa.Call); ok && core.FuncIs(core.StaticCallee(tmc), pkWire, "TypeMap") {
				okTM = true
			}
			stored := false
			for _, r := range core.Referrers(resultOf(call, 0)) {
				if st, ok := r.(*ssa.Store); ok {
					if ia, ok := st.Addr.(*ssa.IndexAddr); ok && ia.Index == colIdx {
						stored = true
					}
				}
			}
			R.Check(okFmt && k == 1 && colPath == ".columns[]" && colIdx != nil && stored && okTM, "C14.R4", "NewBinaryColumnReader:scanner-i-from-column-i", c.at(call), "scanner i decodes declared column i in binary format with the connection's type map", "scanners[index] = NewScanner(TypeMap(ctx), copy.columns[index], BinaryFormat)", sprintf("format const 1: %v, column path %q, stored at the same index: %v, connection type map: %v", okFmt && k == 1, colPath, stored, okTM))
		}
		R.Floor("C14.R4", "NewScanner calls", n, 1)
	}
	if nsf := c.P.Func("wire", "NewScanner"); nsf != nil {
		// the scanner closure decodes with the column's OID and the given format
		// every scanner handed out decodes through the column's codec (which knows NULL, short and malformed values)
		for _, r := range returns(nsf) {
			if len(r.Results) == 0 {
				continue
			}
			rv := forwardLoad(r.Results[0])
			for {
				if ct, isCT := rv.(*ssa.ChangeType); isCT {
					rv = ct.X
					continue
				}
				break
			}
			var fnc *ssa.Function
			switch x := rv.(type) {
			case *ssa.MakeClosure:
				fnc, _ = x.Fn.(*ssa.Function)
			case *ssa.Function:
				fnc = x
			default:
				continue // the nil scanner of the error returns
			}
			viaCodec := false
			// the scanner itself, or - for a method value / a thin closure - the function of the package it hands on to
			var look func(f *ssa.Function, depth int)
			look = func(f *ssa.Function, depth int) {
				if f == nil || depth == 0 {
					return
				}
				for _, ci := range core.Calls(f) {
					if cc := ci.Common(); cc.IsInvoke() && cc.Method.Name() == "DecodeValue" {
						viaCodec = true
					}
					if h := core.StaticCallee(ci); h != nil && c.P.InPkg(h, "wire") {
						look(h, depth-1)
					}
				}
			}
			look(fnc, 3)
			R.Check(viaCodec, "C14.R4", "NewScanner:scanner-uses-codec:"+retDescr(r), c.at(r), "every scanner decodes its field through the declared column type's codec in the requested format", "the returned closure calls Codec.DecodeValue", "a scanner returned by NewScanner decodes by hand instead of through the column's codec: NULL (nil), short or malformed field values are not handled as the codec does (wrong values or a panic)")
		}
		for _, a := range nsf.AnonFuncs {
			for _, ci := range core.Calls(a) {
				cc := ci.Common()
				if cc.IsInvoke() && cc.Method.Name() == "DecodeValue" {
					okVal := cc.Args[len(cc.Args)-1] == ssa.Value(a.Params[0])
					R.Check(okVal, "C14.R4", "NewScanner:decodes-given-bytes", c.at(ci), "a scanner decodes exactly the bytes it is given", "DecodeValue(.., value parameter)", "the scanner does not decode its value parameter")
				}
			}
		}
	}
}
