package rules

import (
	"go/constant"
	"go/token"
	"go/types"
	"strings"

	"golang.org/x/tools/go/ssa"

	"pwv/internal/core"
)

func init() { Registry["C19"] = runC19 }

func isCtxType(t types.Type) bool { return core.IsNamed(t, "context", "Context") }

// ctxRoots walks a context value back to its roots, recording the producers on the way.
// Producers that derive a context from a context argument are followed through that argument.
func (c *Ctx) ctxRoots(v ssa.Value, chain *[]string, seen map[ssa.Value]bool) []ssa.Value {
	if seen[v] {
		return nil
	}
	seen[v] = true
	switch x := v.(type) {
	case *ssa.Phi:
		var out []ssa.Value
		for _, e := range x.Edges {
			out = append(out, c.ctxRoots(e, chain, seen)...)
		}
		return out
	case *ssa.ChangeInterface:
		return c.ctxRoots(x.X, chain, seen)
	case *ssa.MakeInterface:
		return c.ctxRoots(x.X, chain, seen)
	case *ssa.Extract:
		if call, ok := x.Tuple.(*ssa.Call); ok {
			return c.ctxThroughCall(call, v, chain, seen)
		}
	case *ssa.Call:
		return c.ctxThroughCall(x, v, chain, seen)
	case *ssa.UnOp:
		if a, ok := x.X.(*ssa.Alloc); ok { // spilled local
			var out []ssa.Value
			for _, r := range core.Referrers(a) {
				if st, ok := r.(*ssa.Store); ok && st.Addr == a {
					out = append(out, c.ctxRoots(st.Val, chain, seen)...)
				}
			}
			return out
		}
	}
	return []ssa.Value{v}
}

func (c *Ctx) ctxThroughCall(call *ssa.Call, v ssa.Value, chain *[]string, seen map[ssa.Value]bool) []ssa.Value {
	cc := call.Common()
	// find the context argument of the producing call
	var ctxArg ssa.Value
	for _, a := range cc.Args {
		if isCtxType(a.Type()) {
			ctxArg = a
			break
		}
	}
	if ctxArg == nil {
		return []ssa.Value{v} // context.Background(), a getter, ...
	}
	name := callDescr(call)
	if cb := callbackName(call); cb != "" {
		name = "CB:" + cb
	}
	callee := core.StaticCallee(call)
	if callee != nil {
		// the slot setters under their frozen names, whatever they are called now
		for _, canon := range []string{"setTypeInfo", "setRemoteAddress", "setClientParameters", "setServerParameters"} {
			if callee == c.P.Func("wire", canon) {
				name = canon
			}
		}
	}
	*chain = append(*chain, name)
	switch {
	case callee == nil: // callback or interface: trusted to return a context derived from its argument
	case callee.Pkg != nil && callee.Pkg.Pkg.Path() == "context":
	case c.P.InScope(callee):
		// the callee's own context results must be derived from its context parameter
		if !c.calleeDerives(callee, map[*ssa.Function]bool{}, chain) {
			return []ssa.Value{v}
		}
	default:
		return []ssa.Value{v}
	}
	return c.ctxRoots(ctxArg, chain, seen)
}

// calleeDerives reports whether every context result of fn is derived from fn's context parameter.
func (c *Ctx) calleeDerives(fn *ssa.Function, active map[*ssa.Function]bool, chain *[]string) bool {
	if active[fn] {
		return true
	}
	active[fn] = true
	ri := -1
	for i := 0; i < fn.Signature.Results().Len(); i++ {
		if isCtxType(fn.Signature.Results().At(i).Type()) {
			ri = i
		}
	}
	if ri < 0 {
		return false
	}
	for _, r := range returns(fn) {
		if ri >= len(r.Results) {
			continue
		}
		res := forwardLoad(r.Results[ri])
		if core.IsNilConst(res) {
			continue // returned together with a non-nil error
		}
		var sub []string
		for _, root := range c.ctxRoots(res, &sub, map[ssa.Value]bool{}) {
			p, ok := root.(*ssa.Parameter)
			if !ok || !isCtxType(p.Type()) {
				if fv, isFV := root.(*ssa.FreeVar); isFV && isCtxType(fv.Type()) {
					continue
				}
				return false
			}
		}
		*chain = append(*chain, sub...)
	}
	return true
}

func runC19(c *Ctx) {
	R := c.R
	defer c.include("C19.S1", "C12", []string{"C12.R2"}, "the context every parser and statement call receives carries the server parameters that were announced", 6)
	R.Technique = "start-up automaton (shared with C12.R1), dominance rules on the middleware composition, context-provenance slicing, Terminate-arm automaton"
	R.Explanation = "Decides: (R1) the session middleware runs once per connection after the authentication step and before the first ReadyForQuery, and a failing middleware is followed by nothing but an optional ErrorResponse - the command loop is never entered; " +
		"(R2) SessionMiddleware composes parent-first: the previously registered handler is called exactly once, the new handler is called only on the parent's err == nil edge with the parent's returned context, and the error tested is the parent's own result (not shared state); registration wraps the current Server.Session; " +
		"(R3) every context handed to a callback, cache or internal helper in the connection code is derived (through context.With*, the slot setters and callbacks' own results) from the enclosing function's context parameter - no context.Background/TODO below the per-connection root; the context given to the command loop passes through the type-map, remote-address, client-parameter and server-parameter setters and the session middleware; handleCommand derives a cancellable context whose cancel function is deferred on every exit; " +
		"(R4) Terminate: the terminate hook is invoked at most once, on its success the connection the loop reads from is closed and a non-nil result ends the command loop (consumeSingleCommand forwards it unchanged, consumeCommands returns on it); on its failure the error is returned. Not decided: what user middlewares put in the context."
	R.Explanation += " (R4) also: a configured hook is never skipped - in the function that invokes it only the TerminateConn == nil edge bypasses the call, and up the call chain to the Terminate arm the call is on every path."
	R.Trusted = []string{"go/types + go/ssa", "context.With* return contexts derived from their parent"}

	// ---------- R1
	serve := c.mustMethod("C19.R1", "wire", "Server", "serve")
	if serve != nil {
		tc := newTraceClient(c, serveRule{c})
		ts := core.NewTS(c.P, tc)
		ts.Relevant = c.reachesEvents()
		if csc := c.P.Method("wire", "Session", "consumeSingleCommand"); csc != nil {
			ts.Opaque[csc] = true
		}
		before := len(R.Obls)
		outs := ts.Run(serve, joinState("", "pre"), core.TSEnv{})
		// re-label: the session clauses of the shared automaton are this property's R1
		for _, o := range R.Obls[before:] {
			o.Rule = "C19.R1"
			o.Key = "C19.R1" + o.Key[strings.Index(o.Key, ":"):]
		}
		R.Check(tc.Events["CB:session"] > 0 && tc.Events["FAIL:session"] > 0, "C19.R1", "floor:session-events", c.atFn(serve), "the session middleware call and its failing outcome are on explored paths", sprintf("%v", tc.Events), "the session middleware call was not found on any path")
		if len(R.Obls) == before+1 {
			R.OK("C19.R1", "serve:session-slot", c.atFn(serve), "the session middleware runs once, after authentication and before ReadyForQuery; its failure ends the connection before any command is served", sprintf("%d exit outcomes, %d states", len(outs), ts.States))
		}
		for f := range ts.Funcs {
			R.Analysed(fname(f))
		}
	}

	c.c19Composition()
	c.c19Contexts()
	c.c19Terminate()
}

// R2: the wrapper closure built by SessionMiddleware
func (c *Ctx) c19Composition() {
	R := c.R
	sm := c.mustFunc("C19.R2", "wire", "SessionMiddleware")
	if sm == nil {
		return
	}
	// find closures (transitively nested in SessionMiddleware) with the SessionHandler signature that call two captured handlers
	sh := c.P.Named("wire", "SessionHandler")
	var composed []*ssa.Function
	var nested func(fn *ssa.Function)
	nested = func(fn *ssa.Function) {
		for _, a := range fn.AnonFuncs {
			if sh != nil && types.Identical(a.Signature, sh.Underlying()) {
				composed = append(composed, a)
			}
			nested(a)
		}
	}
	nested(sm)
	// the composing closure may be built by a named function of the package that the option calls
	// (chainSessionHandlers(parent, next))
	for _, f := range allNested(sm) {
		for _, ci := range core.Calls(f) {
			if h := core.StaticCallee(ci); h != nil && h.Parent() == nil && c.P.InPkg(h, "wire") && h.Blocks != nil && h != sm {
				nested(h)
			}
		}
	}
	// the composed handler may be a method value: link{parent: srv.Session, next: fn}.handle - the two handlers are then
	// fields of the bound receiver
	type boundLink struct {
		mc   *ssa.MakeClosure
		recv ssa.Value // the struct object the fields are stored into (an allocation in the option)
	}
	bound := map[*ssa.Function]boundLink{}
	for _, f := range allNested(sm) {
		for _, b := range f.Blocks {
			for _, in := range b.Instrs {
				mc, ok := in.(*ssa.MakeClosure)
				if !ok || len(mc.Bindings) != 1 {
					continue
				}
				w, ok := mc.Fn.(*ssa.Function)
				if !ok || !strings.HasSuffix(w.Name(), "$bound") || sh == nil || !types.Identical(w.Signature, sh.Underlying()) {
					continue
				}
				var m *ssa.Function
				for _, ci := range core.Calls(w) {
					if h := core.StaticCallee(ci); h != nil && c.P.InPkg(h, "wire") && h.Signature.Recv() != nil {
						m = h
					}
				}
				if m == nil {
					continue
				}
				obj := mc.Bindings[0]
				if u, isLoad := obj.(*ssa.UnOp); isLoad && u.Op == token.MUL {
					obj = u.X
				}
				if _, isAlloc := obj.(*ssa.Alloc); !isAlloc {
					continue
				}
				bound[m] = boundLink{mc, obj}
				composed = append(composed, m)
			}
		}
	}
	// a handler held in a field of the bound receiver
	recvField := func(fn *ssa.Function, v ssa.Value) string {
		if _, isBound := bound[fn]; !isBound || len(fn.Params) == 0 {
			return ""
		}
		u, ok := v.(*ssa.UnOp)
		if !ok || u.Op != token.MUL {
			return ""
		}
		fa, ok := u.X.(*ssa.FieldAddr)
		if !ok {
			return ""
		}
		base := fa.X
		if al, isAlloc := base.(*ssa.Alloc); isAlloc { // value receiver spilled to a local
			for _, r := range core.Referrers(al) {
				if st, isSt := r.(*ssa.Store); isSt && st.Addr == ssa.Value(al) {
					base = st.Val
				}
			}
		}
		if base != ssa.Value(fn.Params[0]) {
			return ""
		}
		if fr, ok := core.FieldOfAddr(fa); ok {
			return fr.Name
		}
		return ""
	}
	R.Floor("C19.R2", "composed session handlers built by SessionMiddleware", len(composed), 1)
	okReg := false
	for _, fn := range composed {
		R.Analysed(fname(fn))
		fk := fkey(fn)
		var calls []*ssa.Call
		for _, ci := range core.Calls(fn) {
			call, ok := ci.(*ssa.Call)
			if !ok {
				continue
			}
			if (capturedVar(call.Call.Value) != nil || recvField(fn, call.Call.Value) != "") && sh != nil && types.Identical(call.Call.Value.Type().Underlying(), sh.Underlying()) {
				calls = append(calls, call)
			}
		}
		if len(calls) != 2 {
			R.Fail("C19.R2", fk+":two-handlers", c.atFn(fn), "the composed handler calls the previously registered handler and the new one, once each", sprintf("%d calls of captured session handlers", len(calls)))
			continue
		}
		first, second := calls[0], calls[1]
		if !core.InstrDominates(first, second) {
			first, second = second, first
		}
		loops := core.Loops(fn)
		inLoop := false
		for _, l := range loops {
			if l.Body[first.Block()] || l.Body[second.Block()] {
				inLoop = true
			}
		}
		R.Check(core.InstrDominates(first, second) && !inLoop, "C19.R2", fk+":parent-first-once", c.at(first), "the earlier handler runs first, and each handler runs exactly once", "the first call dominates the second; neither is in a loop", "the two handler calls are not ordered by dominance or sit in a loop")
		// parent = the free variable bound to the parameter of the wrapper (the previous srv.Session); fn = the option's argument
		perr := resultOf(first, 1)
		pctx := resultOf(first, 0)
		okEdge := perr != nil && anyDominates(nilEdges(perr, true), second.Block())
		R.Check(okEdge, "C19.R2", fk+":second-only-on-success", c.at(second), "the next handler runs only if its predecessor returned no error (tested on the predecessor's own error result)", "the second call is dominated by the err == nil edge of the first call's error result", "the second handler call is not dominated by the nil edge of the first call's own error result (the error may be dropped, or read from shared state that another connection can overwrite)")
		R.Check(pctx != nil && len(second.Call.Args) == 1 && second.Call.Args[0] == pctx, "C19.R2", fk+":receives-predecessor-context", c.at(second), "each handler receives its predecessor's context", "argument is result #0 of the first call", "the second handler does not receive the context returned by the first")
		// on the failing edge the predecessor's error is returned
		for _, ret := range returns(fn) {
			ev := errOperand(ret)
			if ev == nil {
				continue
			}
			roots := core.ErrRoots(ev)
			ok := true
			for _, r := range roots {
				if r != ssa.Value(first) && r != ssa.Value(second) {
					ok = false
				}
			}
			R.Check(ok, "C19.R2", fk+":returns-handler-error:"+retDescr(ret), c.at(ret), "the composed handler returns exactly the error of the handler that failed", "error operand is a result of one of the two handler calls", "the returned error does not come directly from the handler calls (e.g. it is re-read from a captured variable)")
		}
		// which captured variable is the parent: the first callee must be bound to the value Server.Session
		// had when the middleware was registered, and the composed handler must become the new Server.Session
		fv := capturedVar(first.Call.Value)
		prevOK, regOK := false, false
		why := "the first callee is not a captured variable"
		if fv != nil && fn.Parent() != nil {
			why = c.chainBinding(fn, fv, &prevOK, &regOK, allNested(sm))
		}
		if bl, isBound := bound[fn]; isBound {
			// the field the first callee is read from holds the Server.Session value read at registration, and the method
			// value becomes the new Server.Session
			fld := recvField(fn, first.Call.Value)
			why = "the field " + fld + " of the bound receiver is not assigned the current Server.Session"
			nSt := 0
			for _, r := range core.Referrers(bl.recv) {
				fa, isFA := r.(*ssa.FieldAddr)
				if !isFA {
					continue
				}
				fr, ok := core.FieldOfAddr(fa)
				if !ok || fr.Name != fld {
					continue
				}
				for _, r2 := range core.Referrers(fa) {
					if st, isSt := r2.(*ssa.Store); isSt && st.Addr == ssa.Value(fa) {
						nSt++
						if sf, ok := core.FieldOfValue(st.Val); ok && sf.Is(pkWire, "Server", "Session") {
							prevOK = true
						} else {
							prevOK, nSt = false, 99
						}
					}
				}
			}
			if nSt != 1 {
				prevOK = false
			}
			for _, b := range bl.mc.Parent().Blocks {
				for _, in := range b.Instrs {
					if st, isSt := in.(*ssa.Store); isSt {
						if fr, ok := core.FieldOfAddr(st.Addr); ok && fr.Is(pkWire, "Server", "Session") {
							v := st.Val
							if ct, isCT := v.(*ssa.ChangeType); isCT {
								v = ct.X
							}
							if v == ssa.Value(bl.mc) {
								regOK = true
							}
						}
					}
				}
			}
		}
		R.Check(prevOK, "C19.R2", fk+":first-is-previous", c.at(first), "the handler that runs first is the previously registered chain, so middlewares run in registration order", "the first callee is bound to the value of Server.Session read before the registration", "cannot establish that the first callee is the previously registered handler: "+why)
		if regOK {
			okReg = true
		}
	}
	R.Check(okReg, "C19.R2", "SessionMiddleware:wraps-current-chain", c.atFn(sm), "registering a middleware wraps the current Server.Session chain", "Server.Session = composed handler over the previous Server.Session", "no store of the composed handler (over the previous Server.Session) to Server.Session found")
}

// chainBinding resolves what the captured variable fv of the composed handler fn is bound to and where
// the composed handler goes. Two shapes are accepted: the closure is built in place (binding = a load
// of Server.Session that precedes the store of the closure to Server.Session), or by a wrapper function
// literal (binding = the wrapper's parameter, the wrapper returns the closure, and the store is
// Server.Session = wrapper(Server.Session)).
func (c *Ctx) chainBinding(fn *ssa.Function, fv *ssa.FreeVar, prevOK, regOK *bool, optionFns []*ssa.Function) string {
	idx := -1
	for i, v := range fn.FreeVars {
		if v == fv {
			idx = i
		}
	}
	var mc *ssa.MakeClosure
	for _, b := range fn.Parent().Blocks {
		for _, in := range b.Instrs {
			if m, ok := in.(*ssa.MakeClosure); ok && m.Fn == ssa.Value(fn) {
				mc = m
			}
		}
	}
	if mc == nil || idx < 0 || idx >= len(mc.Bindings) {
		return "closure construction not found"
	}
	bind := mc.Bindings[idx]
	if a, isAlloc := bind.(*ssa.Alloc); isAlloc { // captured by reference: the cell holds the value
		n := 0
		for _, r := range core.Referrers(a) {
			if st, ok := r.(*ssa.Store); ok && st.Addr == ssa.Value(a) {
				bind = st.Val
				n++
			}
		}
		if n != 1 {
			return sprintf("the captured cell is assigned %d times", n)
		}
	}
	isSessionLoad := func(v ssa.Value) bool {
		fr, ok := core.FieldOfValue(v)
		return ok && fr.Is(pkWire, "Server", "Session")
	}
	// stores to Server.Session in the function that builds the value
	sessionStores := func(f *ssa.Function) []*ssa.Store {
		var out []*ssa.Store
		for _, b := range f.Blocks {
			for _, in := range b.Instrs {
				if st, ok := in.(*ssa.Store); ok {
					if fr, ok := core.FieldOfAddr(st.Addr); ok && fr.Is(pkWire, "Server", "Session") {
						out = append(out, st)
					}
				}
			}
		}
		return out
	}
	strip := func(v ssa.Value) ssa.Value {
		for {
			if ct, ok := v.(*ssa.ChangeType); ok {
				v = ct.X
				continue
			}
			return v
		}
	}
	w := fn.Parent()
	if prm, isParam := bind.(*ssa.Parameter); isParam {
		// wrapper shape: a function literal inside the option, or a named function the option calls
		named := w.Parent() == nil
		for _, r := range returns(w) {
			if len(r.Results) != 1 || strip(forwardLoad(r.Results[0])) != ssa.Value(mc) {
				return "the wrapper does not return the composed handler on every path"
			}
		}
		pi := -1
		for i, p := range w.Params {
			if p == prm {
				pi = i
			}
		}
		var mw *ssa.MakeClosure
		var wv ssa.Value
		hosts := optionFns
		if !named {
			hosts = []*ssa.Function{w.Parent()}
		}
		for _, b := range hosts[0].Blocks {
			if named {
				break
			}
			for _, in := range b.Instrs {
				if m, ok := in.(*ssa.MakeClosure); ok && m.Fn == ssa.Value(w) {
					mw = m
				}
			}
		}
		if mw != nil {
			wv = mw
		} else {
			wv = w // a function literal without captures
		}
		nSites := 0
		var stores []*ssa.Store
		for _, h := range hosts {
			stores = append(stores, sessionStores(h)...)
		}
		for _, st := range stores {
			call, ok := strip(st.Val).(*ssa.Call)
			if !ok || strip(call.Call.Value) != wv && !(mw == nil && core.StaticCallee(call) == w) {
				continue
			}
			nSites++
			if pi < len(call.Call.Args) && isSessionLoad(call.Call.Args[pi]) {
				*prevOK, *regOK = true, true
			} else {
				return "the wrapper is not applied to the current Server.Session"
			}
		}
		if nSites == 0 {
			return "no Server.Session = wrapper(..) store"
		}
		return ""
	}
	// in-place shape
	if !isSessionLoad(bind) {
		return "the binding is neither the wrapper's parameter nor a read of Server.Session"
	}
	ld, _ := core.Strip(bind).(ssa.Instruction)
	for _, st := range sessionStores(w) {
		if strip(st.Val) != ssa.Value(mc) {
			continue
		}
		*regOK = true
		if ld != nil && core.InstrDominates(ld, st) {
			*prevOK = true
		} else {
			return "Server.Session is read after the composed handler was stored (the handler would call itself)"
		}
	}
	if !*regOK {
		return "the composed handler is not stored to Server.Session"
	}
	return ""
}

func allNested(fn *ssa.Function) []*ssa.Function {
	out := []*ssa.Function{fn}
	for _, a := range fn.AnonFuncs {
		out = append(out, allNested(a)...)
	}
	return out
}

// R3: context provenance
func (c *Ctx) c19Contexts() {
	R := c.R
	nCB, nInternal := 0, 0
	for _, fn := range c.P.ScopeFuncs() {
		if !c.P.InPkg(fn, "wire") {
			continue
		}
		// the function's own context: parameter or captured variable
		hasOwn := false
		for _, p := range fn.Params {
			if isCtxType(p.Type()) {
				hasOwn = true
			}
		}
		for _, fv := range fn.FreeVars {
			if isCtxType(fv.Type()) {
				hasOwn = true
			}
		}
		for _, ci := range core.Calls(fn) {
			cc := ci.Common()
			var ctxArg ssa.Value
			for _, a := range cc.Args {
				if isCtxType(a.Type()) {
					ctxArg = a
					break
				}
			}
			if ctxArg == nil {
				continue
			}
			cb := callbackName(ci)
			callee := core.StaticCallee(ci)
			isCache := cc.IsInvoke() && (core.IsNamed(cc.Value.Type(), pkWire, "StatementCache") || core.IsNamed(cc.Value.Type(), pkWire, "PortalCache"))
			internal := callee != nil && c.P.InPkg(callee, "wire")
			if cb == "" && !isCache && !internal {
				continue
			}
			var chain []string
			roots := c.ctxRoots(ctxArg, &chain, map[ssa.Value]bool{})
			ok := len(roots) > 0
			why := ""
			for _, r := range roots {
				switch x := r.(type) {
				case *ssa.Parameter, *ssa.FreeVar:
					if !isCtxType(x.Type()) {
						ok, why = false, "root "+x.Name()
					}
				case *ssa.UnOp:
					if fr, isF := core.FieldOfValue(x); isF && isCtxType(x.Type()) && fr.Struct != nil && fr.Struct.Obj().Name() == "dataWriter" {
						continue // the context the writer was constructed with
					}
					ok, why = false, "a loaded value"
				case *ssa.Call:
					// context.Background() is the per-connection root only in the accept loop's goroutine
					if cal := core.StaticCallee(x); cal != nil && cal.Pkg != nil && cal.Pkg.Pkg.Path() == "context" && (cal.Name() == "Background" || cal.Name() == "TODO") {
						if callee := core.StaticCallee(ci); callee != nil && callee == c.P.Method("wire", "Server", "serve") {
							continue // the root of a connection's context: what Serve's connection goroutine hands to serve
						}
						ok, why = false, "context."+cal.Name()+"()"
					} else {
						ok, why = false, "result of "+callDescr(x)
					}
				default:
					ok, why = false, "a value that is not derived from the function's context"
				}
			}
			_ = hasOwn
			kind := "internal:" + callDescr(ci)
			if cb != "" {
				kind = "callback:" + cb
				nCB++
			} else if isCache {
				kind = "cache:" + cc.Method.Name()
				nCB++
			} else {
				nInternal++
			}
			R.Check(ok, "C19.R3", fkey(fn)+":ctx:"+kind, c.at(ci), "the context passed on is derived from the enclosing function's own context", sprintf("rooted at the function's context (%d producer(s))", len(chain)), "the context argument is rooted at "+why+": the callee loses the connection's context values / cancellation")
		}
	}
	R.Floor("C19.R3", "callback / cache call sites receiving a context", nCB, 10)
	R.Floor("C19.R3", "internal call sites receiving a context", nInternal, 15)

	// the chain of serve: setters + session middleware before the command loop
	serve := c.P.Method("wire", "Server", "serve")
	cc := c.P.Method("wire", "Session", "consumeCommands")
	if serve != nil && cc != nil {
		for _, ci := range callsIn(serve, calleeIs(cc)) {
			var chain []string
			c.ctxRoots(ci.Common().Args[1], &chain, map[ssa.Value]bool{})
			have := map[string]bool{}
			for _, p := range chain {
				have[p] = true
			}
			for _, need := range []string{"setTypeInfo", "setRemoteAddress", "setClientParameters", "setServerParameters", "CB:session"} {
				R.Check(have[need], "C19.R3", "serve:context-chain:"+need, c.at(ci), "the context the command loop (and hence every parser / statement call) receives passes through "+need, sprintf("producer chain %v", chain), "the command loop's context does not pass through "+need+": handlers cannot read that connection value")
			}
		}
	}

	// handleCommand: cancellable context, cancelled on every exit
	if hc := c.mustMethod("C19.R3", "wire", "Session", "handleCommand"); hc != nil {
		var wc *ssa.Call
		for _, ci := range core.Calls(hc) {
			if call, ok := ci.(*ssa.Call); ok {
				if cal := core.StaticCallee(call); cal != nil && cal.Pkg != nil && cal.Pkg.Pkg.Path() == "context" && strings.HasPrefix(cal.Name(), "WithCancel") {
					wc = call
				}
			}
		}
		if wc == nil {
			R.Fail("C19.R3", "handleCommand:per-command-context", c.atFn(hc), "every command runs with its own cancellable context", "no context.WithCancel in handleCommand")
		} else {
			cancel := resultOf(wc, 1)
			derived := resultOf(wc, 0)
			deferred := false
			for _, ci := range core.Calls(hc) {
				if d, ok := ci.(*ssa.Defer); ok && d.Call.Value == cancel {
					all := true
					for _, r := range returns(hc) {
						if r.Block() != hc.Recover && !core.InstrDominates(d, r) {
							all = false
						}
					}
					deferred = all
				}
			}
			R.Check(deferred, "C19.R3", "handleCommand:cancel-on-exit", c.at(wc), "the per-command context is cancelled when the command ends, on every exit", "defer cancel() dominates every return", "the cancel function is not deferred before every return")
			// every handler call in the dispatch receives the derived context (when the switch lives in a function of its
			// own, that function receives it and hands its context parameter to the handlers)
			n := 0
			_, fwdCalls := c.dispatcher()
			isFwd := func(ci ssa.CallInstruction) bool {
				for _, f := range fwdCalls {
					if f == ci {
						return true
					}
				}
				return false
			}
			var visit func(fn *ssa.Function, derived ssa.Value, depth int)
			visit = func(fn *ssa.Function, derived ssa.Value, depth int) {
				for _, ci := range core.Calls(fn) {
					callee := core.StaticCallee(ci)
					if (callee == nil || !c.P.InPkg(callee, "wire")) && callbackName(ci) == "" {
						continue // neither a handler of the library nor a user hook called from the dispatch itself
					}
					for i, a := range ci.Common().Args {
						if isCtxType(a.Type()) {
							n++
							R.Check(a == derived, "C19.R3", "handleCommand:handler-gets-command-context:"+callDescr(ci), c.at(ci), "handlers receive the per-command context", "argument is the WithCancel result", "a handler receives a context other than the per-command one")
							if isFwd(ci) && depth < 3 && callee != nil {
								if i < len(callee.Params) { // Args of a static method call include the receiver, as Params do
									visit(callee, callee.Params[i], depth+1)
								}
							}
						}
					}
				}
			}
			visit(hc, derived, 0)
			R.Floor("C19.R3", "handler calls receiving the per-command context", n, 6)
		}
	}
}

// terminateRule: automaton of the Terminate arm.
type terminateRule struct{ c *Ctx }

func (r terminateRule) step(tc *traceClient, x *core.TSCtx, site ssa.Instruction, q, ev string) string {
	bad := func(why string) string {
		tc.fail("C19.R4", x, site, "Terminate:"+ev+"@"+q, "Terminate: the hook is invoked at most once, then the connection is closed, and nothing else happens", why)
		return q
	}
	switch ev {
	case "READ":
		return q
	case "CB:terminate":
		if q != "start" {
			return bad("the terminate hook is invoked more than once (or after the close)")
		}
		return "hooked"
	case "FAIL:terminate":
		return "hookfailed"
	case "CLOSE":
		if q == "hookfailed" {
			return q
		}
		if q == "closed" {
			return bad("the connection is closed twice")
		}
		return "closed"
	}
	return bad("event " + ev + " in the Terminate arm")
}

func (r terminateRule) ret(tc *traceClient, x *core.TSCtx, ret *ssa.Return, q string, err core.ErrK) string {
	if len(x.Stack) != 0 {
		return q
	}
	switch q {
	case "closed":
		if err != core.KNonNil {
			cls := r.c.Err().Classify(errOperand(ret), ret.Block())
			if cls.MayBeNil() {
				tc.fail("C19.R4", x, ret, "Terminate:return-after-close", "after closing the connection the arm returns a non-nil result so that the command loop stops", "the Terminate arm can return nil after closing the connection: the loop continues and serves messages still buffered behind the Terminate")
			}
		}
	case "hookfailed":
		if err == core.KNil {
			tc.fail("C19.R4", x, ret, "Terminate:hook-error-dropped", "a failing terminate hook ends the connection with its error", "the arm returns nil after the hook failed")
		}
	default:
		if err != core.KNonNil {
			tc.fail("C19.R4", x, ret, "Terminate:no-close@"+q, "a Terminate message closes the connection", "the Terminate arm can return without closing the connection (state "+q+")")
		}
	}
	return q
}

func (c *Ctx) c19Terminate() {
	R := c.R
	wrap := c.mustMethod("C19.R4", "wire", "Session", "handleCommand")
	if wrap == nil {
		return
	}
	// the function holding the switch on the message type: handleCommand, or the function it forwards to
	hc, fwdCalls := c.dispatcher()
	if hc == nil {
		hc = wrap
	}
	var tparam, connParam *ssa.Parameter
	for _, p := range hc.Params {
		if core.IsNamed(p.Type(), pkTypes, "ClientMessage") {
			tparam = p
		}
		if core.IsNamed(p.Type(), "net", "Conn") {
			connParam = p
		}
	}
	if tparam == nil {
		R.Fail("C19.R4", "handleCommand:parameters", c.atFn(hc), "handleCommand dispatches on the message type", "no ClientMessage parameter found")
		return
	}
	// who closes the connection after Terminate: the arm itself (on the session's connection), or serve - whose
	// deferred Close on the accepted connection runs when the command loop ends with the arm's non-nil result
	closesAtEnd := false
	if serve := c.P.Method("wire", "Server", "serve"); serve != nil {
		cc := c.P.Method("wire", "Session", "consumeCommands")
		for _, ci := range core.Calls(serve) {
			d, isDefer := ci.(*ssa.Defer)
			if !isDefer || !d.Call.IsInvoke() || d.Call.Method.Name() != "Close" || !core.IsNamed(d.Call.Value.Type(), "net", "Conn") {
				continue
			}
			if _, isParam := d.Call.Value.(*ssa.Parameter); !isParam {
				continue
			}
			for _, loop := range callsIn(serve, calleeIs(cc)) {
				if core.InstrDominates(d, loop) {
					closesAtEnd = true
				}
			}
		}
	}
	armCloses := false
	for _, ci := range core.Calls(hc) {
		if cc := ci.Common(); cc.IsInvoke() && cc.Method.Name() == "Close" && core.IsNamed(cc.Value.Type(), "net", "Conn") {
			armCloses = true
		}
	}
	R.Check(armCloses || closesAtEnd, "C19.R4", "Terminate:someone-closes", c.atFn(hc), "after Terminate the connection is closed: by the arm, or by serve's deferred Close once the command loop has ended with the arm's result", sprintf("arm closes: %v; serve defers Close of the accepted connection before the command loop: %v", armCloses, closesAtEnd), "neither the Terminate arm nor a deferred Close in serve closes the connection")
	if connParam == nil && !closesAtEnd {
		R.Fail("C19.R4", "Terminate:closes-session-connection", c.atFn(hc), "the Terminate arm has the session's connection at hand and closes it", "handleCommand does not receive the connection: the Terminate arm cannot close it")
	}
	tc := newTraceClient(c, terminateRule{c})
	ts := core.NewTS(c.P, tc)
	ts.Relevant = c.reachesEvents()
	before := len(R.Obls)
	outs := ts.Run(hc, joinState("", "start"), core.ConstEnv(tparam, constant.MakeInt64('X')))
	R.Check(tc.Events["CB:terminate"] > 0 && (tc.Events["CLOSE"] > 0 || (closesAtEnd && !armCloses)), "C19.R4", "floor:terminate-events", c.atFn(hc), "the terminate hook call and the connection close are on explored paths of the arm", sprintf("%v", tc.Events), "hook call or close not found in the Terminate arm")
	if len(R.Obls) == before+1 {
		R.OK("C19.R4", "Terminate:arm", c.atFn(hc), "every path of the Terminate arm: hook at most once, close, non-nil result", sprintf("%d exits, %d states", len(outs), ts.States))
	}
	// a configured hook is invoked on every path of the arm (exactly once = at most once above + never skipped):
	// in the function that calls it, only the TerminateConn == nil edge may bypass the call; up the call chain to
	// the arm, the call of that function is not bypassed at all
	var hookFn *ssa.Function
	var hookCall ssa.CallInstruction
	for _, fn := range c.P.ScopeFuncs() {
		for _, ci := range core.Calls(fn) {
			if callbackName(ci) == "terminate" {
				hookFn, hookCall = fn, ci
			}
		}
	}
	if hookFn != nil {
		skip := map[edge]bool{}
		for _, prm := range hookFn.Params { // the hook handed in as an argument: its nil test is the same test
			if hookOfParam(prm) == "terminate" {
				for _, e := range nilEdges(prm, true) {
					skip[e] = true
				}
			}
		}
		for _, b := range hookFn.Blocks {
			for _, in := range b.Instrs {
				if u, ok := in.(*ssa.UnOp); ok {
					if fr, ok := core.FieldOfValue(u); ok && fr.Is(pkWire, "Server", "TerminateConn") {
						for _, e := range nilEdges(u, true) {
							skip[e] = true
						}
					}
				}
			}
		}
		hookStart := hookFn.Blocks[0]
		if hookFn == hc {
			// the hook is called in the arm itself: the paths that matter start where the type test selected Terminate
			for _, e := range constEqEdges(tparam, int64('X'), true) {
				hookStart = e.to()
			}
		}
		bypass := mustPassViolations(hookStart, hookCall.Block(), skip)
		for _, r := range bypass {
			R.Fail("C19.R4", fkey(hookFn)+":hook-skipped:"+retDescr(r), c.at(r), "a configured terminate hook is invoked for every Terminate message of every connection", "a return of "+fname(hookFn)+" is reachable without invoking the hook although TerminateConn != nil (the hook runs zero times for some Terminate messages)")
		}
		if len(bypass) == 0 {
			R.OK("C19.R4", fkey(hookFn)+":hook-never-skipped", c.at(hookCall), "a configured terminate hook is invoked for every Terminate message of every connection", "only the TerminateConn == nil edge bypasses the hook call (must-pass-through)")
		}
		// from the arm down to hookFn
		cur := hookFn
		for cur != hc {
			sites := c.P.CallSitesOf(cur)
			if len(sites) != 1 {
				R.Fail("C19.R4", fkey(cur)+":terminate-chain", c.atFn(cur), "the terminate hook is reached from the Terminate arm through single call sites", sprintf("%d call sites", len(sites)))
				break
			}
			site := sites[0]
			up := site.Parent()
			start := up.Blocks[0]
			if up == hc {
				start = nil
				for _, e := range constEqEdges(tparam, int64('X'), true) {
					start = e.to()
				}
			}
			if start != nil {
				for _, r := range mustPassViolations(start, site.Block(), nil) {
					R.Fail("C19.R4", fkey(up)+":terminate-call-skipped:"+retDescr(r), c.at(r), "a configured terminate hook is invoked for every Terminate message of every connection", fname(up)+" can return from the Terminate path without calling "+fname(cur))
				}
			}
			cur = up
		}
	}
	// Terminate is honoured wherever the session reads and dispatches client messages: besides the command loop
	// that is the COPY reader, which dispatches on the message type itself
	for _, fn := range c.P.ScopeFuncs() {
		if !c.P.InPkg(fn, "wire") || fn == hc {
			continue
		}
		if fn.Signature.Recv() == nil {
			continue
		}
		if n := core.NamedOf(fn.Signature.Recv().Type()); n == nil || n.Obj().Name() != "CopyReader" {
			continue
		}
		for _, ci := range core.Calls(fn) {
			call, ok := ci.(*ssa.Call)
			if !ok || !isReaderMethod(call, "ReadTypedMsg") {
				continue
			}
			typed := resultOf(call, 0)
			handles := typed != nil && len(constEqEdges(typed, int64('X'), true)) > 0
			R.Check(handles, "C19.R4", fkey(fn)+":terminate-while-copying", c.at(call), "a Terminate message that arrives while a statement reads a COPY stream still leads to the terminate hook and the close of the connection", "the COPY reader recognises Terminate", "the COPY reader treats Terminate like any other non-COPY message: it is consumed, the handler sees an error, the server answers E + Z and keeps serving the connection - the terminate hook never runs and the connection is not closed")
		}
	}
	// the Close is invoked on the connection parameter
	for _, ci := range core.Calls(hc) {
		cc := ci.Common()
		if cc.IsInvoke() && cc.Method.Name() == "Close" && core.IsNamed(cc.Value.Type(), "net", "Conn") {
			R.Check(connParam != nil && cc.Value == ssa.Value(connParam), "C19.R4", "Terminate:closes-session-connection", c.at(ci), "the connection closed is the one the session reads from", "receiver is handleCommand's conn parameter", "Close is invoked on a different connection value")
		}
	}
	// conn identity along the call chain
	chain := []struct{ callee, caller string }{{"handleCommand", "consumeSingleCommand"}, {"consumeSingleCommand", "consumeCommands"}}
	for _, lk := range chain {
		callee := c.P.Method("wire", "Session", lk.callee)
		caller := c.P.Method("wire", "Session", lk.caller)
		if callee == nil || caller == nil {
			continue
		}
		for _, ci := range callsIn(caller, calleeIs(callee)) {
			if !armCloses {
				continue // the connection is closed by serve, nothing is handed down
			}
			ok := false
			for _, a := range ci.Common().Args {
				if p, isP := a.(*ssa.Parameter); isP && core.IsNamed(p.Type(), "net", "Conn") {
					ok = true
				}
			}
			R.Check(ok, "C19.R4", lk.caller+":passes-own-connection", c.at(ci), lk.caller+" hands its own connection to "+lk.callee, "argument is the caller's conn parameter", "the connection passed down is not the caller's own")
		}
	}
	// consumeSingleCommand (and handleCommand, when the switch lives in a function of its own) forwards the
	// handler's result unchanged; consumeCommands stops on it
	forwards := func(fn *ssa.Function, call *ssa.Call) bool {
		fwd := false
		for _, r := range returns(fn) {
			roots := core.ErrRoots(errOperand(r))
			if len(roots) == 1 && roots[0] == ssa.Value(call) && core.InstrDominates(call, r) {
				// every path from the handler call to a return reaches this return?
				fwd = true
			}
		}
		// no return after the call may replace the result by nil
		for _, r := range returns(fn) {
			if !core.InstrDominates(call, r) {
				continue
			}
			roots := core.ErrRoots(errOperand(r))
			for _, root := range roots {
				if root != ssa.Value(call) {
					fwd = false
				}
			}
		}
		return fwd
	}
	if csc := c.P.Method("wire", "Session", "consumeSingleCommand"); csc != nil {
		for _, ci := range callsIn(csc, calleeIs(wrap)) {
			call, ok := ci.(*ssa.Call)
			if !ok {
				continue
			}
			R.Check(forwards(csc, call), "C19.R4", "consumeSingleCommand:forwards-handler-result", c.at(call), "the result of handleCommand (io.EOF after Terminate) reaches the command loop unchanged", "every return after the handler call returns the call's own error", "a return after the handler call replaces its error (e.g. io.EOF -> nil): after Terminate the loop keeps serving buffered messages")
		}
	}
	for _, ci := range fwdCalls {
		call, ok := ci.(*ssa.Call)
		if !ok {
			R.Fail("C19.R4", fkey(ci.Parent())+":forwards-dispatch-result", c.at(ci), "the result of the dispatch (io.EOF after Terminate) reaches the command loop unchanged", "the dispatch function is not called by a plain call whose result is returned")
			continue
		}
		R.Check(forwards(ci.Parent(), call), "C19.R4", fkey(ci.Parent())+":forwards-dispatch-result", c.at(call), "the result of the dispatch (io.EOF after Terminate) reaches the command loop unchanged", "every return after the dispatch call returns the call's own error", "a return after the dispatch call replaces its error (e.g. io.EOF -> nil): after Terminate the loop keeps serving buffered messages")
		if armCloses {
			okc := false
			for _, a := range ci.Common().Args {
				if p, isP := a.(*ssa.Parameter); isP && core.IsNamed(p.Type(), "net", "Conn") {
					okc = true
				}
			}
			R.Check(okc, "C19.R4", fkey(ci.Parent())+":passes-own-connection", c.at(ci), fname(ci.Parent())+" hands its own connection to the dispatch", "argument is the caller's conn parameter", "the connection passed down is not the caller's own")
		}
	}
	if ccm := c.P.Method("wire", "Session", "consumeCommands"); ccm != nil {
		csc := c.P.Method("wire", "Session", "consumeSingleCommand")
		for _, ci := range callsIn(ccm, calleeIs(csc)) {
			call, ok := ci.(*ssa.Call)
			if !ok {
				continue
			}
			stops := c.stopsOnError(call)
			R.Check(stops, "C19.R4", "consumeCommands:stops-on-error", c.at(call), "the command loop ends as soon as a command returns a non-nil result", "the non-nil edge returns that error", "the loop does not return on a non-nil command result")
		}
	}
}

// capturedVar returns the free variable behind a callee value (captured by value or by reference).
func capturedVar(v ssa.Value) *ssa.FreeVar {
	if fv, ok := v.(*ssa.FreeVar); ok {
		return fv
	}
	if u, ok := v.(*ssa.UnOp); ok {
		if fv, ok := u.X.(*ssa.FreeVar); ok {
			return fv
		}
	}
	return nil
}

// mustPassViolations returns the returns reachable from start without entering block target and
// without taking any edge of skip.
func mustPassViolations(start, target *ssa.BasicBlock, skip map[edge]bool) []*ssa.Return {
	var out []*ssa.Return
	seen := map[*ssa.BasicBlock]bool{}
	var walk func(b *ssa.BasicBlock)
	walk = func(b *ssa.BasicBlock) {
		if seen[b] || b == target {
			return
		}
		seen[b] = true
		if r, ok := b.Instrs[len(b.Instrs)-1].(*ssa.Return); ok {
			out = append(out, r)
		}
		for i, s := range b.Succs {
			if skip[edge{b, i}] {
				continue
			}
			walk(s)
		}
	}
	walk(start)
	return out
}
