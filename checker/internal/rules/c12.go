package rules

import (
	"go/token"
	"strings"

	"golang.org/x/tools/go/ssa"

	"pwv/internal/core"
)

func init() { Registry["C12"] = runC12 }

const versionCancel = 80877102

// serveRule: order of the start-up negotiation in Server.serve.
type serveRule struct{ c *Ctx }

// state: <phase>[+cancel|+mcancel]   phases: pre, authed, sess, loop, failed
// +cancel: the current function saw version == CancelRequest; +mcancel: a callee did and returned
// (cleared again by an edge asserting version != CancelRequest).
func splitCancel(q string) (ph, flag string) {
	// +nc (phase pre only): the version last read was tested and is not a CancelRequest
	for _, f := range []string{"+cancel", "+mcancel", "+nc"} {
		if strings.HasSuffix(q, f) {
			return strings.TrimSuffix(q, f), f
		}
	}
	return q, ""
}

func (r serveRule) step(tc *traceClient, x *core.TSCtx, site ssa.Instruction, q, ev string) string {
	ph, suffix := splitCancel(q)
	cancel := suffix == "+cancel" || suffix == "+mcancel"
	bad := func(rule, construct, why string) string {
		tc.fail(rule, x, site, "serve:"+construct, "start-up negotiation: [SSL byte] authentication, ParameterStatus*, session middleware, exactly one ReadyForQuery, then the command loop", why)
		return q
	}
	if ev == "READ" || ev == "CLOSE" || strings.HasPrefix(ev, "CACHE:") || ev == "CB:extendTypes" {
		return q
	}
	if cancel {
		if strings.HasPrefix(ev, "FAIL:") {
			return q
		}
		return bad("C12.R5", "cancel:"+ev, "after a CancelRequest was recognised the server emits "+ev+": a cancel packet must be closed without any protocol reply or callback")
	}
	if strings.HasPrefix(ev, "FAIL:") {
		return "failed"
	}
	if ph == "loop" {
		return q
	}
	if ph == "failed" {
		if ev == "M:E" { // reporting the failure before closing is permitted (ErrorCode: E then Z)
			return "failedE"
		}
		return bad("C12.R1", "after-failure:"+ev, "event "+ev+" after the authentication / session step failed: the connection must end")
	}
	if ph == "failedE" {
		return bad("C12.R1", "after-failure:"+ev, "event "+ev+" after the authentication / session step failed and was reported: the connection must end (a ReadyForQuery here tells a client that was not admitted that the server is ready)")
	}
	if ph == "failedZ" {
		return bad("C12.R1", "after-failure:"+ev, "event "+ev+" after the authentication / session step failed: the connection must end")
	}
	if ph == "pre" && strings.HasPrefix(ev, "M:") && suffix != "+nc" {
		// nothing has established that this packet is not a CancelRequest (the version read last - after an SSL
		// reply a new one is read - was not compared with it): a cancel packet must not be answered
		return bad("C12.R5", "reply-before-cancel-test:"+ev, "message "+ev+" can be sent although the version read last has not been tested against CancelRequest on this path: a cancel packet (before or after the SSL negotiation) would receive a protocol reply")
	}
	switch {
	case strings.HasPrefix(ev, "RAW:"):
		if ph != "pre" {
			return bad("C12.R1", ev+"@"+ph, "an SSL reply byte after the authentication step")
		}
		return "pre" // the SSL answer is followed by a new start-up packet: what was known about the version is stale
	case ev == "M:R0" || ev == "CB:auth":
		if ph != "pre" {
			return bad("C12.R1", ev+"@"+ph, "a second authentication step")
		}
		return "authed"
	case ev == "M:R3" || ev == "CB:validate" || ev == "M:R?":
		return q
	case ev == "M:S":
		if ph != "authed" && ph != "sess" {
			return bad("C12.R1", ev+"@"+ph, "ParameterStatus before the authentication step succeeded")
		}
		return q
	case ev == "CB:session":
		if ph != "authed" {
			return bad("C12.R1", ev+"@"+ph, "the session middleware runs outside its slot (after authentication, once, before ReadyForQuery); phase "+ph)
		}
		return "sess"
	case ev == "CB:newStatementCache" || ev == "CB:newPortalCache":
		if ph != "sess" && ph != "authed" {
			return bad("C12.R1", ev+"@"+ph, "per-connection caches are created before authentication")
		}
		return q
	case ev == "M:Z":
		if ph != "sess" {
			return bad("C12.R1", ev+"@"+ph, "ReadyForQuery before authentication, ParameterStatus and session middleware completed (phase "+ph+")")
		}
		return "loop"
	case ev == "M:E":
		return "failedE"
	}
	return bad("C12.R1", ev+"@"+ph, "unexpected event "+ev+" during start-up (phase "+ph+")")
}

func (r serveRule) ret(tc *traceClient, x *core.TSCtx, ret *ssa.Return, q string, err core.ErrK) string {
	if ph, f := splitCancel(q); f == "+cancel" && len(x.Stack) > 0 {
		return ph + "+mcancel"
	}
	return q
}

// edge marks paths on which the protocol version was recognised as a CancelRequest.
func (r serveRule) edge(tc *traceClient, x *core.TSCtx, from, to *ssa.BasicBlock, q string) string {
	iff, ok := from.Instrs[len(from.Instrs)-1].(*ssa.If)
	if !ok {
		return q
	}
	cond := iff.Cond
	// the test may be a predicate of the package: isCancelRequest(version) { return version == VersionCancel }
	if call, isCall := cond.(*ssa.Call); isCall {
		if h := core.StaticCallee(call); h != nil && tc.c.P.InPkg(h, "wire") && len(h.Blocks) == 1 && len(h.Params) >= 1 {
			if rs := returns(h); len(rs) == 1 && len(rs[0].Results) == 1 {
				if hb, isB := rs[0].Results[0].(*ssa.BinOp); isB {
					_, xp := core.StripConv(hb.X).(*ssa.Parameter)
					_, yp := core.StripConv(hb.Y).(*ssa.Parameter)
					if xp || yp {
						cond = hb
					}
				}
			}
		}
	}
	b, ok := cond.(*ssa.BinOp)
	if !ok || (b.Op != token.EQL && b.Op != token.NEQ) {
		return q
	}
	k, ok := core.ConstInt(b.Y)
	if !ok {
		k, ok = core.ConstInt(b.X)
	}
	if !ok || k != versionCancel {
		return q
	}
	eqIdx := 0
	if b.Op == token.NEQ {
		eqIdx = 1
	}
	ph, _ := splitCancel(q)
	if from.Succs[eqIdx] == to {
		return ph + "+cancel"
	}
	if ph == "pre" {
		return ph + "+nc" // version != CancelRequest on this path
	}
	return ph
}

func runC12(c *Ctx) {
	R := c.R
	defer c.include("C12.S1", "C18", []string{"C18.R1", "C18.R2"}, "the client parameters handlers see later are the strings decoded at start-up: the message window discipline", 6)
	R.Technique = "trace automaton over serve (start-up order, cancel paths marked by the version == CancelRequest edge); provenance rules for the parameter maps (who-may-update, origin = make / maps.Clone)"
	R.Explanation = "Decides: (R1) on every path of serve the order is optional SSL byte, the authentication step (AuthenticationOk or the configured strategy), ParameterStatus messages only after it, the session middleware once, exactly one ReadyForQuery after all of these, then the command loop; a failed step ends the connection. " +
		"(R2) writeParameters sets exactly server_encoding and client_encoding (UTF8), is_superuser, session_authorization (the connecting user) and server_version under Version != \"\", on a map that is make() or maps.Clone of the configured map, emits one ParameterStatus per entry by ranging over that same map, and stores that map in the connection context. " +
		"(R3) every map update on a wire.Parameters value in the library targets a map created (make / maps.Clone) in the same function - the user's map and context-held maps are never modified. (R4) readClientParameters stores each key/value pair exactly as read (two consecutive GetString results) into a fresh map that becomes the client-parameter context slot. " +
		"(R5) on every path on which the version was recognised as CancelRequest no message is emitted and no callback runs. Not decided: the relative order of ParameterStatus messages (map iteration); values of client strings."
	R.Assumptions = []string{"maps.Clone returns a fresh map", "context values are immutable once stored"}
	R.Trusted = []string{"go/types + go/ssa"}

	// ---------- R1 / R5
	serve := c.mustMethod("C12.R1", "wire", "Server", "serve")
	if serve != nil {
		tc := newTraceClient(c, serveRule{c})
		ts := core.NewTS(c.P, tc)
		ts.Relevant = c.reachesEvents()
		if csc := c.P.Method("wire", "Session", "consumeSingleCommand"); csc != nil {
			ts.Opaque[csc] = true // the command loop is decided by C05/C06
		}
		before := len(R.Obls)
		outs := ts.Run(serve, joinState("", "pre"), core.TSEnv{})
		for f := range ts.Funcs {
			R.Analysed(fname(f))
		}
		for _, p := range ts.Problem {
			R.Fail("C12.R1", "serve:unsupported", c.atFn(serve), "analysable", p)
		}
		R.Count("ts_states", ts.States)
		need := []string{"M:R0", "CB:auth", "M:S", "CB:session", "M:Z", "RAW:S", "RAW:N", "CLOSE"}
		missing := ""
		for _, e := range need {
			if tc.Events[e] == 0 {
				missing += " " + e
			}
		}
		R.Check(missing == "", "C12.R1", "floor:events", c.atFn(serve), "the explored paths contain every event class of the negotiation", sprintf("%v", tc.Events), "event classes never seen:"+missing)
		sawCancel := false
		for _, o := range outs {
			if strings.Contains(o.S, "cancel") {
				sawCancel = true
			}
		}
		R.Check(sawCancel, "C12.R5", "floor:cancel-paths", c.atFn(serve), "paths on which the version equals CancelRequest exist and were explored", "cancel-marked exit outcomes exist", "no path recognises a CancelRequest: the cancel rule would pass vacuously")
		if len(R.Obls) == before+2 {
			R.OK("C12.R1", "serve:order", c.atFn(serve), "every path of serve follows the start-up order and cancel paths are silent", sprintf("%d exit outcomes, %d explored states", len(outs), ts.States))
		}
	}

	c.c12Maps()
}

// mapOrigins walks a map-typed value back to its allocation sites.
func mapOrigins(v ssa.Value, seen map[ssa.Value]bool, out *[]ssa.Value) {
	if seen[v] {
		return
	}
	seen[v] = true
	switch x := v.(type) {
	case *ssa.Phi:
		for _, e := range x.Edges {
			mapOrigins(e, seen, out)
		}
	case *ssa.ChangeType:
		mapOrigins(x.X, seen, out)
	default:
		*out = append(*out, v)
	}
}

func isFreshMap(v ssa.Value) bool { return isFreshMapDepth(v, 2) }

func isFreshMapDepth(v ssa.Value, depth int) bool {
	switch x := v.(type) {
	case *ssa.MakeMap:
		return true
	case *ssa.Phi:
		for _, e := range x.Edges {
			if !isFreshMapDepth(e, depth) {
				return false
			}
		}
		return len(x.Edges) > 0
	case *ssa.Call:
		callee := core.StaticCallee(x)
		if callee != nil && callee.Pkg == nil && callee.Origin() != nil {
			callee = callee.Origin()
		}
		if callee != nil && callee.Name() == "Clone" && callee.Pkg != nil && callee.Pkg.Pkg.Path() == "maps" {
			return true
		}
		// a helper of the library whose every result is a map it made or cloned itself (cloneParameters(params))
		if callee != nil && depth > 0 && callee.Pkg != nil && strings.HasPrefix(callee.Pkg.Pkg.Path(), core.Mod) && len(callee.Blocks) > 0 && callee.Signature.Results().Len() == 1 {
			n := 0
			for _, b := range callee.Blocks {
				if r, ok := b.Instrs[len(b.Instrs)-1].(*ssa.Return); ok {
					n++
					if !isFreshMapDepth(r.Results[0], depth-1) {
						return false
					}
				}
			}
			return n > 0
		}
	}
	return false
}

// copyLoopUpdate: m[k] = v where k, v are the key and value of a range over another map (a hand-written maps.Copy).
func copyLoopUpdate(mu *ssa.MapUpdate) bool {
	k, ok1 := mu.Key.(*ssa.Extract)
	v, ok2 := mu.Value.(*ssa.Extract)
	if !ok1 || !ok2 || k.Tuple != v.Tuple || k.Index != 1 || v.Index != 2 {
		return false
	}
	nx, ok := k.Tuple.(*ssa.Next)
	if !ok {
		return false
	}
	rg, ok := nx.Iter.(*ssa.Range)
	return ok && rg.X != mu.Map
}

func (c *Ctx) c12Maps() {
	R := c.R
	params := c.P.Named("wire", "Parameters")
	// ---------- R3: every update of a Parameters map targets a fresh map
	nUpd := 0
	for _, fn := range c.P.ScopeFuncs() {
		for _, b := range fn.Blocks {
			for _, in := range b.Instrs {
				var m ssa.Value
				switch v := in.(type) {
				case *ssa.MapUpdate:
					m = v.Map
				case *ssa.Call:
					if n := core.BuiltinName(&v.Call); n == "delete" || n == "clear" {
						m = v.Call.Args[0]
					}
					// library functions that write their first map argument
					f := core.StaticCallee(v)
					if f != nil && f.Origin() != nil {
						f = f.Origin()
					}
					if f != nil && f.Pkg != nil && (f.Pkg.Pkg.Path() == "maps" || f.Pkg.Pkg.Path() == "golang.org/x/exp/maps") && len(v.Call.Args) > 0 {
						switch strings.SplitN(f.Name(), "[", 2)[0] {
						case "Copy", "Insert", "DeleteFunc", "Clear":
							m = v.Call.Args[0]
						}
					}
				}
				if m == nil || core.NamedOf(m.Type()) != params {
					continue
				}
				nUpd++
				var org []ssa.Value
				mapOrigins(m, map[ssa.Value]bool{}, &org)
				// a private helper that fills the map it is handed: the map is its only caller's (followed upwards)
				for depth := 0; depth < 3; depth++ {
					var next []ssa.Value
					changed := false
					for _, o := range org {
						prm, isP := o.(*ssa.Parameter)
						site := ssa.CallInstruction(nil)
						if isP {
							site = c.onlyCaller(prm.Parent())
						}
						if site == nil {
							next = append(next, o)
							continue
						}
						for i, hp := range prm.Parent().Params {
							if hp == prm && i < len(site.Common().Args) {
								mapOrigins(site.Common().Args[i], map[ssa.Value]bool{}, &next)
								changed = true
							}
						}
					}
					org = next
					if !changed {
						break
					}
				}
				fresh := len(org) > 0
				var badOrg string
				for _, o := range org {
					if !isFreshMap(o) {
						fresh = false
						badOrg = o.String()
					}
					if o.Parent() != fn && (c.onlyCaller(fn) == nil || !c.reachesFn(o.Parent(), fn, 0)) {
						fresh = false
						badOrg = o.String()
					}
				}
				R.Check(fresh, "C12.R3", fkey(fn)+":map-update-on-fresh-map", c.at(in), "a Parameters map is modified only if it was created (make / maps.Clone) in the same function", sprintf("%d origin(s), all fresh", len(org)), "the updated map may be "+badOrg+": a caller-supplied / shared / context-held map is modified (the user's global parameter map, or another connection's)")
			}
		}
	}
	R.Floor("C12.R3", "updates of Parameters maps", nUpd, 5)

	// ---------- R2: writeParameters
	wp := c.mustMethod("C12.R2", "wire", "Server", "writeParameters")
	if wp != nil {
		R.Analysed(fname(wp))
		// the function that builds the session's parameter map: writeParameters itself or a helper it calls, whose
		// result is the map it built
		bfn := wp
		var builderCall, fillerCall *ssa.Call
		hasUpdates := func(fn *ssa.Function) bool {
			for _, b := range fn.Blocks {
				for _, in := range b.Instrs {
					if _, ok := in.(*ssa.MapUpdate); ok {
						return true
					}
				}
			}
			return false
		}
		if !hasUpdates(wp) {
			for _, ci := range core.Calls(wp) {
				call, isCall := ci.(*ssa.Call)
				if !isCall {
					continue
				}
				if h := core.StaticCallee(call); h != nil && c.P.InPkg(h, "wire") && h.Blocks != nil && hasUpdates(h) && h.Signature.Results().Len() == 1 && core.NamedOf(h.Signature.Results().At(0).Type()) == params {
					bfn, builderCall = h, call
					R.Analysed(fname(h))
				} else if h != nil && c.P.InPkg(h, "wire") && h.Blocks != nil && hasUpdates(h) && h.Signature.Results().Len() == 0 {
					// a helper that fills the map it is handed
					bfn, fillerCall = h, call
					R.Analysed(fname(h))
				}
			}
		}
		want := map[string]string{"server_encoding": "const:UTF8", "client_encoding": "const:UTF8", "is_superuser": "call:EncodeBoolean", "session_authorization": "call:AuthenticatedUsername", "server_version": "field:Version"}
		got := map[string]bool{}
		var theMap ssa.Value
		for _, b := range bfn.Blocks {
			for _, in := range b.Instrs {
				mu, ok := in.(*ssa.MapUpdate)
				if !ok {
					continue
				}
				if copyLoopUpdate(mu) {
					theMap = mu.Map
					continue // the configured parameters copied in by hand: ordered against the fixed keys below
				}
				theMap = mu.Map
				key, ok := core.ConstString(mu.Key)
				if !ok {
					R.Fail("C12.R2", "writeParameters:non-constant-key", c.at(mu), "writeParameters sets only its fixed set of keys", "a map update with a non-constant key")
					continue
				}
				exp, known := want[key]
				if !known {
					R.Fail("C12.R2", "writeParameters:extra-key:"+key, c.at(mu), "writeParameters sets only server_encoding, client_encoding, is_superuser, session_authorization and server_version", "unexpected key "+key)
					continue
				}
				got[key] = true
				ok = false
				switch {
				case strings.HasPrefix(exp, "const:"):
					s, isC := core.ConstString(mu.Value)
					ok = isC && s == exp[6:]
				case strings.HasPrefix(exp, "call:"):
					if call, isCall := mu.Value.(*ssa.Call); isCall {
						if callee := core.StaticCallee(call); callee != nil && callee.Name() == exp[5:] {
							ok = true
						}
					}
				case exp == "field:Version":
					if fr, isF := core.FieldOfValue(mu.Value); isF && fr.Is(pkWire, "Server", "Version") {
						ok = true
						// guarded by Version != ""
						guarded := false
						for _, bb := range bfn.Blocks {
							for _, i2 := range bb.Instrs {
								cmp, isB := i2.(*ssa.BinOp)
								if !isB || (cmp.Op != token.NEQ && cmp.Op != token.EQL) {
									continue
								}
								if f2, isF2 := core.FieldOfValue(cmp.X); !isF2 || !f2.Is(pkWire, "Server", "Version") {
									continue
								}
								if s, isS := core.ConstString(cmp.Y); !isS || s != "" {
									continue
								}
								idx := 0
								if cmp.Op == token.EQL {
									idx = 1
								}
								for _, u := range core.Referrers(cmp) {
									if iff, isIf := u.(*ssa.If); isIf && core.EdgeDominates(iff.Block(), idx, mu.Block()) {
										guarded = true
									}
								}
							}
						}
						R.Check(guarded, "C12.R2", "writeParameters:server_version-only-when-configured", c.at(mu), "server_version is announced only when a version is configured", "dominated by the Version != \"\" edge", "server_version is set without the Version != \"\" guard")
					}
				}
				R.Check(ok, "C12.R2", "writeParameters:value:"+key, c.at(mu), "parameter "+key+" has its specified value ("+exp+")", exp, "the value stored for "+key+" is not "+exp)
			}
		}
		for _, k := range sortedKeys(want) {
			if !got[k] {
				R.Fail("C12.R2", "writeParameters:missing-key:"+k, c.atFn(wp), "writeParameters announces "+k, "no map update with key "+k)
			}
		}
		// unconditional keys: their update dominates the emission loop
		var rng *ssa.Range
		rangeOf := func(fn *ssa.Function) *ssa.Range {
			var out *ssa.Range
			for _, b := range fn.Blocks {
				for _, in := range b.Instrs {
					if r, ok := in.(*ssa.Range); ok {
						out = r
					}
				}
			}
			return out
		}
		rng = rangeOf(wp)
		// the emission may be a step of its own (announceParameters(ctx, writer, params)): the loop, the ParameterStatus
		// frames and the context slot are then examined there, with the map being the parameter that receives it
		efn := wp
		var emitCall *ssa.Call
		var emitParam *ssa.Parameter
		if rng == nil {
			for _, ci := range core.Calls(wp) {
				call, isCall := ci.(*ssa.Call)
				if !isCall {
					continue
				}
				h := core.StaticCallee(call)
				if h == nil || h == bfn || !c.P.InPkg(h, "wire") || h.Blocks == nil {
					continue
				}
				if r := rangeOf(h); r != nil {
					if prm, isP := r.X.(*ssa.Parameter); isP {
						efn, emitCall, emitParam, rng = h, call, prm, r
						R.Analysed(fname(h))
					}
				}
			}
		}
		var rngAt ssa.Instruction // where the emission happens, in writeParameters' own body
		if rng != nil {
			rngAt = rng
		}
		if emitCall != nil {
			rngAt = emitCall
		}
		// in writeParameters' terms the announced map is the builder's result
		builtMap := theMap
		if fillerCall != nil && theMap != nil {
			// in writeParameters' terms the map is the argument the filling helper receives; the call precedes the emission
			builtMap = nil
			if prm, isP := theMap.(*ssa.Parameter); isP {
				for i, hp := range bfn.Params {
					if hp == prm && i < len(fillerCall.Call.Args) {
						builtMap = fillerCall.Call.Args[i]
					}
				}
			}
			R.Check(builtMap != nil && rngAt != nil && core.InstrDominates(fillerCall, rngAt), "C12.R2", fkey(bfn)+":fills-before-emission", c.at(fillerCall), "the connection's parameters are set on the map before it is announced", "the filling helper receives the map and is called on every path to the emission loop", "the helper that sets the connection's parameters does not run on every path before the emission (or does not update the map it is handed)")
		}
		if builderCall != nil {
			builtMap = builderCall
			for _, r := range returns(bfn) {
				var srcs []ssa.Value
				leaves(forwardLoad(r.Results[0]), map[ssa.Value]bool{}, &srcs)
				var msrcs []ssa.Value
				leaves(theMap, map[ssa.Value]bool{}, &msrcs)
				same := len(srcs) > 0
				for _, sv := range srcs {
					found := sv == theMap
					for _, mv := range msrcs {
						if mv == sv {
							found = true
						}
					}
					if !found {
						same = false
					}
				}
				R.Check(same, "C12.R2", fkey(bfn)+":returns-built-map", c.at(r), "the helper that builds the session parameters returns the map it built", "result is the updated map", "the helper returns a map other than the one that received the updates")
			}
		}
		// the map the emission step works on, in that step's terms
		emap := builtMap
		if emitCall != nil {
			emap = nil
			for i, hp := range efn.Params {
				if hp == emitParam && i < len(emitCall.Call.Args) && emitCall.Call.Args[i] == builtMap {
					emap = emitParam
				}
			}
		}
		if rng == nil || theMap == nil || emap == nil || rng.X != emap {
			R.Fail("C12.R2", "writeParameters:emission-ranges-over-map", c.atFn(wp), "one ParameterStatus is emitted per entry of the parameter map (range over that map)", "the emission loop is not a range over the map that received the updates: entries can be duplicated or skipped")
		} else {
			R.OK("C12.R2", "writeParameters:emission-ranges-over-map", c.at(rng), "one ParameterStatus is emitted per entry of the parameter map (range over that map)", "ssa.Range over the updated map")
			for _, b := range bfn.Blocks {
				for _, in := range b.Instrs {
					mu, ok := in.(*ssa.MapUpdate)
					if !ok {
						continue
					}
					key, _ := core.ConstString(mu.Key)
					if key == "server_version" || copyLoopUpdate(mu) {
						continue
					}
					before := bfn == wp && rngAt != nil && core.InstrDominates(mu, rngAt)
					if bfn != wp {
						before = true
						for _, r := range returns(bfn) {
							if !core.InstrDominates(mu, r) {
								before = false
							}
						}
					}
					R.Check(before, "C12.R2", "writeParameters:unconditional:"+key, c.at(mu), key+" is set on every path before the parameters are emitted", "the update dominates the emission loop", "the update of "+key+" does not dominate the emission loop")
				}
			}
			// the connection's own values win: nothing is copied into the map after they were set (a bulk copy of the
			// configured parameters behind the fixed keys lets a configured client_encoding / session_authorization /
			// server_version override what the server announces about itself)
			var bulk []ssa.Instruction
			for _, ci := range core.Calls(bfn) {
				f := core.StaticCallee(ci)
				if f != nil && f.Origin() != nil {
					f = f.Origin()
				}
				if f == nil || f.Pkg == nil || f.Pkg.Pkg.Path() != "maps" || len(ci.Common().Args) < 2 {
					continue
				}
				switch f.Name() {
				case "Copy", "Insert":
				default:
					continue
				}
				var dst []ssa.Value
				leaves(ci.Common().Args[0], map[ssa.Value]bool{}, &dst)
				var tm []ssa.Value
				leaves(theMap, map[ssa.Value]bool{}, &tm)
				for _, d := range dst {
					for _, m := range tm {
						if d == m || d == theMap {
							bulk = append(bulk, ci)
						}
					}
				}
			}
			for _, b := range bfn.Blocks {
				for _, in := range b.Instrs {
					if mu, ok := in.(*ssa.MapUpdate); ok && copyLoopUpdate(mu) {
						bulk = append(bulk, mu)
					}
				}
			}
			for _, w := range bulk {
				// no fixed-key update can execute before the bulk copy
				first := true
				for _, b := range bfn.Blocks {
					for _, in := range b.Instrs {
						mu, ok := in.(*ssa.MapUpdate)
						if !ok || copyLoopUpdate(mu) {
							continue
						}
						if _, isK := core.ConstString(mu.Key); !isK {
							continue
						}
						after := false
						if mu.Block() == w.Block() {
							after = core.InstrIndex(w) > core.InstrIndex(mu)
						}
						for _, sc := range mu.Block().Succs {
							if reachableAvoiding(sc, func(*ssa.BasicBlock) bool { return false })[w.Block()] {
								after = true
							}
						}
						if after {
							first = false
						}
					}
				}
				R.Check(first, "C12.R2", "writeParameters:configured-copied-before-fixed-keys", c.at(w), "server_encoding, client_encoding, is_superuser, session_authorization and server_version are what the server sets, whatever the configured parameters contain", "the bulk copy of the configured parameters precedes every fixed-key update", "configured parameters are copied into the map after the fixed keys were set: a GlobalParameters entry for client_encoding / session_authorization / server_version overrides the value the property prescribes")
			}
			// key/value emitted are the iteration's key/value
			okKV := 0
			isEntry := func(arg ssa.Value) bool {
				if ex, ok := core.Strip(arg).(*ssa.Extract); ok {
					if nx, ok := ex.Tuple.(*ssa.Next); ok && nx.Iter == ssa.Value(rng) && (ex.Index == 1 || ex.Index == 2) {
						return true
					}
				}
				return false
			}
			for _, ci := range core.Calls(efn) {
				if isWriterMethod(ci, "AddString") {
					if isEntry(ci.Common().Args[1]) {
						okKV++
					}
					continue
				}
				// a helper of package wire that emits the message: its AddString arguments are its parameters
				h := core.StaticCallee(ci)
				if h == nil || !c.P.InPkg(h, "wire") || h.Blocks == nil {
					continue
				}
				for _, hi := range core.Calls(h) {
					if !isWriterMethod(hi, "AddString") {
						continue
					}
					if prm, ok := core.Strip(hi.Common().Args[1]).(*ssa.Parameter); ok {
						for i, hp := range h.Params {
							if hp == prm && i < len(ci.Common().Args) && isEntry(ci.Common().Args[i]) {
								okKV++
							}
						}
					}
				}
			}
			R.Check(okKV == 2, "C12.R2", "writeParameters:emits-entry", c.at(rng), "the ParameterStatus body is the entry's key and value", "both AddString arguments are the range iteration's key and value", sprintf("%d of the emitted strings are the iteration's key/value", okKV))
			// the context slot receives this map
			ssp := c.P.Func("wire", "setServerParameters")
			n := 0
			for _, ci := range callsIn(efn, calleeIs(ssp)) {
				n++
				R.Check(ci.Common().Args[1] == emap, "C12.R2", "writeParameters:context-slot", c.at(ci), "the announced parameters are what handlers later read as server parameters", "setServerParameters receives the announced map", "setServerParameters receives a different map than the one announced")
			}
			R.Floor("C12.R2", "setServerParameters calls in writeParameters", n, 1)
		}
		// argument of writeParameters in serve is the configured map
		serve := c.P.Method("wire", "Server", "serve")
		if serve != nil {
			for _, ci := range callsIn(serve, calleeIs(wp)) {
				// the configured map is handed in, or read by writeParameters (or its builder) itself
				ok := false
				for _, a := range ci.Common().Args {
					if fr, isF := core.FieldOfValue(a); isF && fr.Is(pkWire, "Server", "Parameters") {
						ok = true
					}
				}
				for _, fn := range []*ssa.Function{wp, bfn} {
					if ok || fn == nil {
						continue
					}
					for _, b := range fn.Blocks {
						for _, in := range b.Instrs {
							if v, isV := in.(ssa.Value); isV {
								if fr, isF := core.FieldOfValue(v); isF && fr.Is(pkWire, "Server", "Parameters") {
									ok = true
								}
							}
						}
					}
				}
				R.Check(ok, "C12.R2", "serve:configured-parameters", c.at(ci), "writeParameters receives the configured global parameters", "Server.Parameters is the argument (or is read by writeParameters itself)", "the configured parameter map is neither handed to writeParameters nor read by it")
			}
		}
	}

	// ---------- R4: readClientParameters
	rcp := c.mustFn("C12.R4", "wire", "Server", "readClientParameters")
	if rcp != nil {
		R.Analysed(fname(rcp))
		n := 0
		for _, b := range rcp.Blocks {
			for _, in := range b.Instrs {
				mu, ok := in.(*ssa.MapUpdate)
				if !ok {
					continue
				}
				n++
				k := core.Strip(mu.Key)
				v := core.Strip(mu.Value)
				kex, ok1 := k.(*ssa.Extract)
				vex, ok2 := v.(*ssa.Extract)
				ok = ok1 && ok2 && kex.Index == 0 && vex.Index == 0
				// the pair may be read by a step of its own (readClientParameter(reader) (key, value string, err error)): its
				// pair-returns hand back two consecutive successful GetString results, every other return is an error or the
				// empty terminator key
				if ok1 && ok2 && kex.Tuple == vex.Tuple && kex.Index != vex.Index {
					if hc, isCall := kex.Tuple.(*ssa.Call); isCall {
						if h := core.StaticCallee(hc); h != nil && c.P.InPkg(h, "wire") && h.Blocks != nil {
							R.Analysed(fname(h))
							ei := core.ErrorResultIndex(h.Signature)
							okH := ei >= 0 && anyDominates(nilEdges(resultOf(hc, ei), true), mu.Block())
							pairs := 0
							for _, r := range returns(h) {
								if !okH || len(r.Results) <= kex.Index || len(r.Results) <= vex.Index {
									okH = false
									break
								}
								kx, isK := core.Strip(r.Results[kex.Index]).(*ssa.Extract)
								vx, isV := core.Strip(r.Results[vex.Index]).(*ssa.Extract)
								if isK && isV && kx.Index == 0 && vx.Index == 0 {
									kc, okk := kx.Tuple.(*ssa.Call)
									vc, okv := vx.Tuple.(*ssa.Call)
									if okk && okv && kc != vc && isReaderMethod(kc, "GetString") && isReaderMethod(vc, "GetString") && core.InstrDominates(kc, vc) &&
										anyDominates(nilEdges(resultOf(kc, 1), true), r.Block()) && anyDominates(nilEdges(resultOf(vc, 1), true), r.Block()) {
										pairs++
										continue
									}
									okH = false
									continue
								}
								if c.Err().Classify(r.Results[ei], r.Block()).NeverNil() {
									continue
								}
								if sv, isS := core.ConstString(r.Results[kex.Index]); isS && sv == "" {
									continue
								}
								okH = false
							}
							R.Check(okH && pairs > 0, "C12.R4", "readClientParameters:pair-as-read", c.at(mu), "each start-up key/value pair is stored exactly as read (key = first string, value = the next string, both read successfully)", "key and value are results of "+fkey(h)+", whose pair-returns hand back two consecutive successful GetString results", "the step "+fkey(h)+" does not hand back two consecutive successful GetString results as the pair")
							continue
						}
					}
				}
				if ok {
					kc, okk := kex.Tuple.(*ssa.Call)
					vc, okv := vex.Tuple.(*ssa.Call)
					ok = okk && okv && kc != vc && isReaderMethod(kc, "GetString") && isReaderMethod(vc, "GetString") && core.InstrDominates(kc, vc) && core.InstrDominates(vc, mu)
					if ok {
						// success edges of both reads dominate the store
						ok = anyDominates(nilEdges(resultOf(kc, 1), true), mu.Block()) && anyDominates(nilEdges(resultOf(vc, 1), true), mu.Block())
					}
				}
				R.Check(ok, "C12.R4", "readClientParameters:pair-as-read", c.at(mu), "each start-up key/value pair is stored exactly as read (key = first string, value = the next string, both read successfully)", "key and value are results #0 of two consecutive successful GetString calls", "the stored key/value are not the two consecutive GetString results of the iteration")
				_, isMake := mu.Map.(*ssa.MakeMap)
				scp := c.P.Func("wire", "setClientParameters")
				slot := false
				for _, ci := range callsIn(rcp, calleeIs(scp)) {
					if ci.Common().Args[1] == mu.Map {
						slot = true
					}
				}
				R.Check(isMake && slot, "C12.R4", "readClientParameters:slot", c.at(mu), "the pairs go into a map created for this connection, which becomes the client-parameter context slot", "make(Parameters) passed to setClientParameters", "the map is not fresh or is not what setClientParameters receives")
			}
		}
		R.Floor("C12.R4", "map updates in readClientParameters", n, 1)
	}
}
