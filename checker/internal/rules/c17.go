package rules

import (
	"go/token"
	"go/types"
	"sort"
	"strings"

	"golang.org/x/tools/go/ssa"

	"pwv/internal/core"
)

func init() { Registry["C17"] = runC17 }

// fieldPath resolves a value to the dotted path of errors.Error fields it was loaded from ("Source.Line").
// errorFieldBind maps a parameter of a helper that writes part of the ErrorResponse to the path of the value it
// receives (addErrorSource(writer, desc.Source): source -> "Source").
var errorFieldBind = map[*ssa.Parameter]string{}

func errorFieldPath(v ssa.Value) (string, bool) {
	v = core.StripConv(v)
	if prm, isP := v.(*ssa.Parameter); isP {
		if b, ok := errorFieldBind[prm]; ok {
			return b, true
		}
	}
	u, ok := v.(*ssa.UnOp)
	if !ok || u.Op != token.MUL {
		return "", false
	}
	fr, ok := core.FieldOfAddr(u.X)
	if !ok || fr.Struct == nil || fr.Struct.Obj().Pkg() == nil || fr.Struct.Obj().Pkg().Path() != pkErrors {
		return "", false
	}
	switch fr.Struct.Obj().Name() {
	case "Error":
		return fr.Name, true
	case "Source":
		if base, ok := errorFieldPath(fr.Base); ok {
			return base + "." + fr.Name, true
		}
	}
	return "", false
}

// protocol code -> errors.Error field (frozen oracle: protocol error fields + the property's mapping)
var errorFieldOracle = map[byte]string{
	'S': "Severity", 'C': "Code", 'M': "Message", 'D': "Detail", 'H': "Hint",
	'F': "Source.File", 'L': "Source.Line", 'R': "Source.Function", 'n': "ConstraintName",
}

func runC17(c *Ctx) {
	R := c.R
	defer c.startResetsFrame("C17.S1")
	R.Technique = "exhaustiveness + operand provenance on ErrorCode, sibling-agreement rules over the discovered decorator types (constructor, Error, Unwrap, getter, Flatten), who-may-write immutability of decorators"
	R.Explanation = "Decides for every nesting of decorators (the rules are per decorator and per chain step, hence hold for all chains): (R1) every field of errors.Error (enumerated from the type, including nested Source) is emitted by ErrorCode under its protocol code as text - the line number through a decimal formatter - with severity/SQLSTATE/message unconditional and each optional field guarded by its own non-emptiness; " +
		"(R2) the decorator types are discovered (structs of wire/errors with Unwrap() error), and each must have: Error() returning the cause's text, Unwrap() returning the cause, a constructor returning nil for nil and otherwise a fresh wrapper holding the cause and the decoration, no other store to its fields anywhere (immutable), a getter whose type test of the error itself dominates any unwrapping and whose success edge returns the asserted value's own decoration directly - so the outermost decoration wins - and otherwise recurses on errors.Unwrap(err), and a Flatten field fed by that getter on the error itself; the message is err.Error(); " +
		"(R3) defaults: empty severity -> ERROR, no code -> codes.Uncategorized, nil error -> codes.Internal / FATAL / non-empty message; the SQLSTATE variables involved are never reassigned. Not decided: text values themselves (e.g. NUL bytes in messages)."
	R.Trusted = []string{"go/types + go/ssa", "errors.Unwrap follows Unwrap() error (also through fmt.Errorf %w)", "strconv.Itoa / FormatInt(.,10) produce decimal text"}
	R.Exhaustive = true

	c.c17ErrorCode()
	c.c17Decorators()
	c.c17Defaults()
}

var multiChecked bool

func (c *Ctx) c17ErrorCode() {
	multiChecked = false
	R := c.R
	ec := c.errorEmitter() // the function that writes the ErrorResponse frame (ErrorCode or the helper it uses)
	if ec == nil {
		R.Fail("C17.R1", "anchor:ErrorResponse-writer", "-", "a function of package wire writes the ErrorResponse frame", "no Writer.Start('E') found")
		return
	}
	if pub := c.P.Func("wire", "ErrorCode"); pub != nil && pub != ec {
		// ErrorCode hands its own error to the frame writer
		okPass := false
		for _, ci := range callsIn(pub, calleeIs(ec)) {
			for _, a := range ci.Common().Args {
				if len(pub.Params) > 1 && a == ssa.Value(pub.Params[1]) {
					okPass = true
				}
			}
		}
		R.Check(okPass, "C17.R1", "ErrorCode:hands-error-to-frame-writer", c.atFn(pub), "ErrorCode reports exactly the error it was given", "the frame writer receives ErrorCode's err parameter", "ErrorCode does not pass its err parameter to "+fkey(ec))
	}
	R.Analysed(fname(ec))
	// enumerate the leaf fields of errors.Error
	en := c.P.Named("errors", "Error")
	var want []string
	if st, ok := en.Underlying().(*types.Struct); ok {
		for i := 0; i < st.NumFields(); i++ {
			f := st.Field(i)
			if p, ok := f.Type().(*types.Pointer); ok {
				if sub, ok := p.Elem().Underlying().(*types.Struct); ok {
					for j := 0; j < sub.NumFields(); j++ {
						want = append(want, f.Name()+"."+sub.Field(j).Name())
					}
					continue
				}
			}
			want = append(want, f.Name())
		}
	}
	sort.Strings(want)
	// the value flattened is the error handed to ErrorCode
	fl := c.P.Func("errors", "Flatten")
	okFlat := false
	for _, ci := range callsIn(ec, calleeIs(fl)) {
		if ci.Common().Args[0] == ssa.Value(ec.Params[1]) {
			okFlat = true
		}
	}
	R.Check(okFlat, "C17.R1", "ErrorCode:flattens-its-argument", c.atFn(ec), "ErrorCode reports the error it was given", "Flatten(err) on the err parameter", "ErrorCode does not flatten its own err parameter")

	// pair each field code with the string that follows it
	emitted := map[string]byte{}
	codeSite := map[byte]ssa.CallInstruction{}
	guardAt := map[byte]ssa.CallInstruction{} // where the field is decided in ErrorCode's own body (the helper call for grouped fields)
	var curOuter ssa.CallInstruction
	// a small helper of the package that writes one (code, text, NUL) field: AddByte(p), AddString(q), AddNullTerminate()
	fieldHelper := func(h *ssa.Function) (codeIdx, valIdx int, ok bool) {
		if h == nil || !c.P.InPkg(h, "wire") || len(h.Blocks) != 1 {
			return 0, 0, false
		}
		codeIdx, valIdx = -1, -1
		seq := ""
		for _, ci := range core.Calls(h) {
			switch writerMethod(ci) {
			case "AddByte":
				seq += "B"
				for i, p := range h.Params {
					if core.StripConv(ci.Common().Args[1]) == ssa.Value(p) {
						codeIdx = i
					}
				}
			case "AddString":
				seq += "S"
				for i, p := range h.Params {
					if core.StripConv(ci.Common().Args[1]) == ssa.Value(p) {
						valIdx = i
					}
				}
			case "AddNullTerminate":
				seq += "0"
			case "":
			default:
				seq += "?"
			}
		}
		return codeIdx, valIdx, seq == "BS0" && codeIdx >= 0 && valIdx >= 0
	}
	sectionCall := map[*ssa.Function]ssa.CallInstruction{}
	var scanFields func(fn *ssa.Function, depth int)
	scanFields = func(fn *ssa.Function, depth int) {
		for _, b := range fn.Blocks {
			var cur byte
			var curSite ssa.CallInstruction
			for _, in := range b.Instrs {
				ci, ok := in.(ssa.CallInstruction)
				if !ok {
					continue
				}
				// a helper of the package that writes a group of fields of a value it is handed (the source location, say)
				if h := core.StaticCallee(ci); depth > 0 && h != nil && h != fn && c.P.InPkg(h, "wire") && h.Blocks != nil && writerMethod(ci) == "" {
					if _, _, isOne := fieldHelper(h); !isOne {
						writes := false
						for _, hi := range core.Calls(h) {
							if writerMethod(hi) == "AddString" {
								writes = true
							}
						}
						bound := false
						// a section of the frame: the helper is handed the whole flattened value and writes some of its fields
						if section := writes && fn == ec && sectionArg(ci, h, en, fl); section {
							R.Analysed(fname(h))
							sectionCall[h] = ci
							scanFields(h, depth-1)
							continue
						}
						if writes {
							for i, a := range ci.Common().Args {
								if pth, okp := errorFieldPath(a); okp && i < len(h.Params) {
									errorFieldBind[h.Params[i]] = pth
									bound = true
								}
							}
						}
						if bound {
							R.Analysed(fname(h))
							saved := curOuter
							if curOuter == nil {
								curOuter = ci
							}
							scanFields(h, depth-1)
							curOuter = saved
							continue
						}
					}
				}
				if ci2, vi, isHelper := fieldHelper(core.StaticCallee(ci)); isHelper {
					args := ci.Common().Args
					if k, isK := core.ConstInt(args[ci2]); isK {
						code := byte(k)
						arg := args[vi]
						path, okp := errorFieldPath(arg)
						if !okp {
							if call, isCall := arg.(*ssa.Call); isCall {
								if f := core.StaticCallee(call); f != nil && f.Pkg != nil && f.Pkg.Pkg.Path() == "strconv" && (f.Name() == "Itoa" || f.Name() == "FormatInt") {
									path, okp = errorFieldPath(call.Call.Args[0])
								}
							}
						}
						exp, known := errorFieldOracle[code]
						key := "ErrorCode:field:" + string(rune(code))
						if known && okp && path == exp {
							R.OK("C17.R1", key, c.at(ci), "field '"+string(rune(code))+"' carries Error."+exp+" as text", "helper "+fkey(core.StaticCallee(ci))+" writes (code, text, NUL); operand is a load of "+path)
							emitted[path] = code
							codeSite[code] = ci
							guardAt[code] = ci
							if curOuter != nil {
								guardAt[code] = curOuter
							}
						} else {
							R.Fail("C17.R1", key, c.at(ci), "field '"+string(rune(code))+"' carries Error."+exp+" as text", "the text emitted under '"+string(rune(code))+"' is "+describePath(path, okp)+", expected Error."+exp)
						}
					}
					continue
				}
				switch writerMethod(ci) {
				case "AddByte":
					if k, ok := core.ConstInt(ci.Common().Args[1]); ok {
						cur, curSite = byte(k), ci
					}
				case "AddString":
					if cur == 0 {
						continue
					}
					arg := ci.Common().Args[1]
					path, ok := errorFieldPath(arg)
					text := true
					if !ok {
						// formatted number: strconv.Itoa(int(x)) / FormatInt(int64(x), 10)
						if call, isCall := arg.(*ssa.Call); isCall {
							f := core.StaticCallee(call)
							if f != nil && f.Pkg != nil && f.Pkg.Pkg.Path() == "strconv" && (f.Name() == "Itoa" || f.Name() == "FormatInt") {
								path, ok = errorFieldPath(call.Call.Args[0])
								if f.Name() == "FormatInt" {
									if base, isC := core.ConstInt(call.Call.Args[1]); !isC || base != 10 {
										text = false
									}
								}
							}
						}
					}
					exp, known := errorFieldOracle[cur]
					key := "ErrorCode:field:" + string(rune(cur))
					switch {
					case !known:
						R.Fail("C17.R1", key, c.at(curSite), "field code is one the property maps to an Error field", "code '"+string(rune(cur))+"' is not in the mapping")
					case !ok || path != exp || !text:
						R.Fail("C17.R1", key, c.at(ci), "field '"+string(rune(cur))+"' carries Error."+exp+" as text", "the text emitted under '"+string(rune(cur))+"' is "+describePath(path, ok)+", expected Error."+exp)
					default:
						R.OK("C17.R1", key, c.at(ci), "field '"+string(rune(cur))+"' carries Error."+exp+" as text", "operand is a load of "+path)
						emitted[path] = cur
						codeSite[cur] = curSite
						guardAt[cur] = curSite
						if curOuter != nil {
							guardAt[cur] = curOuter
						}
					}
					cur = 0
				case "AddInt32", "AddInt16", "AddBytes":
					if cur != 0 {
						R.Fail("C17.R1", "ErrorCode:field:"+string(rune(cur))+":not-text", c.at(ci), "every ErrorResponse field is text", "field '"+string(rune(cur))+"' is written with "+writerMethod(ci))
						cur = 0
					}
				}
			}
		}
	}
	scanFields(ec, 2)
	for _, f := range want {
		if _, ok := emitted[f]; !ok {
			R.Fail("C17.R1", "ErrorCode:field-not-emitted:"+f, c.atFn(ec), "every field of errors.Error reaches the client", "Error."+f+" is never emitted by ErrorCode (the decoration is collected but not sent)")
		}
	}
	R.Check(len(want) == 9, "C17.R1", "floor:error-fields", "-", "errors.Error has the 9 leaf fields the oracle maps", sprintf("fields %v", want), sprintf("errors.Error now has %d leaf fields %v: the field mapping must be reviewed", len(want), want))
	// conditions
	var endCall ssa.CallInstruction
	for _, ci := range core.Calls(ec) {
		if isWriterMethod(ci, "End") {
			endCall = ci
			break
		}
	}
	for code, site := range codeSite {
		field := errorFieldOracle[code]
		at := guardAt[code]
		if at == nil {
			at = site
		}
		scope := ec
		inFrame := true // the decision is made on every path to End
		if sc, isSection := sectionCall[at.Parent()]; isSection {
			scope = at.Parent()
			inFrame = endCall != nil && sc.Block().Dominates(endCall.Block())
		}
		switch code {
		case 'S', 'C', 'M':
			always := endCall != nil && at.Block().Dominates(endCall.Block())
			if scope != ec {
				always = inFrame
				for _, r := range returns(scope) {
					always = always && at.Block().Dominates(r.Block())
				}
			}
			R.Check(always, "C17.R1", "ErrorCode:unconditional:"+string(rune(code)), c.at(site), "severity, SQLSTATE and message are always present", "its block dominates End", "field '"+string(rune(code))+"' is not emitted on every path")
		default:
			// guarded by own non-emptiness
			top := strings.Split(field, ".")[0]
			guarded := false
			for _, b := range scope.Blocks {
				for _, in := range b.Instrs {
					cmp, ok := in.(*ssa.BinOp)
					if !ok || (cmp.Op != token.NEQ && cmp.Op != token.EQL) {
						continue
					}
					p, ok := errorFieldPath(cmp.X)
					if !ok || p != top {
						continue
					}
					empty := core.IsNilConst(cmp.Y)
					if s, isS := core.ConstString(cmp.Y); isS && s == "" {
						empty = true
					}
					if !empty {
						continue
					}
					idx := 0
					if cmp.Op == token.EQL {
						idx = 1
					}
					for _, u := range core.Referrers(cmp) {
						if iff, ok := u.(*ssa.If); ok && core.EdgeDominates(iff.Block(), idx, at.Block()) {
							guarded = true
						}
					}
				}
			}
			guarded = guarded && inFrame
			R.Check(guarded, "C17.R1", "ErrorCode:optional-guard:"+string(rune(code)), c.at(site), "optional field '"+string(rune(code))+"' is sent exactly when Error."+top+" was set", "dominated by the Error."+top+" non-empty edge", "field '"+string(rune(code))+"' is not guarded by the non-emptiness of Error."+top)
		}
	}
}

// sectionArg: the call hands the helper the flattened error itself (the result of Flatten, directly or through the
// local that holds it) in a parameter of the Error type.
func sectionArg(ci ssa.CallInstruction, h *ssa.Function, en *types.Named, fl *ssa.Function) bool {
	for i, a := range ci.Common().Args {
		if i >= len(h.Params) || en == nil || !types.Identical(a.Type(), en) {
			continue
		}
		v := a
		if u, isLoad := a.(*ssa.UnOp); isLoad && u.Op == token.MUL {
			if al, isAlloc := u.X.(*ssa.Alloc); isAlloc {
				var stores []*ssa.Store
				for _, r := range core.Referrers(al) {
					if st, isSt := r.(*ssa.Store); isSt && st.Addr == ssa.Value(al) {
						stores = append(stores, st)
					}
				}
				if len(stores) == 1 {
					v = stores[0].Val
				}
			}
		}
		if call, ok := v.(*ssa.Call); ok && fl != nil && core.StaticCallee(call) == fl {
			return true
		}
	}
	return false
}

func describePath(p string, ok bool) string {
	if !ok {
		return "not a load of an errors.Error field"
	}
	return "Error." + p
}

type decorator struct {
	typ    *types.Named
	cause  string
	fields []string // decoration fields
}

func (c *Ctx) decorators() []decorator {
	var out []decorator
	pkg := c.P.Scope["errors"]
	for _, m := range pkg.Members {
		tn, ok := m.(*ssa.Type)
		if !ok {
			continue
		}
		named, ok := tn.Type().(*types.Named)
		if !ok {
			continue
		}
		st, ok := named.Underlying().(*types.Struct)
		if !ok {
			continue
		}
		ms := c.P.SSA.MethodSets.MethodSet(types.NewPointer(named))
		hasUnwrap := false
		for i := 0; i < ms.Len(); i++ {
			if ms.At(i).Obj().Name() == "Unwrap" {
				hasUnwrap = true
			}
		}
		if !hasUnwrap {
			continue
		}
		d := decorator{typ: named}
		for i := 0; i < st.NumFields(); i++ {
			if core.IsErrorType(st.Field(i).Type()) {
				d.cause = st.Field(i).Name()
			} else {
				d.fields = append(d.fields, st.Field(i).Name())
			}
		}
		out = append(out, d)
	}
	sort.Slice(out, func(i, j int) bool { return out[i].typ.Obj().Name() < out[j].typ.Obj().Name() })
	return out
}

func (c *Ctx) c17Decorators() {
	R := c.R
	decs := c.decorators()
	R.Floor("C17.R2", "decorator types (structs of wire/errors with Unwrap)", len(decs), 6)
	flatten := c.P.Func("errors", "Flatten")
	for _, d := range decs {
		tn := d.typ.Obj().Name()
		if d.cause == "" {
			R.Fail("C17.R2", tn+":cause-field", "-", "a decorator holds the error it wraps", "no error-typed field")
			continue
		}
		isField := func(v ssa.Value, recv ssa.Value, field string) bool {
			fr, ok := core.FieldOfValue(v)
			return ok && fr.Name == field && fr.Struct == d.typ && (recv == nil || fr.Base == recv)
		}
		// Error() / Unwrap()
		if fn := c.P.Method("errors", tn, "Error"); fn != nil {
			R.Analysed(fname(fn))
			ok := false
			for _, r := range returns(fn) {
				if call, isCall := r.Results[0].(*ssa.Call); isCall && call.Call.IsInvoke() && call.Call.Method.Name() == "Error" && isField(call.Call.Value, fn.Params[0], d.cause) {
					ok = true
				} else {
					ok = false
					break
				}
			}
			R.Check(ok, "C17.R2", tn+":Error", c.atFn(fn), "a decorated error's text is the text of the error it wraps (message = base text)", "returns cause.Error()", "Error() does not return the cause's text unchanged")
		} else {
			R.Fail("C17.R2", tn+":Error", "-", "decorator has Error()", "method not found")
		}
		if fn := c.P.Method("errors", tn, "Unwrap"); fn != nil {
			ok := false
			for _, r := range returns(fn) {
				ok = isField(r.Results[0], fn.Params[0], d.cause)
				if !ok {
					break
				}
			}
			R.Check(ok, "C17.R2", tn+":Unwrap", c.atFn(fn), "Unwrap returns the wrapped error, so the chain can be walked", "returns the cause field", "Unwrap() does not return the cause")
		}
		// constructor + immutability: every store to a field of the decorator is into a fresh allocation
		var ctor *ssa.Function
		for _, fn := range c.P.ScopeFuncs() {
			for _, b := range fn.Blocks {
				for _, in := range b.Instrs {
					st, ok := in.(*ssa.Store)
					if !ok {
						continue
					}
					fr, ok := core.FieldOfAddr(st.Addr)
					if !ok || fr.Struct != d.typ {
						continue
					}
					a, fresh := fr.Base.(*ssa.Alloc)
					if fresh && a.Parent() == fn {
						ctor = fn
						continue
					}
					R.Fail("C17.R2", tn+":immutable:"+fkey(fn)+":"+fr.Name, c.at(st), "decorators are immutable once built (an error value never changes after it was handed out)", "store to "+tn+"."+fr.Name+" of an existing wrapper in "+fname(fn)+": re-decorating changes errors other code still holds")
				}
			}
		}
		if ctor == nil {
			R.Fail("C17.R2", tn+":constructor", "-", "decorator has a constructor", "no function allocates and initialises "+tn)
			continue
		}
		R.Analysed(fname(ctor))
		var errParam *ssa.Parameter
		for _, p := range ctor.Params {
			if core.IsErrorType(p.Type()) {
				errParam = p
			}
		}
		okCtor := errParam != nil
		stored := map[string]bool{}
		if okCtor {
			for _, r := range returns(ctor) {
				v := r.Results[0]
				switch {
				case core.IsNilConst(v):
					if !anyDominates(nilEdges(errParam, true), r.Block()) {
						okCtor = false
					}
				default:
					mi, isMI := v.(*ssa.MakeInterface)
					a, isAlloc := ssa.Value(nil), false
					if isMI {
						a, isAlloc = mi.X.(*ssa.Alloc)
					}
					if !isMI || !isAlloc || !a.(*ssa.Alloc).Heap || !anyDominates(nilEdges(errParam, false), r.Block()) {
						okCtor = false
						continue
					}
					for _, ref := range core.Referrers(a) {
						fa, ok := ref.(*ssa.FieldAddr)
						if !ok {
							continue
						}
						fr, _ := core.FieldOfAddr(fa)
						var visit func(addr ssa.Value, depth int)
						visit = func(addr ssa.Value, depth int) {
							for _, r2 := range core.Referrers(addr) {
								if st, ok := r2.(*ssa.Store); ok && st.Addr == addr {
									if fr.Name == d.cause && st.Val == ssa.Value(errParam) {
										stored[fr.Name] = true
									} else if _, isParam := st.Val.(*ssa.Parameter); isParam && fr.Name != d.cause {
										stored[fr.Name] = true
									}
								}
								// a decoration kept in a nested struct field (origin{file, line, function}): its members
								if sub, ok := r2.(*ssa.FieldAddr); ok && depth > 0 && fr.Name != d.cause {
									visit(sub, depth-1)
								}
							}
						}
						visit(fa, 2)
					}
				}
			}
		}
		all := stored[d.cause]
		for _, f := range d.fields {
			if !stored[f] {
				all = false
			}
		}
		R.Check(okCtor && all, "C17.R2", tn+":constructor", c.atFn(ctor), "the constructor returns nil for nil, otherwise a fresh wrapper holding the cause and the given decoration", fname(ctor)+": nil on the nil edge; fresh allocation with cause and decoration fields stored from the parameters", fname(ctor)+" is not of that shape (nil handling, freshness, or a field is not initialised from its parameter)")

		// getter: the function that type-asserts to the wrapper, or the function that hands its parameter to a shared
		// chain walker (an instance of a generic helper) which does
		var getter, walker *ssa.Function
		var assert *ssa.TypeAssert
		var finder *ssa.Call // getter's call of the walker (nil when the getter walks the chain itself)
		assertsTo := func(fn *ssa.Function) *ssa.TypeAssert {
			for _, b := range fn.Blocks {
				for _, in := range b.Instrs {
					if ta, ok := in.(*ssa.TypeAssert); ok && ta.CommaOk {
						if p, ok := ta.AssertedType.(*types.Pointer); ok && p.Elem() == types.Type(d.typ) {
							return ta
						}
					}
				}
			}
			return nil
		}
		for _, fn := range c.P.ScopeFuncs() {
			if !c.P.InPkg(fn, "errors") || fn.Parent() != nil {
				continue
			}
			if ta := assertsTo(fn); ta != nil {
				getter, walker, assert = fn, fn, ta
			}
		}
		if getter == nil {
			var insts []*ssa.Function
			for fn := range c.P.AllFuncs {
				if fn.Origin() != nil && fn.Origin() != fn && c.P.InPkg(fn, "errors") && len(fn.Params) == 1 && assertsTo(fn) != nil {
					insts = append(insts, fn)
				}
			}
			sort.Slice(insts, func(i, j int) bool { return insts[i].String() < insts[j].String() })
			for _, w := range insts {
				for _, fn := range c.P.ScopeFuncs() {
					if !c.P.InPkg(fn, "errors") || fn.Parent() != nil || len(fn.Params) != 1 {
						continue
					}
					for _, ci := range callsIn(fn, calleeIs(w)) {
						if call, ok := ci.(*ssa.Call); ok && getter == nil && call.Call.Args[0] == ssa.Value(fn.Params[0]) {
							getter, walker, assert, finder = fn, w, assertsTo(w), call
						}
					}
				}
			}
		}
		if getter == nil {
			R.Fail("C17.R2", tn+":getter", "-", "each decoration has a getter that finds it in an error chain", "no function of wire/errors type-asserts to *"+tn)
			continue
		}
		R.Analysed(fname(getter))
		gk := tn + ":getter:" + getter.Name()
		// the error under test: the parameter itself (recursive idiom), or the loop variable that starts as the
		// parameter and is replaced by errors.Unwrap of itself (iterative idiom)
		var cur ssa.Value
		iterative := false
		if len(walker.Params) == 1 {
			cur = walker.Params[0]
			if ph, isPhi := assert.X.(*ssa.Phi); isPhi {
				fromParam, fromUnwrap, other := false, false, false
				for _, e := range ph.Edges {
					switch {
					case e == ssa.Value(walker.Params[0]):
						fromParam = true
					default:
						if call, isCall := e.(*ssa.Call); isCall && core.FuncIs(core.StaticCallee(call), "errors", "Unwrap") && call.Call.Args[0] == ssa.Value(ph) {
							fromUnwrap = true
						} else {
							other = true
						}
					}
				}
				if fromParam && fromUnwrap && !other {
					cur, iterative = ph, true
				}
			}
		}
		okSelf := cur != nil && assert.X == cur
		R.Check(okSelf, "C17.R2", gk+":tests-error-itself", c.at(assert), "the getter tests the error it was given (outermost first)", "the type assertion is applied to the parameter", "the type assertion is applied to something other than the getter's parameter")
		val := (*ssa.Extract)(nil)
		okv := (*ssa.Extract)(nil)
		for _, r := range core.Referrers(assert) {
			if e, ok := r.(*ssa.Extract); ok {
				if e.Index == 0 {
					val = e
				} else {
					okv = e
				}
			}
		}
		if val == nil || okv == nil {
			R.Fail("C17.R2", gk+":assert-used", c.at(assert), "the assertion's value and ok are used", "a result of the comma-ok assertion is unused")
			continue
		}
		succ := boolEdges(okv, true)
		fail := boolEdges(okv, false)
		// unwrapping happens only on the failure edge
		var unwraps []*ssa.Call
		for _, ci := range core.Calls(walker) {
			if call, ok := ci.(*ssa.Call); ok && core.FuncIs(core.StaticCallee(call), "errors", "Unwrap") {
				unwraps = append(unwraps, call)
				R.Check(anyDominates(fail, call.Block()) && call.Call.Args[0] == cur, "C17.R2", gk+":unwrap-after-test", c.at(call), "the chain is unwrapped only after the error itself was tested and did not carry the decoration", "errors.Unwrap(err) is dominated by the assertion's failure edge", "errors.Unwrap is reachable before / without the type test failing, or unwraps something other than the parameter")
			}
		}
		R.Check(len(unwraps) >= 1, "C17.R2", gk+":walks-chain", c.atFn(getter), "the getter walks the wrap chain (errors.Unwrap), so decorations under fmt-style wrapping are found", sprintf("%d errors.Unwrap call(s)", len(unwraps)), "the getter never calls errors.Unwrap")
		// success edge returns the asserted value's own decoration directly
		nSucc := 0
		var wrapper ssa.Value = val
		if finder != nil {
			// the shared walker hands back (the asserted wrapper, true) on its success edge and ok == false elsewhere;
			// the getter's own success edge is the ok result of that call
			R.Analysed(fname(walker))
			shape := true
			for _, r := range returns(walker) {
				if len(r.Results) != 2 {
					shape = false
					continue
				}
				if anyDominates(succ, r.Block()) {
					k, isC := core.ConstBool(r.Results[1])
					shape = shape && core.Strip(r.Results[0]) == ssa.Value(val) && isC && k
				} else {
					k, isC := core.ConstBool(r.Results[1])
					shape = shape && isC && !k
				}
			}
			R.Check(shape, "C17.R2", gk+":walker-hands-back-match", c.atFn(walker), "the shared chain walker returns the first wrapper of the wanted type with ok == true, and ok == false when none is found", "returns (asserted value, true) on the assertion's success edge, (_, false) otherwise", "the chain walker's results are not (the asserted wrapper, true) on the success edge and (_, false) elsewhere")
			wrapper, succ = nil, nil
			for _, r := range core.Referrers(finder) {
				if e, ok := r.(*ssa.Extract); ok {
					if e.Index == 0 {
						wrapper = e
					} else {
						succ = boolEdges(e, true)
					}
				}
			}
		}
		for _, r := range returns(getter) {
			if !anyDominates(succ, r.Block()) {
				continue
			}
			nSucc++
			direct := wrapper != nil && c.isOwnDecoration(r.Results[0], wrapper, d)
			R.Check(direct, "C17.R2", gk+":outermost-wins", c.at(r), "when the error itself carries the decoration the getter returns exactly that value (the outermost decoration wins)", "the success edge returns the asserted wrapper's field(s) directly", "the value returned on the success edge is not the asserted wrapper's own decoration (e.g. it is combined with inner values): an inner decoration can override the outermost one")
		}
		R.Check(nSucc >= 1, "C17.R2", gk+":success-return", c.atFn(getter), "the getter returns on the success edge of its type test", sprintf("%d return(s) on the success edge", nSucc), "no return is dominated by the success edge of the type test")
		// recursion on the unwrapped error
		rec := false
		for _, ci := range callsIn(walker, calleeIs(walker)) {
			if len(unwraps) > 0 && ci.Common().Args[0] == ssa.Value(unwraps[0]) {
				rec = true
			}
		}
		if iterative && len(unwraps) == 1 {
			// the loop continues with the unwrapped error while it is non-nil
			ph := cur.(*ssa.Phi)
			cont := false
			for _, e := range nilEdges(ph, false) {
				if e.dominates(assert.Block()) {
					cont = true
				}
			}
			rec = cont
		}
		if !multiChecked {
			multiChecked = true
			// fmt.Errorf with several %w and errors.Join produce wrappers whose Unwrap returns a list; errors.Unwrap
			// returns nil for them, so a walk by errors.Unwrap stops there
			tree := false
			for _, ci := range core.Calls(walker) {
				if core.FuncIs(core.StaticCallee(ci), "errors", "As") {
					tree = true
				}
			}
			for _, b := range walker.Blocks {
				for _, in := range b.Instrs {
					if ta, ok := in.(*ssa.TypeAssert); ok {
						if it, ok := ta.AssertedType.Underlying().(*types.Interface); ok && it.NumMethods() == 1 && it.Method(0).Name() == "Unwrap" {
							if sig, ok := it.Method(0).Type().(*types.Signature); ok && sig.Results().Len() == 1 {
								if _, isSlice := sig.Results().At(0).Type().Underlying().(*types.Slice); isSlice {
									tree = true
								}
							}
						}
					}
				}
			}
			R.Check(tree, "C17.R2", "getters:multi-error-wrappers-traversed", c.atFn(getter), "decorations are found under every kind of ordinary wrapping, including wrappers that hold several errors (fmt.Errorf with two %w, errors.Join)", "the getters use errors.As or descend into Unwrap() []error", "the getters walk the chain with errors.Unwrap only, which returns nil for a wrapper with Unwrap() []error: every decoration below fmt.Errorf(\"%w: %w\", ..) or errors.Join(..) is lost and the ErrorResponse falls back to ERROR / XXUUU")
		}
		R.Check(rec, "C17.R2", gk+":recurses-on-unwrapped", c.atFn(getter), "otherwise the getter looks the decoration up in errors.Unwrap(err)", "calls itself on the unwrapped error, or loops with err = errors.Unwrap(err) while err != nil", "the getter neither recurses on errors.Unwrap(err) nor iterates over the chain (accepted idioms: assert + Unwrap recursion; for err != nil { assert; err = Unwrap(err) })")
		// Flatten uses the getter on its parameter
		used := false
		if flatten != nil {
			for _, ci := range callsIn(flatten, calleeIs(getter)) {
				if ci.Common().Args[0] == ssa.Value(flatten.Params[0]) {
					if call, ok := ci.(*ssa.Call); ok && c.flowsToErrorField(call) != "" {
						used = true
					}
				}
			}
		}
		R.Check(used, "C17.R2", tn+":flattened", c.atFn(getter), "Flatten collects this decoration from the error itself into a field of errors.Error", getter.Name()+"(err) feeds a field of the flattened Error", "Flatten does not store "+getter.Name()+"(err) into a field of errors.Error: the decoration never reaches ErrorCode")
	}
	// message
	if flatten != nil {
		R.Analysed(fname(flatten))
		okMsg := false
		for _, b := range flatten.Blocks {
			for _, in := range b.Instrs {
				st, ok := in.(*ssa.Store)
				if !ok {
					continue
				}
				if fr, ok := core.FieldOfAddr(st.Addr); ok && fr.Is(pkErrors, "Error", "Message") {
					if call, ok := st.Val.(*ssa.Call); ok && call.Call.IsInvoke() && call.Call.Method.Name() == "Error" && call.Call.Value == ssa.Value(flatten.Params[0]) {
						okMsg = true
					}
				}
			}
		}
		R.Check(okMsg, "C17.R2", "Flatten:message", c.atFn(flatten), "the message is the error's own text", "Message = err.Error()", "Message is not err.Error()")
	}
}

// isOwnDecoration: v is a load of a decoration field of the asserted wrapper, or a fresh struct built
// only from such loads.
func (c *Ctx) isOwnDecoration(v ssa.Value, wrapper ssa.Value, d decorator) bool {
	v = core.Strip(v)
	if fr, ok := core.FieldOfValue(v); ok && fr.Struct == d.typ && fr.Base == wrapper && fr.Name != d.cause {
		return true
	}
	// a member of a struct-typed decoration field of the wrapper (s.origin.file)
	if root, pth := pathOf(v); root == wrapper && pth != "" && !strings.Contains(pth, "[]") && !strings.HasPrefix(pth, "."+d.cause) {
		return true
	}
	if a, ok := v.(*ssa.Alloc); ok {
		n := 0
		// a copy of a struct-typed decoration field taken as a whole (source := s.source; return &source)
		whole := 0
		for _, ref := range core.Referrers(a) {
			if st, isSt := ref.(*ssa.Store); isSt && st.Addr == ssa.Value(a) {
				root, pth := pathOf(core.Strip(st.Val))
				if root != wrapper || pth == "" || strings.Contains(pth, "[]") || strings.HasPrefix(pth, "."+d.cause) {
					return false
				}
				whole++
			}
		}
		if whole == 1 {
			onlyThat := true
			for _, ref := range core.Referrers(a) {
				if _, isFA := ref.(*ssa.FieldAddr); isFA {
					onlyThat = false
				}
			}
			if onlyThat {
				return true
			}
		}
		for _, ref := range core.Referrers(a) {
			fa, ok := ref.(*ssa.FieldAddr)
			if !ok {
				continue
			}
			for _, r2 := range core.Referrers(fa) {
				if st, ok := r2.(*ssa.Store); ok {
					root, pth := pathOf(core.Strip(st.Val))
					if root != wrapper || pth == "" || strings.Contains(pth, "[]") || strings.HasPrefix(pth, "."+d.cause) {
						return false
					}
					n++
				}
			}
		}
		return n >= len(d.fields) && n > 0
	}
	return false
}

// flowsToErrorField follows a getter result (through calls of wire/errors) to a store into errors.Error.
func (c *Ctx) flowsToErrorField(v ssa.Value) string {
	for depth := 0; depth < 4; depth++ {
		for _, r := range core.Referrers(v) {
			switch x := r.(type) {
			case *ssa.Store:
				if fr, ok := core.FieldOfAddr(x.Addr); ok && fr.Is(pkErrors, "Error", fr.Name) && x.Val == v {
					return fr.Name
				}
			case *ssa.Call:
				if f := core.StaticCallee(x); f != nil && c.P.InPkg(f, "errors") {
					if s := c.flowsToErrorField(x); s != "" {
						return s
					}
				}
			}
		}
		break
	}
	return ""
}

func (c *Ctx) c17Defaults() {
	R := c.R
	// DefaultSeverity("") = ERROR
	if ds := c.mustFunc("C17.R3", "errors", "DefaultSeverity"); ds != nil {
		ok := false
		for _, r := range returns(ds) {
			if s, isS := core.ConstString(r.Results[0]); isS {
				// returned on the severity == "" edge
				for _, b := range ds.Blocks {
					for _, in := range b.Instrs {
						cmp, isB := in.(*ssa.BinOp)
						if !isB || cmp.X != ssa.Value(ds.Params[0]) {
							continue
						}
						if e, isE := core.ConstString(cmp.Y); !isE || e != "" {
							continue
						}
						idx := 0
						if cmp.Op == token.NEQ {
							idx = 1
						}
						for _, u := range core.Referrers(cmp) {
							if iff, isIf := u.(*ssa.If); isIf && core.EdgeDominates(iff.Block(), idx, r.Block()) && s == "ERROR" {
								ok = true
							}
						}
					}
				}
			}
		}
		R.Check(ok, "C17.R3", "DefaultSeverity:empty-is-ERROR", c.atFn(ds), "an error without severity is reported as ERROR", "the severity == \"\" edge returns \"ERROR\"", "the empty-severity edge does not return \"ERROR\"")
		// used by Flatten
		fl := c.P.Func("errors", "Flatten")
		used := false
		if fl != nil {
			for _, ci := range callsIn(fl, calleeIs(ds)) {
				if call, ok := ci.(*ssa.Call); ok && c.flowsToErrorField(call) == "Severity" {
					used = true
				}
			}
		}
		R.Check(used, "C17.R3", "Flatten:default-severity", c.atFn(ds), "Flatten applies the severity default", "Severity = DefaultSeverity(GetSeverity(err))", "Flatten does not apply DefaultSeverity to the severity field")
	}
	// GetCode default
	if gc := c.mustFunc("C17.R3", "errors", "GetCode"); gc != nil {
		unc := c.P.Global("codes", "Uncategorized")
		ok := false
		for _, r := range returns(gc) {
			v := r.Results[0]
			vals := []ssa.Value{v}
			if ph, isPhi := v.(*ssa.Phi); isPhi {
				vals = ph.Edges
			}
			for _, e := range vals {
				if u, isU := e.(*ssa.UnOp); isU && u.X == ssa.Value(unc) {
					ok = true
				}
			}
		}
		s, okInit := c.globalInitString(unc)
		R.Check(ok && okInit, "C17.R3", "GetCode:default-uncategorized", c.atFn(gc), "an error without a code is reported with the uncategorised SQLSTATE", "a path returns codes.Uncategorized ("+s+"), which is never reassigned", "GetCode has no path returning codes.Uncategorized, or that variable is reassigned")
	}
	// nil error
	if fl := c.mustFunc("C17.R3", "errors", "Flatten"); fl != nil {
		nilEdge := nilEdges(fl.Params[0], true)
		got := map[string]string{}
		for _, b := range fl.Blocks {
			if !anyDominates(nilEdge, b) {
				continue
			}
			for _, in := range b.Instrs {
				st, ok := in.(*ssa.Store)
				if !ok {
					continue
				}
				fr, ok := core.FieldOfAddr(st.Addr)
				if !ok || !fr.Is(pkErrors, "Error", fr.Name) {
					continue
				}
				if s, isS := core.ConstString(st.Val); isS {
					got[fr.Name] = s
				} else if u, isU := st.Val.(*ssa.UnOp); isU {
					if g, isG := u.X.(*ssa.Global); isG {
						if s, ok := c.globalInitString(g); ok {
							got[fr.Name] = "global:" + g.Name() + "=" + s
						}
					}
				}
			}
		}
		ok := got["Severity"] == "FATAL" && strings.HasPrefix(got["Code"], "global:Internal=XX") && got["Message"] != ""
		R.Check(ok, "C17.R3", "Flatten:nil-error", c.atFn(fl), "a nil error is reported as an internal fatal error with a non-empty message", sprintf("%v", got), sprintf("the nil-error edge yields %v", got))
	}
}
