package rules

import (
	"go/token"
	"go/types"

	"golang.org/x/tools/go/ssa"

	"pwv/internal/core"
)

func init() { Registry["C03"] = runC03 }

func bufferFuncs(c *Ctx) []*ssa.Function {
	var out []*ssa.Function
	for _, fn := range c.P.ScopeFuncs() {
		if c.P.InPkg(fn, "buffer") {
			out = append(out, fn)
		}
	}
	return out
}

func runC03(c *Ctx) {
	R := c.R
	defer c.include("C03.S1", "C10", []string{"C10.R6"}, "every client message is consumed in exactly its declared length: the body of a rejected (oversized) message is skipped once - by the frame reader or by the code that receives its error, never by neither or both", 3)
	R.Technique = "who-may-use ownership of the byte source, must-pass-through and field-memory rules on the frame reader, difference-constraint proofs for the accessors (E-BND/E-LIN), error-discipline dominance rules"
	R.Explanation = "Transcript equality under re-segmentation is not observed; it is argued from structural facts that are decided for every byte stream: (R1) the client byte source is consumed only by io.ReadFull and ReadByte inside pkg/buffer (both return exactly the bytes asked for or an error, independent of how the transport segments them), nothing else in the library reads the connection, and readers are constructed only at the designated handshake points; " +
		"(R2) a message body is read into a window of exactly the declared size: the size is the big-endian 32-bit header minus 4 through value-preserving conversions, the accept path resets the window to that size (len(Msg) == size proved on both branches) and fills it with one ReadFull; (R3) every successful message read passes through that reset, and only pkg/buffer stores the window - so unread or surplus bytes of one message can never be seen by the next; " +
		"(R4) the accessors never read beyond the window and never panic (every index / slice proved in range for all sizes) and advance the window by exactly what they decoded; (R5) every accessor / frame-reader error is inspected before its value is used and its failing edge ends in a non-nil return (or the size-exceeded handler); (R6) connection code consults no clock, randomness or environment. Not decided: TCP itself."
	R.Assumptions = []string{"io.ReadFull returns len(buf) bytes or an error; bufio.Reader.ReadByte returns one byte or an error - both independent of transport segmentation"}
	R.Explanation += " Also decided: an oversized message is skipped in exactly its declared length (Slurp: every chunk is between 1 and min(remaining, limit) bytes and the counter is decremented by the bytes read); every re-slice of message bytes anywhere in the library is bounded by the length of the slice it is cut from (never by its capacity)."
	R.Trusted = []string{"go/types + go/ssa", "io.ReadFull / bufio contracts"}
	sum := c.summaries("C03.R2")
	mods := c.modSets()
	_ = sum

	// ---------- R1: who touches the byte source
	nSrc := 0
	for _, fn := range c.P.ScopeFuncs() {
		for _, b := range fn.Blocks {
			for _, in := range b.Instrs {
				fa, ok := in.(*ssa.FieldAddr)
				if !ok {
					continue
				}
				fr, _ := core.FieldOfAddr(fa)
				if !fr.Is(pkBuffer, "Reader", "Buffer") {
					continue
				}
				nSrc++
				if !c.P.InPkg(fn, "buffer") {
					R.Fail("C03.R1", fkey(fn)+":byte-source-outside-buffer", c.at(fa), "the reader's byte source is used only inside pkg/buffer", "Reader.Buffer is accessed from "+fname(fn))
					continue
				}
				for _, r := range core.Referrers(fa) {
					switch x := r.(type) {
					case *ssa.Store:
						if !core.FuncIs(fn, pkBuffer, "NewReader") {
							R.Fail("C03.R1", fkey(fn)+":byte-source-replaced", c.at(x), "the byte source is set once, at construction", "Reader.Buffer is stored outside NewReader")
						}
					case *ssa.UnOp:
						for _, u := range core.Referrers(x) {
							okUse := false
							desc := instrDescr(u)
							switch y := u.(type) {
							case *ssa.ChangeInterface, *ssa.MakeInterface:
								okUse = true
								for _, u2 := range core.Referrers(y.(ssa.Value)) {
									if call, isCall := u2.(*ssa.Call); !isCall || !core.FuncIs(core.StaticCallee(call), "io", "ReadFull") {
										okUse = false
										desc = instrDescr(u2)
									}
								}
							case *ssa.Call:
								if y.Call.IsInvoke() && y.Call.Method.Name() == "ReadByte" {
									okUse = true
								}
								if core.FuncIs(core.StaticCallee(y), "io", "ReadFull") {
									okUse = true
								}
							}
							R.Check(okUse, "C03.R1", fkey(fn)+":byte-source-use", c.at(u), "bytes are taken from the source only by io.ReadFull and ReadByte (all-or-error reads)", "io.ReadFull / ReadByte", "the byte source is used by "+desc+": a partial read makes parsing depend on how the stream is segmented")
						}
					}
				}
			}
		}
	}
	R.Floor("C03.R1", "accesses of Reader.Buffer", nSrc, 4)
	// nothing in the library reads a connection directly
	for _, fn := range c.P.ScopeFuncs() {
		for _, ci := range core.Calls(fn) {
			cc := ci.Common()
			if cc.IsInvoke() && (cc.Method.Name() == "Read" || cc.Method.Name() == "ReadFrom") && (core.IsNamed(cc.Value.Type(), "net", "Conn") || core.IsNamed(cc.Value.Type(), "io", "Reader")) {
				R.Fail("C03.R1", fkey(fn)+":direct-read", c.at(ci), "the library never reads the connection directly", "a direct Read on a connection / io.Reader in "+fname(fn))
			}
		}
	}
	nrf := c.P.Func("buffer", "NewReader")
	for _, site := range c.P.CallSitesOf(nrf) {
		if !c.P.InPkg(site.Parent(), "wire") {
			continue
		}
		k := fkey(site.Parent())
		onTLS := false
		src := core.Strip(site.Common().Args[1])
		if mi, ok := src.(*ssa.MakeInterface); ok {
			src = core.Strip(mi.X)
		}
		if mi, ok := src.(*ssa.MakeInterface); ok {
			src = core.Strip(mi.X)
		}
		if call, ok := src.(*ssa.Call); ok && core.FuncIs(core.StaticCallee(call), "crypto/tls", "Server") {
			onTLS = true // a reader for the freshly upgraded TLS stream
		}
		if onTLS {
			// the plaintext reader may have read ahead: whatever it buffered behind the SSLRequest is lost to the TLS layer
			R.Fail("C03.R1", "upgrade-step:read-ahead-dropped", c.at(site), "delivering the same bytes in any segmentation yields the same transcript", "the TLS session reads from the raw connection while the first reader keeps what it had already buffered: a ClientHello that arrives in the same segment as the SSLRequest is dropped and the handshake stalls, whereas it succeeds when the two arrive separately (deliberate with respect to C11: plaintext sent ahead of the handshake must never be interpreted; PostgreSQL reports a protocol violation instead of stalling)")
		}
		R.Check(k == "(*Server).Handshake" || onTLS, "C03.R1", "NewReader-site:"+k, c.at(site), "a connection has one reader (a second one only for the TLS stream after an upgrade): bytes buffered by a reader are never dropped", "designated construction site", "buffer.NewReader is constructed in "+fname(site.Parent())+": bytes the previous reader already buffered are lost, so the result depends on segmentation")
	}

	// ---------- R2: exact window
	rum := c.mustMethod("C03.R2", "buffer", "Reader", "ReadUntypedMsg")
	reset := c.mustMethod("C03.R2", "buffer", "Reader", "reset")
	if rum != nil && reset != nil {
		R.Analysed(fname(rum))
		acc, f, outerSize, okAcc := c.acceptStep(rum)
		if !okAcc {
			R.Fail("C03.R2", "ReadUntypedMsg:shape", c.atFn(rum), "ReadUntypedMsg resets the window to the declared size and fills it with one io.ReadFull", "no single reset + ReadFull step found (inline, through a fill helper, or in a method tail-called with the size)")
		} else {
			if acc != rum {
				R.Analysed(fname(acc))
			}
			l := core.NewLin(c.P, rum, mods, sum)
			R.Check(c.headerSizeExpr(l, outerSize, 0), "C03.R2", "ReadMsgSize:size-is-header-minus-4", c.at(f.site), "the window size is the unsigned 32-bit big-endian header minus 4, with no lossy conversion", "E-LIN normal form: Uint32(header[:]) - 4 (inline or returned by the size helper)", "the size handed to reset is not Uint32(header) - 4 through value-preserving conversions (a signed or narrowed decode mis-sizes large declared lengths)")
			via := "inline reset(size) + io.ReadFull(Buffer, Msg)"
			if f.via != nil {
				via = "helper " + fkey(f.via) + " (reset(p); return io.ReadFull(Buffer, Msg))"
			}
			R.OK("C03.R2", "ReadUntypedMsg:fills-the-window", c.at(f.site), "the body is read with one io.ReadFull into the window just reset to the declared size (len == size by the verified reset summary)", via)
			// the header itself is read in full before it is decoded
			okHdr := false
			for _, fn := range []*ssa.Function{rum, c.P.Method("buffer", "Reader", "ReadMsgSize")} {
				if fn == nil {
					continue
				}
				for _, ci := range core.Calls(fn) {
					if core.FuncIs(core.StaticCallee(ci), "io", "ReadFull") {
						if sl, isSl := ci.Common().Args[1].(*ssa.Slice); isSl {
							if fr, isF := core.FieldOfAddr(sl.X); isF && fr.Is(pkBuffer, "Reader", "header") {
								okHdr = true
							}
						}
					}
				}
			}
			R.Check(okHdr, "C03.R2", "ReadMsgSize:header-read-in-full", c.atFn(rum), "the 4 header bytes are read in full", "io.ReadFull(Buffer, header[:])", "the header is not filled by io.ReadFull")
			// ---------- R3: every successful return passed the fill
			var succ []*ssa.Return
			succ = append(succ, returns(acc)...)
			if acc != rum {
				for _, r := range returns(rum) {
					through := false
					for _, ci := range callsIn(rum, calleeIs(acc)) {
						if core.InstrDominates(ci, r) {
							through = true
						}
					}
					if !through {
						cls := c.Err().Classify(errOperand(r), r.Block())
						R.Check(!cls.MayBeNil(), "C03.R3", "ReadUntypedMsg:success-only-through:"+fkey(acc), c.at(r), "every successful message read passes the step that resets and fills the window", "returns that bypass "+fkey(acc)+" carry a non-nil error", "ReadUntypedMsg can succeed without calling "+fname(acc))
					}
				}
			}
			for _, r := range succ {
				cls := c.Err().Classify(errOperand(r), r.Block())
				if !cls.MayBeNil() {
					continue
				}
				R.Check(core.InstrDominates(f.site, r), "C03.R3", "ReadUntypedMsg:success-passes-reset:"+retDescr(r), c.at(r), "every successful message read discards the previous window and reads the new body (nothing of the previous message survives)", "the reset + ReadFull step dominates the return", "a return that may be successful is reachable without reset / ReadFull: the next handler sees the previous message's unread bytes")
			}
		}
	}
	// ReadTypedMsg: success only through ReadUntypedMsg
	if rtm := c.mustMethod("C03.R3", "buffer", "Reader", "ReadTypedMsg"); rtm != nil && rum != nil {
		for _, r := range returns(rtm) {
			cls := c.Err().Classify(errOperand(r), r.Block())
			if !cls.MayBeNil() {
				continue
			}
			okDom := false
			for _, ci := range callsIn(rtm, calleeIs(rum)) {
				if call, isCall := ci.(*ssa.Call); isCall {
					if ev := errResultOf(call); ev != nil && anyDominates(nilEdges(ev, true), r.Block()) {
						okDom = true
					}
				}
			}
			R.Check(okDom, "C03.R3", "ReadTypedMsg:success-through-ReadUntypedMsg", c.at(r), "a typed message is complete only if its body was read successfully", "dominated by the err == nil edge of ReadUntypedMsg", "ReadTypedMsg can succeed without a successful body read")
		}
	}
	// stores to Reader.Msg only in pkg/buffer
	nSt := 0
	for _, fn := range c.P.ScopeFuncs() {
		for _, b := range fn.Blocks {
			for _, in := range b.Instrs {
				if st, ok := in.(*ssa.Store); ok {
					if fr, ok := core.FieldOfAddr(st.Addr); ok && fr.Is(pkBuffer, "Reader", "Msg") {
						nSt++
						R.Check(c.P.InPkg(fn, "buffer") || advanceOfOwnWindow(st), "C03.R3", fkey(fn)+":window-owner", c.at(st), "only pkg/buffer moves the message window (elsewhere it is at most advanced: a prefix of the current window is consumed)", "store inside pkg/buffer, or the current window with a prefix cut off", "Reader.Msg is stored from "+fname(fn))
					}
				}
			}
		}
	}
	R.Floor("C03.R3", "stores to Reader.Msg", nSt, 3)

	// an oversized message is skipped in exactly its declared length (chunks of 1..min(remaining, limit) bytes)
	c.slurpExact("C03.R2")

	// no view of message bytes extends beyond the view it was cut from: a re-slice of the window or of an accessor
	// result is bounded by its length, not its capacity (the allocation behind a message holds other messages' bytes)
	nView := 0
	resetFn := c.P.Method("buffer", "Reader", "reset")
	for _, fn := range c.P.ScopeFuncs() {
		if fn == resetFn {
			continue // the window's own extension from the high-water mark is decided by R2 / C18.R1
		}
		var l *core.Lin
		for _, b := range fn.Blocks {
			for _, in := range b.Instrs {
				sl, ok := in.(*ssa.Slice)
				if !ok || sl.High == nil {
					continue
				}
				if _, isSlice := sl.X.Type().Underlying().(*types.Slice); !isSlice {
					continue
				}
				if l == nil {
					l = core.NewLin(c.P, fn, c.modSets(), c.summaries("C03.R4"))
				}
				if !msgDerived(l, sl.X, 0) {
					continue
				}
				nView++
				hT, hO := l.Expr(sl.High)
				R.Check(l.Prove(sl, hT, l.LenOf(sl.X), -hO), "C03.R4", fkey(fn)+":view-within-length:"+describe(sl.X)+"[:"+describe(sl.High)+"]", c.at(sl), "a view cut from message bytes ends within the bytes it is cut from (never in the spare capacity behind them)", "E-LIN: high <= len(operand)", "the upper bound of this re-slice of message bytes is not proved <= len: Go only checks it against the capacity, so bytes behind the current message (earlier / later messages in the same allocation) can be read")
			}
		}
	}
	R.Floor("C03.R4", "re-slices of message bytes", nView, 2)

	// the partial frame steps (type byte only, length word only) are used only by the full-frame readers of pkg/buffer:
	// a caller that reads a header by itself decides on its own how much of the body to consume
	nPartial := 0
	for _, fn := range c.P.ScopeFuncs() {
		for _, ci := range core.Calls(fn) {
			m := readerMethod(ci)
			if m != "ReadType" && m != "ReadMsgSize" {
				continue
			}
			nPartial++
			R.Check(c.P.InPkg(fn, "buffer"), "C03.R2", fkey(fn)+":partial-frame-read:"+m, c.at(ci), "message headers are read only as part of a whole-message read (type, length, then exactly length-4 body bytes)", "call inside pkg/buffer's frame readers", fname(fn)+" reads a message header by itself ("+m+"): the body is consumed only if this caller does so, so a declared length can be ignored and the body parsed as further messages")
		}
	}
	R.Count("partial_frame_read_sites", nPartial)

	// ---------- R7: COPY-in starts at a message boundary
	c.c03CopyStartsAtBoundary()

	// ---------- R4: accessors
	var accs []*ssa.Function
	for _, n := range []string{"GetString", "GetBytes", "GetUint16", "GetUint32", "GetPrepareType", "reset", "ReadMsgSize", "ReadUntypedMsg", "ReadTypedMsg", "ReadType", "Slurp"} {
		if fn := c.P.Method("buffer", "Reader", n); fn != nil {
			accs = append(accs, fn)
		}
	}
	nOb, nOK := c.panicFreedom("C03.R4", accs)
	R.Count("bounds_obligations", nOb)
	R.Count("bounds_discharged", nOK)
	R.Floor("C03.R4", "bounds obligations in the reader", nOb, 8)
	c.c03Advance()

	// ---------- R5: error discipline
	c.c04NoFabricatedData("C03.R5")
	c.c03ErrorEdges()

	// ---------- R6
	n := 0
	for fn := range c.connectionScope() {
		for _, ci := range core.Calls(fn) {
			f := core.StaticCallee(ci)
			if f == nil || f.Pkg == nil {
				continue
			}
			n++
			switch f.Pkg.Pkg.Path() {
			case "time", "math/rand", "math/rand/v2", "crypto/rand", "os":
				R.Fail("C03.R6", fkey(fn)+":nondeterminism:"+f.Pkg.Pkg.Path()+"."+f.Name(), c.at(ci), "connection code depends only on the byte stream (no clock, randomness, environment)", "call of "+f.Pkg.Pkg.Path()+"."+f.Name()+" in connection scope")
			}
		}
	}
	R.OK("C03.R6", "no-nondeterminism", "-", "connection code depends only on the byte stream (no clock, randomness, environment)", sprintf("%d static calls in connection scope inspected", n))
}

// c03Advance: each accessor advances the window by exactly the width it decoded.
func (c *Ctx) c03Advance() {
	R := c.R
	type spec struct {
		name  string
		extra int64 // bytes consumed beyond the decoded slice (the NUL of a string)
	}
	for _, sp := range []spec{{"GetString", 1}, {"GetBytes", 0}, {"GetUint16", 0}, {"GetUint32", 0}} {
		fn := c.mustMethod("C03.R4", "buffer", "Reader", sp.name)
		if fn == nil {
			continue
		}
		l := core.NewLin(c.P, fn, c.modSets(), c.summaries("C03.R4"))
		var decoded, advance *ssa.Slice
		var decX *ssa.UnOp // the window value the decoded prefix is taken from
		var decHigh ssa.Value
		// bytes.Cut(Msg, sep) with a one-byte separator: by its contract before + sep + after == Msg, so decoding `before`
		// and advancing to `after` consumes exactly the decoded bytes plus the terminator
		cutOK := false
		for _, ci := range core.Calls(fn) {
			call, isCall := ci.(*ssa.Call)
			if !isCall || !core.FuncIs(core.StaticCallee(call), "bytes", "Cut") || sp.extra != 1 {
				continue
			}
			u, isU := call.Call.Args[0].(*ssa.UnOp)
			if !isU || l.FM.Loads[u] == nil || l.FM.Loads[u].Field != "Msg" {
				continue
			}
			sepOK := false
			if su, isLoad := core.Strip(call.Call.Args[1]).(*ssa.UnOp); isLoad {
				if g, isG := su.X.(*ssa.Global); isG {
					if b, ok := c.sslByte(g); ok && b == 0 {
						sepOK = true
					}
				}
			}
			found := boolEdges(resultOf(call, 2), true)
			stored := false
			for _, r := range core.Referrers(resultOf(call, 1)) {
				if st, isSt := r.(*ssa.Store); isSt {
					if fr, ok := core.FieldOfAddr(st.Addr); ok && fr.Name == "Msg" && anyDominates(found, st.Block()) {
						stored = true
					}
				}
			}
			usesBefore := len(core.Referrers(resultOf(call, 0))) > 0
			if sepOK && stored && usesBefore {
				cutOK = true
				R.OK("C03.R4", sp.name+":consume-what-you-decode", c.at(call), "the window advances by exactly the bytes decoded (plus the terminator for strings): no byte is skipped or decoded twice", "bytes.Cut(window, {0}): the decoded part is `before`, the window becomes `after` on the found edge (contract: before + sep + after == window)")
			}
		}
		if cutOK {
			continue
		}
		for _, b := range fn.Blocks {
			for _, in := range b.Instrs {
				// unsafe.String(unsafe.SliceData(Msg), n): the first n bytes of the window, as Msg[:n]
				if call, isCall := in.(*ssa.Call); isCall && len(call.Call.Args) == 2 {
					if bi, isB := call.Call.Value.(*ssa.Builtin); isB && bi.Name() == "String" {
						if inner, isC := call.Call.Args[0].(*ssa.Call); isC && len(inner.Call.Args) == 1 {
							if bj, isB2 := inner.Call.Value.(*ssa.Builtin); isB2 && bj.Name() == "SliceData" {
								if u, isU := inner.Call.Args[0].(*ssa.UnOp); isU && l.FM.Loads[u] != nil && l.FM.Loads[u].Field == "Msg" {
									decX, decHigh = u, call.Call.Args[1]
								}
							}
						}
					}
				}
				sl, ok := in.(*ssa.Slice)
				if !ok {
					continue
				}
				if u, isU := sl.X.(*ssa.UnOp); !isU || l.FM.Loads[u] == nil || l.FM.Loads[u].Field != "Msg" {
					continue
				}
				if sl.Low == nil && sl.High != nil {
					decoded = sl
					decX, decHigh = sl.X.(*ssa.UnOp), sl.High
				}
				if sl.Low != nil && sl.High == nil {
					// stored back into Msg?
					for _, r := range core.Referrers(sl) {
						if st, ok := r.(*ssa.Store); ok {
							if fr, ok := core.FieldOfAddr(st.Addr); ok && fr.Name == "Msg" {
								advance = sl
							}
						}
					}
				}
			}
		}
		_ = decoded
		if decX == nil || advance == nil {
			// delegation: the fixed-width accessors may take their bytes from GetBytes(width)
			width := map[string]int64{"GetUint16": 2, "GetUint32": 4}[sp.name]
			okDel := false
			if width > 0 {
				for _, ci := range core.Calls(fn) {
					call, isCall := ci.(*ssa.Call)
					if !isCall || !isReaderMethod(call, "GetBytes") {
						continue
					}
					if k, isK := core.ConstInt(call.Call.Args[1]); isK && k == width {
						// the decode reads exactly that slice, on the success edge
						for _, cj := range core.Calls(fn) {
							f := core.StaticCallee(cj)
							if f != nil && f.Pkg != nil && f.Pkg.Pkg.Path() == "encoding/binary" && cj.Common().Args[len(cj.Common().Args)-1] == resultOf(call, 0) && anyDominates(nilEdges(resultOf(call, 1), true), cj.Block()) {
								okDel = true
							}
						}
					}
				}
			}
			R.Check(okDel, "C03.R4", sp.name+":consume-what-you-decode", c.atFn(fn), "the accessor decodes a prefix of the window and advances past it (directly, or by taking exactly its width from GetBytes)", sprintf("delegates to GetBytes(%d) and decodes that slice on the success edge", width), "prefix slice Msg[:h] / advancing store Msg = Msg[l:] not found, and no delegation to GetBytes(width)")
			continue
		}
		ht, ho := l.Expr(decHigh)
		lt, lo := l.Expr(advance.Low)
		ok := ht.String() == lt.String() && lo-ho == sp.extra
		// both slices are taken from the same window value
		ua, ub := decX, advance.X.(*ssa.UnOp)
		same := l.FM.Loads[ua] == l.FM.Loads[ub]
		R.Check(ok && same, "C03.R4", sp.name+":consume-what-you-decode", c.at(advance), "the window advances by exactly the bytes decoded (plus the terminator for strings): no byte is skipped or decoded twice", sprintf("decoded Msg[:%s%+d], advanced to Msg[%s%+d:]", ht, ho, lt, lo), sprintf("decoded Msg[:%s%+d] but advanced to Msg[%s%+d:] (expected +%d)", ht, ho, lt, lo, sp.extra))
	}
}

// c03ErrorEdges: the failing edge of every frame-reader / accessor call ends in a non-nil return or the
// size-exceeded handler.
func (c *Ctx) c03ErrorEdges() {
	R := c.R
	recFn, recSlurp := c.exceededRecovery()
	// a block "recovers" if it calls the recovery helper, or performs the skip itself
	recovers := func(b *ssa.BasicBlock) bool {
		if recFn == nil {
			return false
		}
		if recSlurp != nil && recSlurp.Block() == b {
			return true
		}
		return blockHasCall(b, calleeIs(recFn))
	}
	n := 0
	for _, fn := range c.P.ScopeFuncs() {
		for _, ci := range core.Calls(fn) {
			call, ok := ci.(*ssa.Call)
			if !ok || readerMethod(call) == "" {
				continue
			}
			ev := errResultOf(call)
			if ev == nil {
				continue
			}
			if core.ErrorResultIndex(call.Call.Signature()) < 0 {
				continue
			}
			n++
			key := fkey(fn) + ":" + readerMethod(call) + ":error-edge"
			fails := failEdges(ev)
			if len(fails) == 0 {
				// the error must be returned directly
				direct := flowsToReturn(ev)
				if false {
				}
				R.Check(direct, "C03.R5", key, c.at(call), "the error of a frame-reader / accessor call is tested or returned", "returned directly to the caller", "the error result is neither tested nor returned")
				continue
			}
			okAll := true
			for _, e := range fails {
				inLoop := fn == c.P.Method("wire", "Session", "consumeSingleCommand") // the only place where a session can recover from an oversized message
				reach := reachableAvoiding(e.to(), func(b *ssa.BasicBlock) bool {
					return inLoop && recovers(b)
				})
				for b := range reach {
					r, isRet := b.Instrs[len(b.Instrs)-1].(*ssa.Return)
					if !isRet || !e.dominates(b) {
						continue
					}
					cls := c.Err().Classify(errOperand(r), b)
					if cls.MayBeNil() {
						okAll = false
						R.Fail("C03.R5", key+":swallowed", c.at(r), "a failed frame-reader / accessor call ends the handling of the message with a non-nil error", "on the failing edge of "+readerMethod(call)+" a return may carry a nil error (class "+cls.String()+"): a malformed message is silently accepted")
					}
				}
			}
			if okAll {
				R.OK("C03.R5", key, c.at(call), "a failed frame-reader / accessor call ends the handling of the message with a non-nil error (or goes to the size-exceeded handler)", "every return on the failing edge carries a non-nil error")
			}
		}
	}
	R.Floor("C03.R5", "frame-reader / accessor call sites with an error result", n, 30)
}

var _ = token.ADD

// c03CopyStartsAtBoundary (R7): the handler may start COPY-in while the message that invoked it (Query / Execute) still
// has unread bytes in the window (a surplus-carrying message). The binary row reader decodes whatever the window holds
// before it fetches the first CopyData, so those bytes would be taken for COPY data. Accepted: the function that builds
// the COPY reader first drains the window (GetBytes(len(reader.Msg)) on the same reader, or a pkg/buffer method that
// empties it), or the row reader's first accessor call is dominated by a CopyReader.Read.
func (c *Ctx) c03CopyStartsAtBoundary() {
	R := c.R
	ncr := c.P.Func("wire", "NewCopyReader")
	bread := c.P.Method("wire", "BinaryCopyReader", "Read")
	cread := c.P.Method("wire", "CopyReader", "Read")
	if ncr == nil || bread == nil || cread == nil {
		R.Fail("C03.R7", "anchor:copy-readers", "-", "NewCopyReader, CopyReader.Read and BinaryCopyReader.Read resolve", "anchor not found")
		return
	}
	// (ii) the row reader always fetches before it decodes
	always := true
	nAcc := 0
	for _, ci := range core.Calls(bread) {
		if m := readerMethod(ci); m == "GetUint16" || m == "GetUint32" || m == "GetBytes" || m == "GetString" {
			nAcc++
			dom := false
			for _, rc := range callsIn(bread, calleeIs(cread)) {
				if core.InstrDominates(rc, ci) {
					dom = true
				}
			}
			if !dom {
				always = false
			}
		}
	}
	if always && nAcc > 0 {
		R.OK("C03.R7", "BinaryCopyReader.Read:fetches-before-decoding", c.atFn(bread), "COPY data is decoded only from CopyData messages, never from what is left of the message that started the COPY", "every accessor call of the row reader is dominated by a CopyReader.Read")
		return
	}
	// (i) the window is drained where the COPY reader is built
	drains := func(site ssa.CallInstruction, readerArg ssa.Value) bool {
		_, rp := pathOf(readerArg)
		fn := site.Parent()
		for _, ci := range core.Calls(fn) {
			if !core.InstrDominates(ci, site) && !reachedOnlyAfterSuccess(ci, site) {
				continue
			}
			if readerMethod(ci) == "GetBytes" {
				if x, ok := core.IsLenOf(ci.Common().Args[1]); ok {
					if fr, ok := core.FieldOfValue(x); ok && fr.Is(pkBuffer, "Reader", "Msg") {
						if _, bp := pathOf(ci.Common().Args[0]); bp == rp {
							if _, mp := pathOf(x); mp == rp+".Msg" {
								return true
							}
						}
					}
				}
			}
			// a pkg/buffer method that empties the window on every path
			if callee := core.StaticCallee(ci); callee != nil && c.P.InPkg(callee, "buffer") && callee.Signature.Recv() != nil && len(ci.Common().Args) > 0 {
				if _, bp := pathOf(ci.Common().Args[0]); bp != rp {
					continue
				}
				nSt, allEmpty := 0, true
				for _, b := range callee.Blocks {
					for _, in := range b.Instrs {
						if st, ok := in.(*ssa.Store); ok {
							if fr, ok := core.FieldOfAddr(st.Addr); ok && fr.Is(pkBuffer, "Reader", "Msg") {
								nSt++
								empty := core.IsNilConst(st.Val)
								if sl, ok := st.Val.(*ssa.Slice); ok && sl.High != nil {
									if k, ok := core.ConstInt(sl.High); ok && k == 0 {
										empty = true
									}
								}
								if !empty {
									allEmpty = false
								}
							}
						}
					}
				}
				if nSt > 0 && allEmpty && len(callee.Blocks) == 1 {
					return true
				}
			}
		}
		return false
	}
	n := 0
	for _, site := range c.P.CallSitesOf(ncr) {
		if !c.P.InPkg(site.Parent(), "wire") {
			continue
		}
		n++
		R.Check(drains(site, site.Common().Args[0]), "C03.R7", fkey(site.Parent())+":copy-starts-at-message-boundary", c.at(site), "COPY data is decoded only from CopyData messages, never from what is left of the message that started the COPY", "the window of the reader handed to NewCopyReader is drained first (GetBytes(len(reader.Msg)) or a pkg/buffer method that empties it)", "the COPY reader is built on a reader whose window may still hold unread bytes of the Query / Execute message, and BinaryCopyReader.Read decodes the window before fetching the first CopyData: surplus bytes of one message are interpreted as COPY rows")
	}
	R.Floor("C03.R7", "NewCopyReader call sites in package wire", n, 1)
}
