package rules

import (
	"go/token"
	"go/types"
	"strings"

	"golang.org/x/tools/go/ssa"

	"pwv/internal/core"
)

func init() { Registry["C05"] = runC05 }

// ---- R1: cycle automaton of a simple Query
type simpleQueryRule struct{ c *Ctx }

func (r simpleQueryRule) step(tc *traceClient, x *core.TSCtx, site ssa.Instruction, q, ev string) string {
	if ev == "READ" || strings.HasPrefix(ev, "CACHE:") {
		return q
	}
	bad := func(why string) string {
		tc.fail("C05.R1", x, site, "handleSimpleQuery:"+ev+"@"+q, "the reply cycle of a simple Query follows (I | (T? stmt)* | E) then exactly one Z as the last message", why)
		return q
	}
	if strings.HasPrefix(ev, "FAIL:") {
		return "mustE"
	}
	switch q {
	case "mustE":
		if ev == "M:E" {
			return "afterE"
		}
		return bad("a failed parser / statement call must be answered by an ErrorResponse next, got " + ev + " (the failure is swallowed)")
	case "done":
		return bad("event " + ev + " after the cycle's ReadyForQuery: ReadyForQuery is not the last message")
	case "afterE":
		if ev == "M:Z" {
			return "done"
		}
		return bad("after an ErrorResponse the only legal event is ReadyForQuery, got " + ev + " (a later statement runs or output continues after the error)")
	case "afterI":
		if ev == "M:Z" {
			return "done"
		}
		return bad("after EmptyQueryResponse the only legal event is ReadyForQuery, got " + ev)
	}
	switch ev {
	case "M:E":
		return "afterE"
	case "M:I":
		if q != "start" {
			return bad("EmptyQueryResponse after the parser was consulted")
		}
		return "afterI"
	case "CB:parse":
		if q != "start" {
			return bad("the parser is consulted more than once in a cycle")
		}
		return "parsed"
	case "M:T":
		if q != "parsed" && q != "ran" {
			return bad("RowDescription outside the per-statement position")
		}
		return "described"
	case "CB:stmt":
		if q != "parsed" && q != "ran" && q != "described" {
			return bad("a statement function runs before the query was parsed")
		}
		return "ran"
	case "M:Z":
		// "parsed": zero loop iterations; the len(statements) == 0 case is answered by an ErrorResponse
		// before the loop, which a path-insensitive range loop cannot see. Tolerated (see DESIGN C05).
		if q != "ran" && q != "parsed" {
			return bad("ReadyForQuery without a preceding result, ErrorResponse or EmptyQueryResponse (state " + q + ")")
		}
		return "done"
	}
	return bad("unexpected event in a simple Query cycle")
}

func (r simpleQueryRule) ret(tc *traceClient, x *core.TSCtx, ret *ssa.Return, q string, err core.ErrK) string {
	if len(x.Stack) != 0 {
		return q
	}
	key := "handleSimpleQuery:return:" + retDescr(ret) + "@" + q
	if q == "done" {
		return q
	}
	if err == core.KNonNil {
		org := r.c.errOrigins(errOperand(ret))
		if onlyConnectionEnding(org) {
			return q
		}
		tc.fail("C05.R1", x, ret, key, "an error that does not end the connection is reported with ErrorResponse + ReadyForQuery", "returns a non-nil error of origin {"+originList(org)+"} without having completed the cycle: the client gets no ErrorResponse/ReadyForQuery and the connection is dropped")
		return q
	}
	tc.fail("C05.R1", x, ret, key, "every path of a simple Query that keeps the connection ends with exactly one ReadyForQuery", "returns (error may be nil) in automaton state '"+q+"': the cycle is not closed by ReadyForQuery")
	return q
}

// ---- R2: what handler-visible API can emit
type emitSetRule struct {
	msgs map[string]ssa.Instruction
}

func (r *emitSetRule) step(tc *traceClient, x *core.TSCtx, site ssa.Instruction, q, ev string) string {
	if strings.HasPrefix(ev, "FAIL:") {
		return q
	}
	if strings.HasPrefix(ev, "M:") {
		if _, ok := r.msgs[ev[2:]]; !ok {
			r.msgs[ev[2:]] = site
		}
	}
	return q
}
func (r *emitSetRule) ret(_ *traceClient, _ *core.TSCtx, _ *ssa.Return, q string, _ core.ErrK) string {
	return q
}

func runC05(c *Ctx) {
	R := c.R
	R.Technique = "trace automaton over CFG paths with summaries (reply cycle of handleSimpleQuery), dominance and who-may-write rules on the result writer's state"
	R.Explanation = "Decides for every path of handleSimpleQuery (all query texts, statement counts, handler outcomes): (R1) the emitted sequence is EmptyQueryResponse without consulting the parser, or per statement an optional RowDescription followed by the statement call, or one ErrorResponse after which nothing but ReadyForQuery follows; exactly one ReadyForQuery, as the last event; errors that do not end the connection are always reported. " +
		"(R2) the API a statement function can reach (result writer, COPY readers) can emit only T, D, C, G - never ErrorResponse or ReadyForQuery. (R3) every emitting method of the result writer is guarded by the closed flag and fails with ErrClosedWriter otherwise; closed only ever becomes true; Complete marks the writer closed on every path that may have emitted CommandComplete and has a single emission site; each statement call receives a freshly allocated writer. " +
		"(R4) the row counter is incremented only on the err == nil edge of the row write. (R5) the arity test dominates the DataRow frame. Not decided: that handlers call Complete; the tag text; DataRow payloads."
	R.Assumptions = []string{"statement functions and the parser are arbitrary callbacks that reach the connection only through the DataWriter / CopyReader handed to them"}
	R.Explanation += " Also decided (R3): the writer is marked closed only by a call that completes - after the close is registered or performed no return refuses the call with a sentinel error."
	R.Trusted = []string{"go/types + go/ssa"}

	c.readMessageHandled("C05.R1")
	// ---------- R1
	hsq := c.mustMethod("C05.R1", "wire", "Session", "handleSimpleQuery")
	if hsq != nil {
		tc := newTraceClient(c, simpleQueryRule{c})
		ts := core.NewTS(c.P, tc)
		ts.Relevant = c.reachesEvents()
		outs := ts.Run(hsq, joinState("", "start"), core.TSEnv{})
		for f := range ts.Funcs {
			R.Analysed(fname(f))
		}
		for _, p := range ts.Problem {
			R.Fail("C05.R1", "handleSimpleQuery:unsupported", c.atFn(hsq), "analysable", p)
		}
		R.Count("ts_states", ts.States)
		need := []string{"M:I", "M:E", "M:Z", "M:T", "CB:parse", "CB:stmt"}
		missing := ""
		for _, e := range need {
			if tc.Events[e] == 0 {
				missing += " " + e
			}
		}
		R.Check(missing == "", "C05.R1", "floor:events", c.atFn(hsq), "the explored paths contain every event class of the cycle (I, T, E, Z, parser, statement)", sprintf("events %v", tc.Events), "event classes never seen:"+missing+" - an anchor no longer resolves")
		nDone := 0
		for _, o := range outs {
			if _, q := splitState(o.S); q == "done" {
				nDone++
			}
		}
		R.Check(nDone > 0, "C05.R1", "handleSimpleQuery:cycle-automaton", c.atFn(hsq), "all explored paths of the simple Query cycle are accepted by the cycle automaton", sprintf("%d exit outcomes, %d explored states", len(outs), ts.States), "no path reaches the closed-cycle state")
	}

	// ---------- R2
	c.handlerEmitSet("C05.R2")

	// ---------- R3..R5
	c.c05Writer()
	c.startResetsFrame("C05.R5")
}

// startResetsFrame: an abandoned (rejected / half-encoded) row is harmless only because Writer.Start
// empties the frame before writing the next header.
func (c *Ctx) startResetsFrame(rule string) {
	start := c.mustMethod(rule, "buffer", "Writer", "Start")
	if start == nil {
		return
	}
	var hdr ssa.CallInstruction
	for _, ci := range core.Calls(start) {
		if isBytesBufferMethod(ci, "Write") {
			hdr = ci
		}
	}
	if hdr == nil {
		c.R.Fail(rule, "Start:header-write", c.atFn(start), "Start writes the message header into the frame", "no frame.Write call found in Start")
		return
	}
	reset := false
	for _, ci := range core.Calls(start) {
		if _, isDefer := ci.(*ssa.Defer); isDefer {
			continue
		}
		if (isWriterMethod(ci, "Reset") || isBytesBufferMethod(ci, "Reset")) && core.InstrDominates(ci, hdr) {
			reset = true
		}
	}
	c.writerLatchesOnlyBufferErrors(rule)
	c.R.Check(reset, rule, "Start:abandoned-frame-discarded", c.at(hdr), "a row abandoned half-way (encode failure) leaves no bytes behind: Start empties the frame before the next header", "a Reset call dominates the header write in Writer.Start", "no frame reset dominates the header write in Start: the bytes of a rejected row are sent in front of the next message")
}

// handlerEmitSet checks which message types the handler-visible API can emit.
func (c *Ctx) handlerEmitSet(rule string) {
	R := c.R
	dw := c.P.Named("wire", "dataWriter")
	var roots []*ssa.Function
	for _, fn := range c.P.ScopeFuncs() {
		if fn.Signature.Recv() == nil || fn.Parent() != nil {
			continue
		}
		n := core.NamedOf(fn.Signature.Recv().Type())
		if n == nil {
			continue
		}
		switch {
		case n == dw && token.IsExported(fn.Name()):
			roots = append(roots, fn)
		case n.Obj().Pkg().Path() == pkWire && (n.Obj().Name() == "CopyReader" || n.Obj().Name() == "BinaryCopyReader") && token.IsExported(fn.Name()):
			roots = append(roots, fn)
		}
	}
	R.Floor(rule, "handler-visible methods (result writer, COPY readers)", len(roots), 8)
	allowed := "TDCG"
	for _, fn := range roots {
		er := &emitSetRule{msgs: map[string]ssa.Instruction{}}
		tc := newTraceClient(c, er)
		ts := core.NewTS(c.P, tc)
		ts.Relevant = c.reachesEvents()
		ts.Run(fn, joinState("", ""), core.TSEnv{})
		R.Analysed(fname(fn))
		var got []string
		ok := true
		for m, site := range er.msgs {
			got = append(got, m)
			if len(m) != 1 || !strings.Contains(allowed, m) {
				ok = false
				R.Fail(rule, fkey(fn)+":emits:"+m, c.at(site), "the API reachable from a statement function emits only RowDescription, DataRow, CommandComplete, CopyInResponse", "method "+fname(fn)+" can emit message '"+m+"': a handler-driven ErrorResponse/ReadyForQuery duplicates or reorders the cycle owner's reply")
			}
		}
		if ok {
			R.OK(rule, fkey(fn)+":emit-set", c.atFn(fn), "the API reachable from a statement function emits only T, D, C, G", sprintf("emits %v", got))
		}
	}
}

func (c *Ctx) c05Writer() {
	R := c.R
	dw := c.P.Named("wire", "dataWriter")
	if dw == nil {
		R.Fail("C05.R3", "anchor:dataWriter", "-", "anchor type wire.dataWriter resolves", "type not found")
		return
	}
	reach := c.reachesWriter()
	closedLoads := func(fn *ssa.Function) (open []edge, closed []edge) {
		for _, b := range fn.Blocks {
			for _, in := range b.Instrs {
				u, ok := in.(*ssa.UnOp)
				if !ok {
					continue
				}
				if fr, ok := core.FieldOfValue(u); ok && fr.Is(pkWire, "dataWriter", c.dwField("closed")) {
					open = append(open, boolEdges(u, false)...)
					closed = append(closed, boolEdges(u, true)...)
				}
			}
		}
		return
	}
	for _, fn := range c.P.ScopeFuncs() {
		if fn.Signature.Recv() == nil || core.NamedOf(fn.Signature.Recv().Type()) != dw || fn.Parent() != nil {
			continue
		}
		// the writer is marked closed only by a call that completes: after the point where the close is
		// registered (deferred) or performed, no return refuses the call with a sentinel error
		var closers []ssa.Instruction
		for _, b := range fn.Blocks {
			for _, in := range b.Instrs {
				if st, isStore := in.(*ssa.Store); isStore {
					if fr, ok := core.FieldOfAddr(st.Addr); ok && fr.Is(pkWire, "dataWriter", c.dwField("closed")) {
						closers = append(closers, in)
					}
				}
				if ci, isCall := in.(ssa.CallInstruction); isCall {
					if callee := core.StaticCallee(ci); callee != nil && c.storesClosedTrue(callee) {
						closers = append(closers, in)
					}
				}
			}
		}
		// the writer is closed only by a call that emits the completion: a method that closes without being able to emit
		// anything ends the statement without CommandComplete
		primitive := len(fn.Blocks) == 1 && !token.IsExported(fn.Name()) && len(c.P.CallSitesOf(fn)) > 0 // the close() helper itself
		if len(closers) > 0 && !reach[fn] && !primitive {
			R.Fail("C05.R3", fkey(fn)+":closes-without-emitting", c.at(closers[0]), "completion emits exactly one CommandComplete: the writer is closed by the call that emits it", fname(fn)+" marks the writer closed but can emit no message: after it a statement can no longer be completed (Complete fails with ErrClosedWriter), so a handler that announces an empty result and then completes ends its statement without CommandComplete (T E Z instead of T C Z)")
		}
		for _, ci := range closers {
			after := reachableAvoiding(ci.Block(), func(*ssa.BasicBlock) bool { return false })
			for b := range after {
				ret, isRet := b.Instrs[len(b.Instrs)-1].(*ssa.Return)
				if !isRet {
					continue
				}
				ev := errOperand(ret)
				if ev == nil {
					continue
				}
				okRet := true
				for _, root := range core.ErrRoots(ev) {
					if core.IsNilConst(root) {
						continue
					}
					if call, isCall := root.(*ssa.Call); isCall {
						if rc := core.StaticCallee(call); rc != nil && reach[rc] {
							continue // the outcome of the emitting operation itself
						}
						if writerMethod(call) == "End" {
							continue // the frame written right here: the outcome of the emission
						}
						if rc := core.StaticCallee(call); rc != nil && rc.Signature.Recv() != nil && core.NamedOf(rc.Signature.Recv().Type()) == dw {
							continue // the outcome of another writer method, whose own returns are subject to this rule
						}
					}
					okRet = false
				}
				R.Check(okRet, "C05.R3", fkey(fn)+":closes-only-when-completing:"+retDescr(ret), c.at(ret), "a call that is refused (returns an error that is not the outcome of an emission) leaves the writer open: only a completing call closes it", "every return after the close is nil or the result of the emitting call", "the writer is marked closed on a path that returns a refusal: the statement can no longer be completed and no CommandComplete is sent")
			}
		}
	}
	guardedMethods := 0
	errClosed := c.P.Global("wire", "ErrClosedWriter")
	for _, fn := range c.P.ScopeFuncs() {
		if fn.Signature.Recv() == nil || core.NamedOf(fn.Signature.Recv().Type()) != dw || fn.Parent() != nil || !reach[fn] {
			continue
		}
		R.Analysed(fname(fn))
		guardedMethods++
		open, closed := closedLoads(fn)
		// every call that can reach the connection writer is on the not-closed edge
		okAll := true
		for _, ci := range core.Calls(fn) {
			callee := core.StaticCallee(ci)
			if callee == nil || !reach[callee] {
				continue
			}
			if _, isDefer := ci.(*ssa.Defer); isDefer {
				continue
			}
			if callee.Signature.Recv() != nil && core.NamedOf(callee.Signature.Recv().Type()) == dw && callee != fn && len(ci.Common().Args) > 0 && ci.Common().Args[0] == ssa.Value(fn.Params[0]) {
				continue // a step of the same writer: it tests the flag itself (it is checked by this very rule)
			}
			if !anyDominates(open, ci.Block()) {
				okAll = false
				R.Fail("C05.R3", fkey(fn)+":closed-guard:"+callDescr(ci), c.at(ci), "every emitting operation of the result writer is dominated by the closed == false edge", "call "+callDescr(ci)+" can emit bytes without the closed flag having been tested")
			}
		}
		if okAll {
			R.OK("C05.R3", fkey(fn)+":closed-guard", c.atFn(fn), "every emitting operation of the result writer is dominated by the closed == false edge", "dominance of all writer-reaching calls by the false edge of the closed load")
		}
		// on the closed edge: returns ErrClosedWriter
		for _, ce := range closed {
			blk := ce.to()
			ret, isRet := blk.Instrs[len(blk.Instrs)-1].(*ssa.Return)
			ok := false
			if isRet {
				if ev := errOperand(ret); ev != nil {
					if u, isU := core.Strip(ev).(*ssa.UnOp); isU && u.X == ssa.Value(errClosed) {
						ok = true
					}
				}
			}
			R.Check(ok, "C05.R3", fkey(fn)+":closed-returns-ErrClosedWriter", c.at(blk.Instrs[0]), "a call after completion fails with ErrClosedWriter", "the closed edge returns the ErrClosedWriter sentinel directly", "the closed edge does not return ErrClosedWriter")
		}
	}
	R.Floor("C05.R3", "emitting methods of the result writer", guardedMethods, 4)

	// closed is monotone (only ever set to true); written only incremented, on the success edge of the row write
	nClosedStores, nWrittenStores := 0, 0
	for _, fn := range c.P.ScopeFuncs() {
		for _, b := range fn.Blocks {
			for _, in := range b.Instrs {
				st, ok := in.(*ssa.Store)
				if !ok {
					continue
				}
				fr, ok := core.FieldOfAddr(st.Addr)
				if !ok {
					continue
				}
				switch {
				case fr.Is(pkWire, "dataWriter", c.dwField("closed")):
					nClosedStores++
					cv, isC := st.Val.(*ssa.Const)
					R.Check(isC && cv.Value != nil && cv.Value.ExactString() == "true", "C05.R3", fkey(fn)+":closed-monotone", c.at(st), "the closed flag only ever becomes true (a finished writer cannot be reopened)", "stores the constant true", "a store to dataWriter.closed writes something other than the constant true")
				case fr.Is(pkWire, "dataWriter", c.dwField("written")):
					nWrittenStores++
					inc := false
					if bo, isB := st.Val.(*ssa.BinOp); isB && bo.Op == token.ADD {
						if k, okk := core.ConstInt(bo.Y); okk && k == 1 {
							if lf, okl := core.FieldOfValue(bo.X); okl && lf.Is(pkWire, "dataWriter", c.dwField("written")) {
								inc = true
							}
						}
					}
					R.Check(inc, "C05.R4", fkey(fn)+":written-increment", c.at(st), "the row counter changes only by +1", "store of written + 1", "a store to dataWriter.written is not an increment by one")
					// dominated by success of Columns.Write
					okDom := false
					cw := c.P.Method("wire", "Columns", "Write")
					for _, ci := range callsIn(fn, calleeIs(cw)) {
						if call, isCall := ci.(*ssa.Call); isCall {
							if ev := errResultOf(call); ev != nil && anyDominates(nilEdges(ev, true), st.Block()) {
								okDom = true
							}
						}
					}
					R.Check(okDom, "C05.R4", fkey(fn)+":written-after-success", c.at(st), "the row counter is incremented only after the row was written successfully", "the increment is dominated by the err == nil edge of Columns.Write", "the increment of dataWriter.written is not dominated by the err == nil edge of the row write: rejected rows are counted")
				}
			}
		}
	}
	R.Floor("C05.R3", "stores to dataWriter.closed", nClosedStores, 1)
	R.Floor("C05.R4", "stores to dataWriter.written", nWrittenStores, 1)

	// Complete: single emission site, closes on every path that may have emitted
	if complete := c.mustMethod("C05.R3", "wire", "dataWriter", "Complete"); complete != nil {
		// the CommandComplete emission: Start('C') in Complete itself, or the call of a helper of package wire that does it
		startsC := func(fn *ssa.Function) []ssa.CallInstruction {
			var out []ssa.CallInstruction
			for _, ci := range core.Calls(fn) {
				if writerMethod(ci) == "Start" {
					if k, ok := core.ConstInt(ci.Common().Args[1]); ok && k == 'C' {
						out = append(out, ci)
					}
				}
			}
			return out
		}
		sites := startsC(complete)
		for _, ci := range core.Calls(complete) {
			if h := core.StaticCallee(ci); h != nil && c.P.InPkg(h, "wire") && h.Blocks != nil && len(startsC(h)) > 0 {
				sites = append(sites, ci)
			}
		}
		loops := core.Loops(complete)
		inLoop := false
		for _, s := range sites {
			for _, l := range loops {
				if l.Body[s.Block()] {
					inLoop = true
				}
			}
		}
		R.Check(len(sites) == 1 && !inLoop, "C05.R3", "(*dataWriter).Complete:single-CommandComplete", c.atFn(complete), "completion emits exactly one CommandComplete", "one commandComplete call site, not in a loop", sprintf("%d commandComplete call sites (in loop: %v)", len(sites), inLoop))
		if len(sites) == 1 {
			closes := false
			for _, ci := range core.Calls(complete) {
				d, isDefer := ci.(*ssa.Defer)
				if !isDefer || !core.InstrDominates(d, sites[0]) {
					continue
				}
				if callee := core.StaticCallee(d); callee != nil && c.storesClosedTrue(callee) {
					closes = true
				}
			}
			if !closes { // explicit store after the emission on every path
				reach := reachableAvoiding(sites[0].Block(), func(b *ssa.BasicBlock) bool {
					if b == sites[0].Block() {
						return false
					}
					return c.blockClosesWriter(b)
				})
				closes = true
				for b := range reach {
					if _, isRet := b.Instrs[len(b.Instrs)-1].(*ssa.Return); isRet && !c.blockClosesWriter(b) {
						closes = false
					}
				}
			}
			R.Check(closes, "C05.R3", "(*dataWriter).Complete:closes", c.at(sites[0]), "Complete marks the writer closed on every path on which CommandComplete may have been emitted", "a deferred close registered before the emission (or a store on every path after it)", "a path emits CommandComplete and returns without marking the writer closed: further rows or a second CommandComplete can follow")
		}
	}

	// each statement call receives a fresh writer
	ndw := c.P.Func("wire", "NewDataWriter")
	nStmtCalls := 0
	for _, fn := range c.P.ScopeFuncs() {
		for _, ci := range core.Calls(fn) {
			if callbackName(ci) != "stmt" {
				continue
			}
			nStmtCalls++
			arg := ci.Common().Args[1]
			if mi, ok := arg.(*ssa.MakeInterface); ok {
				arg = mi.X
			}
			site := ssa.Instruction(ci)
			// a helper that only runs the statement receives the writer from its single caller
			if p, isParam := core.Strip(arg).(*ssa.Parameter); isParam {
				if sites := c.P.CallSitesOf(fn); len(sites) == 1 {
					for i, q := range fn.Params {
						if q == p && i < len(sites[0].Common().Args) {
							arg = sites[0].Common().Args[i]
							if mi, ok := arg.(*ssa.MakeInterface); ok {
								arg = mi.X
							}
							site = sites[0]
						}
					}
				}
			}
			call, ok := core.Strip(arg).(*ssa.Call)
			fresh := ok && core.StaticCallee(call) == ndw && call.Block() == site.Block()
			R.Check(fresh, "C05.R3", fkey(fn)+":fresh-writer-per-statement", c.at(ci), "every statement invocation receives a result writer created for that invocation", "argument is the result of NewDataWriter called in the same block", "the DataWriter passed to the statement function is not a fresh NewDataWriter result: state (closed, written) leaks between statements")
		}
	}
	R.Floor("C05.R3", "statement function call sites", nStmtCalls, 2)
	if ndw != nil {
		fresh := false
		for _, r := range returns(ndw) {
			v := r.Results[0]
			if mi, ok := v.(*ssa.MakeInterface); ok {
				v = mi.X
			}
			if a, ok := v.(*ssa.Alloc); ok && a.Heap {
				fresh = true
			} else {
				fresh = false
				break
			}
		}
		R.Check(fresh, "C05.R3", "NewDataWriter:fresh", c.atFn(ndw), "NewDataWriter returns a new writer (closed == false, written == 0)", "returns a fresh allocation", "NewDataWriter does not return a fresh allocation")
		// no store initialises closed/written to a non-zero value (checked above: closed stores are 'true' only inside close())
		for _, b := range ndw.Blocks {
			for _, in := range b.Instrs {
				if st, ok := in.(*ssa.Store); ok {
					if fr, ok := core.FieldOfAddr(st.Addr); ok && (fr.Is(pkWire, "dataWriter", c.dwField("closed")) || fr.Is(pkWire, "dataWriter", c.dwField("written"))) {
						R.Fail("C05.R3", "NewDataWriter:initial-state", c.at(st), "a new writer starts open with a zero row counter", "NewDataWriter initialises "+fr.Name)
					}
				}
			}
		}
	}

	// ---------- R5: arity test dominates the DataRow frame
	if cw := c.mustMethod("C05.R5", "wire", "Columns", "Write"); cw != nil {
		R.Analysed(fname(cw))
		n := 0
		for _, ci := range core.Calls(cw) {
			if !isWriterMethod(ci, "Start") {
				continue
			}
			n++
			srcs, columns := ssa.Value(cw.Params[4]), ssa.Value(cw.Params[0])
			R.Check(lenEqGuard(srcs, columns, ci.Block()), "C05.R5", "(Columns).Write:arity-before-frame", c.at(ci), "a row whose value count differs from the column count emits nothing", "the len(srcs) == len(columns) edge dominates Start", "the DataRow frame is started without the arity test dominating it")
		}
		R.Floor("C05.R5", "DataRow Start sites in Columns.Write", n, 1)
		// a return that may report success has ended the DataRow frame: the caller counts the row as delivered
		var ends []ssa.CallInstruction
		for _, ci := range core.Calls(cw) {
			if isWriterMethod(ci, "End") {
				ends = append(ends, ci)
			}
		}
		nRet := 0
		for _, r := range returns(cw) {
			ev := errOperand(r)
			if ev == nil {
				continue
			}
			if cls := c.Err().Classify(ev, r.Block()); !cls.MayBeNil() {
				continue
			}
			nRet++
			ended := false
			for _, e := range ends {
				if v, isV := e.(ssa.Value); isV && core.StripConv(ev) == v {
					ended = true
				}
				if e.Block() != r.Block() && e.Block().Dominates(r.Block()) {
					ended = true
				}
				if e.Block() == r.Block() && core.InstrIndex(e.(ssa.Instruction)) < core.InstrIndex(r) {
					ended = true
				}
			}
			R.Check(ended, "C05.R5", "(Columns).Write:success-after-End", c.at(r), "a row reported as written was sent: every return of Columns.Write that may carry a nil error follows the End of its DataRow frame", "the return is End's result or is dominated by the End call", "Columns.Write can return nil without having ended a DataRow frame: dataWriter.Row counts a row the client never receives")
		}
		R.Floor("C05.R5", "returns of Columns.Write that may report success", nRet, 1)
	}
}

func (c *Ctx) storesClosedTrue(fn *ssa.Function) bool {
	for _, b := range fn.Blocks {
		if c.blockClosesWriter(b) {
			return true
		}
	}
	return false
}

func (c *Ctx) blockClosesWriter(b *ssa.BasicBlock) bool {
	for _, in := range b.Instrs {
		switch v := in.(type) {
		case *ssa.Store:
			if fr, ok := core.FieldOfAddr(v.Addr); ok && fr.Is(pkWire, "dataWriter", c.dwField("closed")) {
				return true
			}
		case *ssa.Call:
			if callee := core.StaticCallee(v); callee != nil && c.P.InScope(callee) && callee != b.Parent() && len(callee.Blocks) == 1 && c.storesClosedTrue(callee) {
				return true
			}
		}
	}
	return false
}

var _ = types.Identical

// writerLatchesOnlyBufferErrors: a frame is dropped by End only when a write into the frame buffer failed. A Writer
// method that latches an error of its own making (refusing a string for what it contains, say) makes the reply that
// carries such data - the ErrorResponse of a statement whose message holds a zero byte - vanish: the client receives
// neither the ErrorResponse nor the ReadyForQuery that follows it.
func (c *Ctx) writerLatchesOnlyBufferErrors(rule string) {
	R := c.R
	n := 0
	for _, fn := range c.P.ScopeFuncs() {
		if !c.P.InPkg(fn, "buffer") {
			continue
		}
		for _, b := range fn.Blocks {
			for _, in := range b.Instrs {
				st, ok := in.(*ssa.Store)
				if !ok {
					continue
				}
				fr, ok := core.FieldOfAddr(st.Addr)
				if !ok || !fr.Is(pkBuffer, "Writer", "err") {
					continue
				}
				n++
				okSrc := core.IsNilConst(st.Val)
				v := core.Strip(st.Val)
				if ex, isEx := v.(*ssa.Extract); isEx {
					v = ex.Tuple
				}
				if call, isCall := v.(*ssa.Call); isCall {
					if isBytesBufferMethod(call, "Write") || isBytesBufferMethod(call, "WriteString") || isBytesBufferMethod(call, "WriteByte") {
						okSrc = true
					}
					if cc := call.Common(); cc.IsInvoke() && cc.Method.Name() == "Write" {
						okSrc = true // the connection write in End
					}
					if f := core.StaticCallee(call); f != nil && f.Pkg != nil && f.Pkg.Pkg.Path() == "encoding/binary" {
						okSrc = true
					}
				}
				R.Check(okSrc, rule, fkey(fn)+":latches-only-write-errors", c.at(st), "a frame is abandoned only because a write failed, never because of what the data contains", "Writer.err is assigned nil or the result of a buffer / connection write", "Writer.err is set to an error the writer makes up itself: End then drops the whole frame, so the message that carries the offending data (the ErrorResponse of a failing statement, for instance) is never sent")
			}
		}
	}
	R.Floor(rule, "assignments of Writer.err", n, 3)
}

// dwField resolves the state fields of the result writer by what they are, not what they are called: the flag is the
// writer's only bool field, the row counter its only integer field (the names are the fall-back).
func (c *Ctx) dwField(role string) string {
	dw := c.P.Named("wire", "dataWriter")
	if dw == nil {
		return role
	}
	st, ok := dw.Underlying().(*types.Struct)
	if !ok {
		return role
	}
	var found []string
	for i := 0; i < st.NumFields(); i++ {
		bt, isB := st.Field(i).Type().Underlying().(*types.Basic)
		if !isB {
			continue
		}
		switch {
		case role == "closed" && bt.Kind() == types.Bool:
			found = append(found, st.Field(i).Name())
		case role == "written" && bt.Info()&types.IsInteger != 0:
			found = append(found, st.Field(i).Name())
		}
	}
	if len(found) == 1 {
		return found[0]
	}
	return role
}
