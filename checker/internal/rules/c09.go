package rules

import (
	"golang.org/x/tools/go/ssa"
	"strings"

	"pwv/internal/core"
)

func init() { Registry["C09"] = runC09 }

func runC09(c *Ctx) {
	R := c.R
	defer c.include("C09.S1", "C08", []string{"C08.R4"}, "the announced format of each column is the format its values are encoded in: one decision table, one result-format list per Bind", 4)
	R.Technique = "operand provenance and guard rules on Column.Write (NULL marker), access-path identity of the column sets used for RowDescription and DataRow, sibling agreement of the format tables (shared with C08.R4)"
	R.Explanation = "The headline of this property - decoded value equals written value for every type and format - is a statement about pgx codecs and runtime values and is NOT decided by static analysis. Decided structural clauses, each a necessary condition: (R1) in Column.Write the length field is -1 exactly on the edge where the buffer returned by the type map's Encode is nil (the documented NULL signal for untyped nil, nil pointers and invalid nullable values), len(buffer) otherwise; the buffer handed to Encode is a fresh non-nil slice, so a nil result can only mean NULL and a non-NULL empty value keeps length 0; the bytes appended are that same buffer; an encode error returns before anything is appended. " +
		"(R2) the DataRow count and the RowDescription count are len() of the same column set at each pairing site (simple query: the statement's columns for both; portal: the portal's statement columns for both) and the arity test dominates the DataRow frame; (R3) the format announced equals the format used (same decision table in Columns.Define and Columns.Write); (R4) the type map used for encoding is the one stored in the connection's context."
	R.Assumptions = []string{"pgtype.Map.Encode: 'If value is the SQL value NULL then append nothing and return (nil, nil)' (documented contract, read in pgx v5.4.3)"}
	R.Trusted = []string{"go/types + go/ssa", "pgx v5 pgtype.Map.Encode contract"}

	cw := c.mustMethod("C09.R1", "wire", "Column", "Write")
	if cw != nil {
		R.Analysed(fname(cw))
		// the encode step may live in Column.Write itself or in a helper it calls
		var enc *ssa.Call
		cands := []*ssa.Function{cw}
		for _, ci := range core.Calls(cw) {
			if f := core.StaticCallee(ci); f != nil && c.P.InPkg(f, "wire") {
				cands = append(cands, f)
			}
		}
		for _, fn := range cands {
			for _, ci := range core.Calls(fn) {
				if call, ok := ci.(*ssa.Call); ok {
					if f := core.StaticCallee(call); f != nil && f.Name() == "Encode" && core.MethodIs(f, "github.com/jackc/pgx/v5/pgtype", "Map", "Encode") {
						enc = call
					}
				}
			}
		}
		appFn := cw // the function that appends the length and the payload
		var passThrough *ssa.Call
		if enc != nil && enc.Parent() != cw {
			// a helper that only encodes and hands Encode's results back unchanged leaves the appends in Column.Write;
			// a helper that holds the whole step takes Column.Write's place
			h := enc.Parent()
			only := len(returns(h)) > 0
			for _, r := range returns(h) {
				if len(r.Results) != 2 {
					only = false
					continue
				}
				if r.Results[0] == resultOf(enc, 0) && r.Results[1] == resultOf(enc, 1) {
					continue // Encode's results handed back as they are
				}
				// or: (buffer, nil) after Encode succeeded, and a non-nil error otherwise
				if cls := c.Err().Classify(errOperand(r), r.Block()); cls.MayBeNil() {
					if forwardLoad(r.Results[0]) != resultOf(enc, 0) || !anyDominates(nilEdges(resultOf(enc, 1), true), r.Block()) {
						only = false
					}
				}
			}
			if only {
				for _, ci := range callsIn(cw, calleeIs(h)) {
					passThrough, _ = ci.(*ssa.Call)
				}
			}
			if passThrough == nil {
				appFn = h
			}
			cw = h
			R.Analysed(fname(h))
		}
		if enc == nil {
			R.Fail("C09.R1", "Column.Write:encode-call", c.atFn(cw), "values are encoded through the type map's Encode", "no pgtype.Map.Encode call in Column.Write")
		} else {
			buf := resultOf(enc, 0)
			eerr := resultOf(enc, 1)
			if passThrough != nil {
				buf, eerr = resultOf(passThrough, 0), resultOf(passThrough, 1)
			}
			// an argument of Encode in the terms of Column.Write (through the encoding helper's parameters)
			inWrite := func(v ssa.Value) ssa.Value {
				if prm, ok := core.Strip(v).(*ssa.Parameter); ok && passThrough != nil {
					for i, hp := range enc.Parent().Params {
						if hp == prm && i < len(passThrough.Call.Args) {
							return passThrough.Call.Args[i]
						}
					}
				}
				return v
			}
			// the buffer passed in is fresh and non-nil
			in := enc.Call.Args[len(enc.Call.Args)-1]
			fresh := false
			switch x := in.(type) {
			case *ssa.MakeSlice:
				fresh = x.Parent() == cw
			case *ssa.Slice:
				if a, ok := x.X.(*ssa.Alloc); ok && a.Parent() == cw {
					fresh = true
				}
			}
			R.Check(fresh, "C09.R1", "Column.Write:fresh-non-nil-buffer", c.at(enc), "Encode appends to a fresh, non-nil buffer, so a nil result can only mean SQL NULL", "the buffer argument is allocated in Column.Write (make)", "the buffer handed to Encode is not a fresh non-nil slice of this call: an empty non-NULL value after a NULL (or a shared scratch buffer) becomes indistinguishable from NULL")
			// the type map is the connection's
			tm := inWrite(enc.Call.Args[0])
			okTM := false
			if call, ok := tm.(*ssa.Call); ok && core.FuncIs(core.StaticCallee(call), pkWire, "TypeMap") {
				if p, ok := call.Call.Args[0].(*ssa.Parameter); ok && isCtxType(p.Type()) {
					okTM = true
				}
			}
			R.Check(okTM, "C09.R4", "Column.Write:connection-type-map", c.at(enc), "values are encoded with the type map stored in the connection's context", "receiver is TypeMap(ctx) of the ctx parameter", "the type map used is not TypeMap(ctx)")
			// value and format passed through
			okArgs := len(enc.Call.Args) == 5
			if okArgs {
				// the source value itself, or nil in its place where it was found to be a nil pointer (reflect IsNil)
				isSrc := true
				var srcLeaves []ssa.Value
				leaves(enc.Call.Args[3], map[ssa.Value]bool{}, &srcLeaves)
				nilPtrNormalised := false
				for _, lv := range srcLeaves {
					switch x := inWrite(lv).(type) {
					case *ssa.Parameter:
					case *ssa.Const:
						if x.Value != nil {
							isSrc = false
						}
						nilPtrNormalised = true
					default:
						isSrc = false
					}
				}
				if nilPtrNormalised {
					// the nil replacement is taken only on an edge where reflect reported a nil pointer
					okNil := false
					hasIsNil := func(fn *ssa.Function) bool {
						for _, hi := range core.Calls(fn) {
							if f := core.StaticCallee(hi); f != nil && core.MethodIs(f, "reflect", "Value", "IsNil") {
								return true
							}
						}
						return false
					}
					for _, ci := range core.Calls(cw) {
						f := core.StaticCallee(ci)
						call, isCall := ci.(*ssa.Call)
						if f == nil || !isCall {
							continue
						}
						if core.MethodIs(f, "reflect", "Value", "IsNil") && len(boolEdges(call, true)) > 0 {
							okNil = true
						}
						// a predicate of the package that asks reflect (isNilPointer(src))
						if c.P.InPkg(f, "wire") && f.Blocks != nil && hasIsNil(f) && len(boolEdges(call, true)) > 0 {
							okNil = true
							R.Analysed(fname(f))
						}
					}
					isSrc = isSrc && okNil
				}
				R.Check(nilPtrNormalised && isSrc, "C09.R1", "Column.Write:nil-pointer-is-NULL", c.at(enc), "a nil pointer of any type is transmitted as NULL (the type map itself only recognises the untyped nil and would call methods on the nil pointer)", "the source is replaced by nil where reflect reports a nil pointer, before Encode", "the source value reaches Encode unchanged: a typed nil pointer to a nullable type (e.g. (*pgtype.Text)(nil)) makes the codec call a method on the nil pointer - a panic instead of a NULL field")
				fmtP, isFmt := core.StripConv(inWrite(core.StripConv(enc.Call.Args[2]))).(*ssa.Parameter)
				_, oidPath := pathOf(core.StripConv(enc.Call.Args[1]))
				okArgs = isSrc && isFmt && core.IsNamed(fmtP.Type(), pkWire, "FormatCode") && oidPath == ".Oid"
			}
			R.Check(okArgs, "C09.R1", "Column.Write:encode-arguments", c.at(enc), "the value is encoded as the column's type in the requested format", "Encode(column.Oid, format, src, buf)", "Encode is not called with the column's OID, the format parameter and the source value")
			// the appends may live in a helper that receives the encoded buffer (writeField(writer, value)): inside it the
			// buffer is that parameter, and "Encode succeeded" is decided where the helper is called
			abuf := buf
			errDom := func(b *ssa.BasicBlock) bool { return anyDominates(nilEdges(eerr, true), b) }
			{
				has := false
				for _, ci := range core.Calls(appFn) {
					if writerMethod(ci) == "AddInt32" {
						has = true
					}
				}
				if !has && buf != nil {
					for _, ci := range core.Calls(appFn) {
						h := core.StaticCallee(ci)
						if h == nil || !c.P.InPkg(h, "wire") || h.Blocks == nil {
							continue
						}
						hasH := false
						for _, hi := range core.Calls(h) {
							if writerMethod(hi) == "AddInt32" {
								hasH = true
							}
						}
						if !hasH {
							continue
						}
						for i, a := range ci.Common().Args {
							if a == buf && i < len(h.Params) {
								okSite := anyDominates(nilEdges(eerr, true), ci.Block())
								appFn, abuf = h, h.Params[i]
								errDom = func(*ssa.BasicBlock) bool { return okSite }
								R.Analysed(fname(h))
							}
						}
					}
				}
			}
			// length operand: over all length appends, -1 is emitted exactly on the nil-buffer edge and len(buffer) otherwise
			n := 0
			okLen, okNull := false, false
			extra := ""
			var lastLen ssa.CallInstruction
			for _, ci := range core.Calls(appFn) {
				switch writerMethod(ci) {
				case "AddInt32":
					n++
					lastLen = ci
					if abuf == nil || !errDom(ci.Block()) {
						R.Fail("C09.R1", "Column.Write:append-after-encode-error", c.at(ci), "nothing is appended when encoding failed", "the length is appended on a path where Encode's error was not tested")
					}
					// the length may be computed by a small function of the package that is handed the buffer
					// (fieldLength(encoded)): its returns are read in its own terms
					if hc, isCall := core.StripConv(ci.Common().Args[1]).(*ssa.Call); isCall {
						if h := core.StaticCallee(hc); h != nil && c.P.InPkg(h, "wire") && h.Blocks != nil {
							var hp *ssa.Parameter
							for i, a := range hc.Call.Args {
								if a == abuf && i < len(h.Params) {
									hp = h.Params[i]
								}
							}
							if hp != nil {
								R.Analysed(fname(h))
								one := func(v ssa.Value, at *ssa.BasicBlock, viaEdge func(e edge) bool) {
									v = core.StripConv(v)
									onNil := anyDominates(nilEdges(hp, true), at)
									onNonNil := anyDominates(nilEdges(hp, false), at)
									for _, e := range nilEdges(hp, true) {
										if viaEdge(e) {
											onNil = true
										}
									}
									for _, e := range nilEdges(hp, false) {
										if viaEdge(e) {
											onNonNil = true
										}
									}
									if k, ok := core.ConstInt(v); ok && k == -1 {
										if onNil {
											okNull = true
										} else {
											extra = "-1 outside the nil-buffer edge"
										}
										return
									}
									if x, ok := core.IsLenOf(v); ok && x == ssa.Value(hp) {
										okLen = true
										if !onNonNil {
											extra = "len(buffer) is returned on a path on which the buffer may be nil"
										}
										return
									}
									extra = v.String()
								}
								for _, r := range returns(h) {
									if ph, isPhi := r.Results[0].(*ssa.Phi); isPhi {
										for i, e := range ph.Edges {
											pred := ph.Block().Preds[i]
											one(e, pred, func(ed edge) bool { return ed.from == pred && ed.to() == ph.Block() })
										}
										continue
									}
									one(r.Results[0], r.Block(), func(edge) bool { return false })
								}
								continue
							}
						}
					}
					var ls []ssa.Value
					leaves(ci.Common().Args[1], map[ssa.Value]bool{}, &ls)
					ph, isPhi := ci.Common().Args[1].(*ssa.Phi)
					siteNull := false
					for _, l := range ls {
						if k, ok := core.ConstInt(l); ok && k == -1 {
							// the -1 must come from the `buf == nil` edge: a phi edge taken there, or a call site that lies on it
							if isPhi {
								for i, e := range ph.Edges {
									if e == l {
										pred := ph.Block().Preds[i]
										if anyDominates(nilEdges(abuf, true), pred) {
											okNull, siteNull = true, true
										}
										for _, ne := range nilEdges(abuf, true) { // the phi edge itself is the nil edge
											if ne.from == pred && ne.to() == ph.Block() {
												okNull, siteNull = true, true
											}
										}
									}
								}
							} else if anyDominates(nilEdges(abuf, true), ci.Block()) {
								okNull, siteNull = true, true
							} else {
								extra = "-1 outside the nil-buffer edge"
							}
							continue
						}
						if x, ok := core.IsLenOf(core.StripConv(l)); ok && x == abuf {
							okLen = true
							continue
						}
						extra = l.String()
					}
					// a site that can only emit len(buffer) must not be reachable with a nil buffer (it would announce 0 for NULL)
					if !siteNull && abuf != nil && !anyDominates(nilEdges(abuf, false), ci.Block()) {
						extra = "len(buffer) is appended on a path on which the buffer may be nil"
					}
				case "AddBytes":
					n++
					R.Check(ci.Common().Args[1] == abuf, "C09.R1", "Column.Write:payload", c.at(ci), "the payload appended is exactly the buffer Encode returned", "AddBytes(buffer)", "the bytes appended are not Encode's result")
				}
			}
			if lastLen != nil {
				R.Check(okLen && okNull && extra == "", "C09.R1", "Column.Write:length-field", c.at(lastLen), "the length field is -1 exactly when Encode returned a nil buffer, and len(buffer) otherwise", "-1 on the buffer == nil edge (phi edge or a call site on that edge), int32(len(buffer)) otherwise", sprintf("length sources: len(buffer)=%v, -1 on the nil-buffer edge=%v, other=%q - NULL is decided by something other than Encode's result (e.g. src == nil misses typed NULLs)", okLen, okNull, extra))
			}
			R.Floor("C09.R1", "length / payload appends in Column.Write", n, 2)
		}
	}

	// ---------- R2: same column set for description and rows
	if hsq := c.P.Method("wire", "Session", "handleSimpleQuery"); hsq != nil {
		R.Analysed(fname(hsq))
		def := c.P.Method("wire", "Columns", "Define")
		ndw := c.P.Func("wire", "NewDataWriter")
		// the function of the simple-query path that announces the columns (handleSimpleQuery or a helper it calls per statement)
		host := hsq
		if len(callsIn(hsq, calleeIs(def))) == 0 {
			for _, ci := range core.Calls(hsq) {
				if h := core.StaticCallee(ci); h != nil && c.P.InPkg(h, "wire") && h.Blocks != nil && len(callsIn(h, calleeIs(def))) > 0 {
					host = h
					R.Analysed(fname(h))
				}
			}
		}
		var dcols, wcols []ssa.Value
		for _, ci := range callsIn(host, calleeIs(def)) {
			dcols = append(dcols, ci.Common().Args[0])
		}
		for _, ci := range callsIn(host, calleeIs(ndw)) {
			wcols = append(wcols, ci.Common().Args[1])
		}
		ok := len(dcols) == 1 && len(wcols) == 1
		if ok {
			r1, p1 := pathOf(dcols[0])
			r2, p2 := pathOf(wcols[0])
			i1, i2 := indexOf(dcols[0]), indexOf(wcols[0])
			ok = r1 == r2 && p1 == p2 && strings.HasSuffix(p1, ".columns") && i1 == i2
		}
		R.Check(ok, "C09.R2", "handleSimpleQuery:same-columns", c.atFn(hsq), "the RowDescription and the result writer of a statement are built from the same column set of that statement", "both use statements[index].columns with the same index", "RowDescription and the row writer use different column sets: DataRow and RowDescription field counts can disagree")
	}
	if dw := c.P.Method("wire", "dataWriter", "Row"); dw != nil {
		cwr := c.P.Method("wire", "Columns", "Write")
		for _, ci := range callsIn(dw, calleeIs(cwr)) {
			_, p := pathOf(ci.Common().Args[0])
			R.Check(p == ".columns", "C09.R2", "dataWriter.Row:declared-columns", c.at(ci), "rows are written against the writer's declared columns", "receiver is dataWriter.columns", "rows are written against a column set other than the writer's")
		}
	}
	if cwr := c.mustMethod("C09.R2", "wire", "Columns", "Write"); cwr != nil {
		R.Analysed(fname(cwr))
		for _, ci := range core.Calls(cwr) {
			if isWriterMethod(ci, "Start") {
				R.Check(lenEqGuard(cwr.Params[4], cwr.Params[0], ci.Block()), "C09.R2", "Columns.Write:arity", c.at(ci), "a DataRow is only started for a row with exactly one value per declared column", "len(srcs) == len(columns) dominates Start", "the DataRow frame is not guarded by the arity test")
			}
			if isWriterMethod(ci, "AddInt16") {
				x, ok := core.IsLenOf(core.StripConv(ci.Common().Args[1]))
				R.Check(ok && (x == ssa.Value(cwr.Params[0]) || lenEqGuard(x, cwr.Params[0], ci.Block())), "C09.R2", "Columns.Write:field-count", c.at(ci), "the DataRow field count is the number of declared columns", "int16(len(columns))", "the DataRow field count is not len(columns)")
			}
		}
		// each value is written by the column at the same index
		for _, ci := range core.Calls(cwr) {
			if f := core.StaticCallee(ci); f != nil && core.MethodIs(f, pkWire, "Column", "Write") {
				col := ci.Common().Args[0]
				src := ci.Common().Args[len(ci.Common().Args)-1]
				ic, is := indexOf(col), indexOf(src)
				rc, _ := pathOf(col)
				rs, _ := pathOf(src)
				R.Check(ic != nil && ic == is && rc == ssa.Value(cwr.Params[0]) && rs == ssa.Value(cwr.Params[4]), "C09.R2", "Columns.Write:value-i-by-column-i", c.at(ci), "value i is encoded by column i", "columns[index].Write(.., srcs[index]) with one index", "the value and the column are not taken at the same index")
			}
		}
	}

	// ---------- R3: announced = used format (shared with C08.R4)
	def := c.P.Method("wire", "Columns", "Define")
	wr := c.P.Method("wire", "Columns", "Write")
	if def != nil && wr != nil {
		d1, _ := c.formatTable(def, "Define")
		d2, _ := c.formatTable(wr, "Write")
		R.Check(d1 == d2 && strings.Contains(d1, "given["), "C09.R3", "format-table-agreement", c.atFn(wr), "the format announced in RowDescription is the format used to encode the DataRow", "both select: "+d1, "RowDescription and DataRow select formats differently: ["+d1+"] vs ["+d2+"]")
	}
	// Column.Define announces the format it was given
	if cd := c.P.Method("wire", "Column", "Define"); cd != nil {
		var last ssa.CallInstruction
		for _, ci := range core.Calls(cd) {
			if isWriterMethod(ci, "AddInt16") {
				last = ci
			}
		}
		ok := false
		if last != nil {
			if p, isP := core.StripConv(last.Common().Args[1]).(*ssa.Parameter); isP && core.IsNamed(p.Type(), pkWire, "FormatCode") {
				ok = true
			}
		}
		R.Check(ok, "C09.R3", "Column.Define:announces-given-format", c.atFn(cd), "the format code field of a RowDescription column is the format selected for it", "last Int16 of the column description is the format parameter", "the announced format code is not the format parameter")
	}
}

// indexOf returns the index value of the innermost IndexAddr on the access path of v.
func indexOf(v ssa.Value) ssa.Value {
	for depth := 0; depth < 10; depth++ {
		v = core.Strip(v)
		u, ok := v.(*ssa.UnOp)
		if !ok {
			return nil
		}
		switch a := u.X.(type) {
		case *ssa.IndexAddr:
			return a.Index
		case *ssa.FieldAddr:
			v = a.X
		default:
			return nil
		}
	}
	return nil
}
