package rules

import (
	"go/token"
	"go/types"
	"strings"

	"golang.org/x/tools/go/ssa"

	"pwv/internal/core"
)

func init() { Registry["C18"] = runC18 }

// msgDerived reports whether v is (a slice of) the reader's message window or a value handed out from it.
func msgDerived(l *core.Lin, v ssa.Value, depth int) bool {
	if depth > 6 {
		return false
	}
	switch x := v.(type) {
	case *ssa.UnOp:
		if x.Op == token.MUL {
			if fr, ok := core.FieldOfValue(x); ok && fr.Is(pkBuffer, "Reader", "Msg") {
				return true
			}
		}
	case *ssa.Slice:
		return msgDerived(l, x.X, depth+1)
	case *ssa.Phi:
		for _, e := range x.Edges {
			if msgDerived(l, e, depth+1) {
				return true
			}
		}
	case *ssa.ChangeType:
		return msgDerived(l, x.X, depth+1)
	case *ssa.Extract:
		if call, ok := x.Tuple.(*ssa.Call); ok && isReaderMethod(call, "GetBytes") && x.Index == 0 {
			return true
		}
	}
	return false
}

func isByteSliceLike(t types.Type) bool {
	if p, ok := t.Underlying().(*types.Pointer); ok {
		t = p.Elem()
	}
	if s, ok := t.Underlying().(*types.Slice); ok {
		if b, ok := s.Elem().Underlying().(*types.Basic); ok && b.Kind() == types.Byte {
			return true
		}
	}
	if a, ok := t.Underlying().(*types.Array); ok {
		if b, ok := a.Elem().Underlying().(*types.Basic); ok && b.Kind() == types.Byte {
			return a.Len() > 64 // small fixed scratch arrays (header) are not message storage
		}
	}
	return false
}

func runC18(c *Ctx) {
	R := c.R
	R.Technique = "who-may-store classification of every store to the message window (monotone-window invariant), zero-length proof for extensions by E-LIN over field memory, who-may-alias and single-writer scans"
	R.Explanation = "Strings and byte slices handed to callbacks are zero-copy views of the reader's allocation. They can never be overwritten if the window only ever moves forward inside an allocation. Decided invariant, for every history of later messages (any size, skipped or COPY): the end of Reader.Msg is the high-water mark of its allocation and every byte ever handed out lies before it. " +
		"(R1) every store to Reader.Msg in the library is one of: a left-advance v[a:] of the current window (no upper bound), an extension v[:h] of a window whose length is proved to be 0 at that point (so the new window starts at the high-water mark), a fresh make, or nil; no other field of the reader and no package variable keeps a byte slice (no second handle through which old bytes could be re-exposed); Go slices cannot move their start backwards, so a new window is disjoint from every view handed out before. " +
		"(R2) the only writes into the window's backing array are io.ReadFull into the window just produced by reset; nothing appends to, copies into or stores through a window-derived slice. (R3) package wire only reads the window. A 'reuse the buffer' optimisation (Msg = buf[:n], Msg = Msg[:0], a retained chunk or pool) violates R1 at that store."
	R.Assumptions = []string{"user code does not assign the exported Reader.Msg field itself"}
	R.Explanation += " (R5) byte views returned by the exported accessors are capacity-limited (v[:n:n]). (R2) also: clear(), encoding/binary Put*, Read and io.ReadAtLeast into window-derived slices are writes."
	R.Trusted = []string{"go/types + go/ssa", "Go slice semantics: v[a:] shares the allocation and never starts before v"}
	sum := c.summaries("C18.R1")
	mods := c.modSets()

	// ---------- R1: every store to Reader.Msg
	nStores := 0
	for _, fn := range c.P.ScopeFuncs() {
		var l *core.Lin
		for _, b := range fn.Blocks {
			for _, in := range b.Instrs {
				st, ok := in.(*ssa.Store)
				if !ok {
					continue
				}
				fr, ok := core.FieldOfAddr(st.Addr)
				if !ok || !fr.Is(pkBuffer, "Reader", "Msg") {
					continue
				}
				nStores++
				if l == nil {
					l = core.NewLin(c.P, fn, mods, sum)
				}
				key := fkey(fn) + ":window-store"
				desc := "a store to the message window keeps earlier views intact (advance, extension from the high-water mark, fresh allocation or nil)"
				// classify the stored value: every source it can come from (through phis) must be nil, a fresh allocation
				// (possibly re-sliced), an advance v[a:] of the reader's own current window, or an upper-bounded re-slice
				// v[:h] of a window-derived view that is provably empty (it then starts at the high-water mark)
				isCur := func(x ssa.Value) bool {
					u, isLoad := x.(*ssa.UnOp)
					if !isLoad || l.FM.Loads[u] == nil || l.FM.Loads[u].Field != "Msg" {
						return false
					}
					fr2, ok := core.FieldOfValue(u)
					return ok && (fr2.Base == fr.Base || sameFieldPath(u.X, st.Addr))
				}
				// the classification runs in a context: the system that proves emptiness, the point at which it must hold,
				// and what counts as "the current window" (in a pure helper: the parameter that receives it)
				type wctx struct {
					l     *core.Lin
					at    ssa.Instruction
					isCur func(x ssa.Value) bool
				}
				var classifyIn func(cx wctx, x ssa.Value, depth int) (kind, why string)
				classify := func(x ssa.Value, depth int) (string, string) {
					return classifyIn(wctx{l, st, isCur}, x, depth)
				}
				classifyIn = func(cx wctx, x ssa.Value, depth int) (string, string) {
					classify := func(x ssa.Value, depth int) (string, string) { return classifyIn(cx, x, depth) }
					isCur := cx.isCur
					if depth > 8 {
						return "bad", "too deep"
					}
					switch v := x.(type) {
					case *ssa.MakeSlice:
						return "fresh", ""
					case *ssa.Const:
						if v.Value == nil {
							return "nil", ""
						}
						return "bad", "a non-nil constant"
					case *ssa.Phi:
						kind := ""
						for _, e := range v.Edges {
							k, w := classify(e, depth+1)
							if k == "bad" {
								return k, w
							}
							if kind == "" || k == "window" {
								kind = k
							}
						}
						return kind, ""
					case *ssa.UnOp:
						if isCur(x) {
							return "window", ""
						}
						return "bad", "a slice of " + describe(x) + ", not of the current window: an allocation that earlier views still point into is re-exposed and will be overwritten by the next read"
					case *ssa.Parameter:
						if isCur(x) {
							return "window", ""
						}
						return "bad", "parameter " + v.Name() + ", which is not the current window"
					case *ssa.Call:
						if op, isSuf := suffixOperand(v); isSuf {
							return classify(op, depth+1)
						}
						// a pure helper of the package that computes the next window from the current one
						// (nextWindow(reader.Msg, size)): each of its results is classified in its own terms
						h := core.StaticCallee(v)
						if h == nil || !c.P.InPkg(h, "buffer") || h.Blocks == nil || h.Signature.Results().Len() != 1 {
							break
						}
						curParams := map[*ssa.Parameter]bool{}
						for i, a := range v.Call.Args {
							if i >= len(h.Params) {
								continue
							}
							if _, isSl := a.Type().Underlying().(*types.Slice); !isSl {
								continue
							}
							k, w := classify(a, depth+1)
							if k != "window" {
								return "bad", "the helper " + fname(h) + " receives " + describe(a) + ", not the current window" + w
							}
							curParams[h.Params[i]] = true
						}
						hl := core.NewLin(c.P, h, mods, sum)
						kind := ""
						for _, r := range returns(h) {
							hcx := wctx{hl, r, func(x ssa.Value) bool { p, ok := x.(*ssa.Parameter); return ok && curParams[p] }}
							k, w := classifyIn(hcx, r.Results[0], depth+1)
							if k == "bad" {
								return k, w
							}
							if kind == "" || k == "window" {
								kind = k
							}
						}
						if kind != "" {
							R.Analysed(fname(h))
							return kind, ""
						}
					case *ssa.Extract:
						if op, isSuf := suffixOperand(v); isSuf {
							return classify(op, depth+1) // a suffix of its operand: never starts before it
						}
					case *ssa.Slice:
						k, w := classify(v.X, depth+1)
						switch {
						case k == "bad":
							return k, w
						case k == "fresh" || k == "nil":
							return k, ""
						case v.High == nil && v.Max == nil:
							return "window", "" // left-advance: never starts before its operand
						default:
							// the operand as a whole is provably empty here (merges are proved edge by edge) ...
							if cx.l.Prove(cx.at, cx.l.LenOf(v.X), core.Zero, 0) {
								return "window", ""
							}
							// ... or every window-derived source of the operand is
							var srcs []ssa.Value
							leaves(v.X, map[ssa.Value]bool{}, &srcs)
							for _, src := range srcs {
								if sk, _ := classify(src, depth+1); sk != "window" {
									continue
								}
								if !cx.l.Prove(cx.at, cx.l.LenOf(src), core.Zero, 0) {
									return "bad", "re-sliced with an upper bound (" + describe(v.X) + "[:h]) while not provably empty: bytes of the current or an earlier message are re-exposed to the next read (right-truncation / rewind)"
								}
							}
							return "window", ""
						}
					}
					return "bad", describe(x) + ", which is neither an advance of the current window, an extension of an empty window, a fresh allocation nor nil"
				}
				kind, why := classify(st.Val, 0)
				if kind == "bad" {
					R.Fail("C18.R1", key+":"+describe(st.Val), c.at(st), desc, "the window is set to "+why)
				} else {
					R.OK("C18.R1", key+":"+kind+":"+describe(st.Val), c.at(st), desc, "every source is nil, a fresh allocation, an advance of the current window, or an upper-bounded re-slice of an empty window-derived view (E-LIN)")
				}
			}
		}
	}
	R.Floor("C18.R1", "stores to Reader.Msg", nStores, 4)

	// who-may-alias: no other reader field or package variable keeps message storage
	if rn := c.P.Named("buffer", "Reader"); rn != nil {
		st := rn.Underlying().(*types.Struct)
		for i := 0; i < st.NumFields(); i++ {
			f := st.Field(i)
			if f.Name() == "Msg" {
				continue
			}
			R.Check(!isByteSliceLike(f.Type()), "C18.R1", "Reader-field:"+f.Name(), c.P.Pos(f.Pos()), "the reader keeps no second handle on message storage (only Msg)", "field type "+f.Type().String(), "field Reader."+f.Name()+" of type "+f.Type().String()+" can retain a message allocation: bytes already handed out can be brought back under the window and overwritten")
		}
	}
	for short, pkg := range c.P.Scope {
		if short != "buffer" {
			continue
		}
		for name, m := range pkg.Members {
			if g, ok := m.(*ssa.Global); ok {
				elem := g.Type().(*types.Pointer).Elem()
				if _, isConstByte := c.sslByte(g); isConstByte && isByteSliceLike(elem) {
					continue // a one-byte literal that is never reassigned (a separator constant): it cannot hold a message
				}
				if isByteSliceLike(elem) || core.IsNamed(elem, "sync", "Pool") {
					R.Fail("C18.R1", "buffer-global:"+name, c.P.Pos(g.Pos()), "no package-level storage can hold or recycle message buffers", "package variable "+name+" of type "+elem.String()+" can recycle message storage between reads")
				}
			}
		}
	}

	// ---------- R2: single writer of the backing array
	reset := c.P.Method("buffer", "Reader", "reset")
	nFill := 0
	for _, fn := range c.P.ScopeFuncs() {
		var l *core.Lin
		lin := func() *core.Lin {
			if l == nil {
				l = core.NewLin(c.P, fn, mods, sum)
			}
			return l
		}
		for _, b := range fn.Blocks {
			for _, in := range b.Instrs {
				switch x := in.(type) {
				case *ssa.Store:
					if ia, ok := x.Addr.(*ssa.IndexAddr); ok && msgDerived(lin(), ia.X, 0) {
						R.Fail("C18.R2", fkey(fn)+":element-store", c.at(x), "library code never writes into bytes of the message window", "an element of a window-derived slice is assigned")
					}
				case ssa.CallInstruction:
					cc := x.Common()
					switch core.BuiltinName(cc) {
					case "copy":
						if msgDerived(lin(), cc.Args[0], 0) {
							R.Fail("C18.R2", fkey(fn)+":copy-into-window", c.at(x), "library code never writes into bytes of the message window", "copy() with a window-derived destination")
						}
					case "append":
						if msgDerived(lin(), cc.Args[0], 0) {
							R.Fail("C18.R2", fkey(fn)+":append-to-window", c.at(x), "library code never writes into bytes of the message window", "append() to a window-derived slice writes into the shared allocation behind it")
						}
					}
					if core.BuiltinName(cc) == "clear" && msgDerived(lin(), cc.Args[0], 0) {
						R.Fail("C18.R2", fkey(fn)+":clear-window", c.at(x), "library code never writes into bytes of the message window", "clear() of a window-derived slice zeroes bytes that strings and values already handed to callbacks alias")
					}
					// other writers of a byte slice: encoding/binary Put*, Read on an io.Reader, io.ReadAtLeast
					if callee := core.StaticCallee(x); callee != nil && callee.Pkg != nil {
						pp, nm := callee.Pkg.Pkg.Path(), callee.Name()
						dstIdx := -1
						switch {
						case pp == "encoding/binary" && strings.HasPrefix(nm, "Put"):
							dstIdx = len(cc.Args) - 2
						case pp == "io" && nm == "ReadAtLeast":
							dstIdx = 1
						case pp == "crypto/rand" && nm == "Read":
							dstIdx = 0
						}
						if dstIdx >= 0 && dstIdx < len(cc.Args) && msgDerived(lin(), cc.Args[dstIdx], 0) {
							R.Fail("C18.R2", fkey(fn)+":writes-window:"+nm, c.at(x), "library code never writes into bytes of the message window", fname(callee)+" writes into a window-derived slice")
						}
					}
					if cc.IsInvoke() && cc.Method.Name() == "Read" && len(cc.Args) == 1 && msgDerived(lin(), cc.Args[0], 0) {
						R.Fail("C18.R2", fkey(fn)+":read-into-window", c.at(x), "the only write into the window's allocation is io.ReadFull into the window just produced by reset", "Read(p) with a window-derived destination")
					}
					if core.FuncIs(core.StaticCallee(x), "io", "ReadFull") {
						dst := cc.Args[1]
						if !msgDerived(lin(), dst, 0) {
							continue
						}
						nFill++
						u, isLoad := dst.(*ssa.UnOp)
						ok := false
						if isLoad {
							if mv := lin().FM.Loads[u]; mv != nil && mv.Kind == core.MPost && mv.Call != nil && core.StaticCallee(mv.Call) == reset {
								ok = true
							}
						}
						R.Check(ok, "C18.R2", fkey(fn)+":fill-after-reset", c.at(x), "the only write into the window's allocation is io.ReadFull into the window just produced by reset (which starts at the high-water mark)", "destination is Reader.Msg as left by the reset call", "io.ReadFull writes into a window that was not just produced by reset: it can overwrite bytes handed out earlier")
					}
				}
			}
		}
	}
	R.Floor("C18.R2", "io.ReadFull calls filling the window", nFill, 1)

	// ---------- R3: package wire only reads the window
	nLoads := 0
	for _, fn := range c.P.ScopeFuncs() {
		if !c.P.InPkg(fn, "wire") {
			continue
		}
		for _, b := range fn.Blocks {
			for _, in := range b.Instrs {
				if fa, ok := in.(*ssa.FieldAddr); ok {
					if fr, _ := core.FieldOfAddr(fa); fr.Is(pkBuffer, "Reader", "Msg") {
						nLoads++
						for _, r := range core.Referrers(fa) {
							if stw, isStore := r.(*ssa.Store); isStore && !advanceOfOwnWindow(stw) {
								R.Fail("C18.R3", fkey(fn)+":window-store-outside-buffer", c.at(r), "package wire only reads the message window", "Reader.Msg is assigned in "+fname(fn))
							}
						}
					}
				}
			}
		}
	}
	// ---------- R4: containers that retain handed-out data are allocated per message
	pdec, fdec := c.bindDecoders()
	for i, spec := range [][2]string{{"parameter decoder", "the parameter list handed to the portal and the statement function"}, {"result-format decoder", "the result-format list kept by the portal"}} {
		fn := pdec
		if i == 1 {
			fn = fdec
		}
		if fn == nil {
			R.Fail("C18.R4", spec[0]+":anchor", "-", "anchor resolves", "method not found")
			continue
		}
		R.Analysed(fname(fn))
		ok := true
		for _, r := range returns(fn) {
			if core.IsNilConst(r.Results[0]) {
				continue
			}
			ms, isMake := r.Results[0].(*ssa.MakeSlice)
			if !isMake || ms.Parent() != fn {
				ok = false
			}
		}
		R.Check(ok, "C18.R4", spec[0]+":fresh-container", c.atFn(fn), spec[1]+" is allocated for this message (a later Bind cannot overwrite what an earlier one handed out)", "every successful return yields a slice made in this call", "the returned slice is not allocated per call (e.g. a session-owned scratch slice): a later message rewrites values already handed to callbacks / portals")
	}
	for _, fn := range bufferFuncs(c) {
		R.Analysed(fname(fn))
	}
	// what a handler was given (a portal's parameter and format slices, a statement's lists) is not rewritten by a
	// later message: the objects holding them are written only while they are constructed
	c.constructOnly("C18.R4", "slices handed to handlers through a portal / statement are never rewritten by a later message", "the backing array of values a handler may still hold is overwritten by the next Bind / Parse")
	// ---------- R5: a byte view handed out by an accessor cannot be grown into its neighbours: it is cut with a
	// capacity limit (v[:n:n]), so an append by whoever holds it reallocates instead of overwriting the bytes that follow
	// (the next parameter value, later messages in the same allocation)
	nViews := 0
	for _, fn := range c.P.ScopeFuncs() {
		if !c.P.InPkg(fn, "buffer") || fn.Signature.Recv() == nil || !token.IsExported(fn.Name()) || fn.Signature.Results().Len() == 0 {
			continue
		}
		if n := core.NamedOf(fn.Signature.Recv().Type()); n == nil || n.Obj().Name() != "Reader" {
			continue
		}
		if !isByteSliceLike(fn.Signature.Results().At(0).Type()) {
			continue
		}
		var l *core.Lin
		for _, r := range returns(fn) {
			v := forwardLoad(r.Results[0])
			if core.IsNilConst(v) {
				continue
			}
			if l == nil {
				l = core.NewLin(c.P, fn, mods, sum)
			}
			if !msgDerived(l, v, 0) {
				continue
			}
			nViews++
			sl, isSlice := v.(*ssa.Slice)
			limited := isSlice && sl.Max != nil && sl.High != nil && (sl.Max == sl.High || sameConst(sl.Max, sl.High))
			R.Check(limited, "C18.R5", fkey(fn)+":view-capacity-limited", c.at(r), "a byte view handed out of the message window has no spare capacity (v[:n:n]): appending to it cannot overwrite the bytes behind it", "three-index slice with max == high", "the view returned by "+fname(fn)+" keeps the capacity of the whole read buffer: an append by the handler (a common idiom) silently overwrites the following parameter values and later messages that share the allocation")
		}
	}
	R.Floor("C18.R5", "window views returned by exported accessors", nViews, 1)
	R.Check(true, "C18.R3", "wire-reads-only", "-", "package wire only reads the message window", sprintf("%d accesses in package wire, none is a store", nLoads), "")
}

func sameConst(a, b ssa.Value) bool {
	x, ok1 := core.ConstInt(a)
	y, ok2 := core.ConstInt(b)
	return ok1 && ok2 && x == y
}
