package rules

import (
	"go/token"
	"go/types"
	"sort"

	"golang.org/x/tools/go/ssa"

	"pwv/internal/core"
)

func init() { Registry["C01"] = runC01 }

// strategies returns every function of S whose signature is that of wire.AuthStrategy.
func (c *Ctx) strategies() []*ssa.Function {
	n := c.P.Named("wire", "AuthStrategy")
	if n == nil {
		return nil
	}
	sig, ok := n.Underlying().(*types.Signature)
	if !ok {
		return nil
	}
	var out []*ssa.Function
	for _, fn := range c.P.ScopeFuncs() {
		if fn.Signature.Recv() == nil && types.Identical(fn.Signature, sig) {
			out = append(out, fn)
		}
	}
	return out
}

// isValidatorCall: a dynamic call through a captured/parameter function value returning (ctx, bool, error).
func isValidatorCall(ci ssa.CallInstruction) bool {
	cc := ci.Common()
	if cc.IsInvoke() || core.StaticCallee(ci) != nil {
		return false
	}
	if _, isBuiltin := cc.Value.(*ssa.Builtin); isBuiltin {
		return false
	}
	res := cc.Signature().Results()
	if res.Len() != 3 {
		return false
	}
	b, ok := res.At(1).Type().Underlying().(*types.Basic)
	return ok && b.Kind() == types.Bool && core.IsErrorType(res.At(2).Type())
}

// authOKSites returns the instructions of fn that (may) emit AuthenticationOk: calls of writeAuthType
// with a status that is not a non-zero constant, and direct Start(ServerAuth) calls.
func (c *Ctx) authOKSites(fn *ssa.Function) []ssa.CallInstruction {
	wat := c.P.Func("wire", "writeAuthType")
	var out []ssa.CallInstruction
	for _, ci := range core.Calls(fn) {
		if wat != nil && core.StaticCallee(ci) == wat {
			if k, ok := core.ConstInt(ci.Common().Args[1]); ok && k != 0 {
				continue
			}
			out = append(out, ci)
		}
		if isWriterMethod(ci, "Start") {
			if k, ok := core.ConstInt(ci.Common().Args[1]); ok && k == 'R' {
				out = append(out, ci)
			}
		}
	}
	return out
}

func runC01(c *Ctx) {
	R := c.R
	defer c.include("C01.S1", "C03", []string{"C03.R3"}, "only a well-formed password message is accepted: the window holds the bytes of that message and nothing left over from an earlier one", 2)
	R.Technique = "dominance + error-class (nil / non-nil) analysis over the SSA form of the authentication strategy, handleAuth and serve"
	R.Explanation = "Decides the control-flow skeleton that makes 'session => credentials accepted' true for every input and validator outcome: " +
		"(R1) in every AuthStrategy defined in the library each return that may carry a nil error, and each AuthenticationOk emission, is dominated by the " +
		"accepting edge of the validator (err == nil, bool true) and by the success edge of every fallible step before it (message read, type test, field read); " +
		"the validator receives the password read from that message; (R2) the rejecting edge reaches an ErrorResponse with an SQLSTATE of class 28 on every path and returns a non-nil error; " +
		"(R3) handleAuth forwards the strategy's verdict or emits AuthenticationOk only when no strategy is configured; (R4) in serve everything of the authenticated phase " +
		"(ParameterStatus, session middleware, caches, command loop) is dominated by the err == nil edge of handleAuth, the rejecting edge only logs and returns, the deferred conn.Close dominates the " +
		"authentication step, and the command loop is reachable only through that gate (who-may-call). Not decided: strategies written by users outside the library; timing of the close."
	R.Assumptions = []string{"user-supplied validator is an arbitrary function of its inputs", "Go semantics as modelled by go/types + go/ssa"}
	R.Trusted = []string{"go/packages, go/types, go/ssa (x/tools v0.29.0)", "io.ReadFull / net.Conn contracts"}
	errE := c.Err()

	// ---------- R1 / R2: every strategy defined in S
	strategies := c.strategies()
	R.Floor("C01.R1", "functions of type AuthStrategy defined in the library", len(strategies), 1)
	errorCode := c.P.Func("wire", "ErrorCode")
	for _, fn := range strategies {
		R.Analysed(fname(fn))
		fk := fkey(fn)
		vcalls := callsIn(fn, isValidatorCall)
		if len(vcalls) != 1 {
			R.Fail("C01.R1", fk+":validator-call", c.atFn(fn), "the strategy calls its validator exactly once", sprintf("found %d validator calls; the accept region cannot be determined", len(vcalls)))
			continue
		}
		vcall, ok := vcalls[0].(*ssa.Call)
		if !ok {
			R.Fail("C01.R1", fk+":validator-call", c.at(vcalls[0]), "validator is called synchronously", "validator is deferred or spawned")
			continue
		}
		verr := resultOf(vcall, 2)
		vok := resultOf(vcall, 1)
		if verr == nil || vok == nil {
			R.Fail("C01.R1", fk+":validator-results", c.at(vcall), "validator verdict and error are both inspected", "a validator result is discarded")
			continue
		}
		acceptErr := nilEdges(verr, true)
		acceptOK := boolEdges(vok, true)
		rejectOK := boolEdges(vok, false)

		// fallible steps that precede the validator: their success edges are part of the accept region
		type step struct {
			desc  string
			edges []edge
			at    ssa.Instruction
		}
		var steps []step
		steps = append(steps, step{"validator err == nil", acceptErr, vcall}, step{"validator verdict true", acceptOK, vcall})
		var typeVal ssa.Value
		var getString *ssa.Call
		for _, ci := range core.Calls(fn) {
			call, ok := ci.(*ssa.Call)
			if !ok || call == vcall {
				continue
			}
			if !core.InstrDominates(call, vcall) {
				continue
			}
			if ev := errResultOf(call); ev != nil {
				steps = append(steps, step{callDescr(call) + " err == nil", nilEdges(ev, true), call})
			} else if core.ErrorResultIndex(call.Call.Signature()) >= 0 {
				steps = append(steps, step{callDescr(call) + " error is inspected", nil, call})
			}
			switch readerMethod(call) {
			case "ReadTypedMsg":
				typeVal = resultOf(call, 0)
			case "GetString":
				getString = call
			}
		}
		// the message may be read by a helper (readPassword): the helper must itself return nil only for a
		// well-formed password message and hand back the string it read
		var helperPassword ssa.Value
		if typeVal == nil {
			for _, ci := range core.Calls(fn) {
				call, ok := ci.(*ssa.Call)
				if !ok || !core.InstrDominates(call, vcall) {
					continue
				}
				h := core.StaticCallee(call)
				if h == nil || !c.P.InPkg(h, "wire") || errResultOf(call) == nil {
					continue
				}
				if okH, idx := c.readsPasswordMessage(h, fk); okH {
					helperPassword = resultOf(call, idx)
					R.OK("C01.R1", fk+":message-read-by-helper:"+fkey(h), c.at(call), "the password message is read by a helper that returns nil only for a well-formed password message", fkey(h)+": every nil-able return dominated by read ok, type == 'p', field ok; returns the GetString result")
				}
			}
		}
		if typeVal == nil && helperPassword == nil {
			R.Fail("C01.R1", fk+":message-type-test", c.atFn(fn), "the strategy reads a typed message and tests its type against ClientPassword", "no ReadTypedMsg whose type result is used dominates the validator call")
		} else if typeVal != nil {
			steps = append(steps, step{"message type == ClientPassword ('p')", constEqEdges(typeVal, 'p', true), vcall})
		}
		// a well-formed password message holds the password and nothing else: the accept region lies on an edge on
		// which the rest of the message is empty (in the strategy, or in the helper that reads the message)
		consumed := msgEmptyEdges(fn)
		if helperPassword != nil {
			// the test may stay in the strategy while a helper reads the message, or move into the helper
			for _, ci := range core.Calls(fn) {
				if call, ok := ci.(*ssa.Call); ok && resultOf(call, 0) == helperPassword || ok && resultOf(call, 1) == helperPassword {
					if h := core.StaticCallee(call); h != nil {
						hes := msgEmptyEdges(h)
						allDom := len(hes) > 0
						for _, r := range returns(h) {
							if cls := c.Err().Classify(errOperand(r), r.Block()); cls.MayBeNil() && !anyDominates(hes, r.Block()) {
								allDom = false
							}
						}
						if allDom {
							consumed = append(consumed, nilEdges(errResultOf(call), true)...) // established inside the helper on every successful return
						}
					}
				}
			}
		}
		steps = append(steps, step{"password message fully consumed (nothing follows the password)", consumed, vcall})
		inAccept := func(b *ssa.BasicBlock) (bool, string) {
			for _, s := range steps {
				if !anyDominates(s.edges, b) {
					return false, s.desc
				}
			}
			return true, ""
		}

		// (a) returns that may be nil
		for _, ret := range returns(fn) {
			ev := errOperand(ret)
			cls := errE.Classify(ev, ret.Block())
			key := fk + ":return:" + retDescr(ret)
			if !cls.MayBeNil() {
				R.OK("C01.R1", key, c.at(ret), "return carries a non-nil error (connection is refused)", "error class "+cls.String())
				continue
			}
			ok, missing := inAccept(ret.Block())
			R.Check(ok, "C01.R1", key, c.at(ret), "a return whose error may be nil lies in the accept region", "dominated by the success edge of every step and the validator's accepting edges; error class "+cls.String(),
				"return may carry a nil error (class "+cls.String()+") but is not dominated by: "+missing+" — a non-accepted connection would be served")
		}
		// (b) AuthenticationOk emissions
		oks := c.authOKSites(fn)
		for _, ci := range oks {
			ok, missing := inAccept(ci.Block())
			R.Check(ok, "C01.R1", fk+":authOK:"+callDescr(ci), c.at(ci), "AuthenticationOk is emitted only in the accept region", "dominated by every accepting edge",
				"AuthenticationOk may be emitted without: "+missing)
		}
		// (c) the password handed to the validator is the string read from the password message
		pwArg := core.Strip(vcall.Call.Args[len(vcall.Call.Args)-1])
		if helperPassword != nil && pwArg == helperPassword {
			R.OK("C01.R1", fk+":validator-password-arg", c.at(vcall), "the validator's password argument is the GetString result of the password message", "argument is the string returned by the message-reading helper")
		} else if getString == nil || len(vcall.Call.Args) < 4 || pwArg != resultOf(getString, 0) {
			R.Fail("C01.R1", fk+":validator-password-arg", c.at(vcall), "the validator's password argument is the GetString result of the password message", "the password argument does not originate from the message's GetString")
		} else {
			R.OK("C01.R1", fk+":validator-password-arg", c.at(vcall), "the validator's password argument is the GetString result of the password message", "argument is Extract #0 of "+callDescr(getString))
		}

		// ---------- R2: reject edge -> ErrorResponse class 28 on every path, then non-nil return
		if len(rejectOK) == 0 {
			R.Fail("C01.R2", fk+":reject-edge", c.at(vcall), "the validator's false verdict is branched on", "no branch on the verdict")
			continue
		}
		for _, re := range rejectOK {
			start := re.to()
			// a call reports the rejection if it is ErrorCode, or a helper of package wire in which every path from the
			// entry to a return passes an ErrorCode call
			var reportsVia func(fn *ssa.Function, depth int) bool
			reportsVia = func(h *ssa.Function, depth int) bool {
				if errorCode == nil || h == nil {
					return false
				}
				if h == errorCode || h == c.errorEmitter() {
					return true
				}
				if depth == 0 || !c.P.InPkg(h, "wire") || len(h.Blocks) == 0 {
					return false
				}
				inner := func(ci ssa.CallInstruction) bool { return reportsVia(core.StaticCallee(ci), depth-1) }
				for b := range reachableAvoiding(h.Blocks[0], func(b *ssa.BasicBlock) bool { return blockHasCall(b, inner) }) {
					if _, isRet := b.Instrs[len(b.Instrs)-1].(*ssa.Return); isRet {
						return false
					}
				}
				return true
			}
			isEC := func(ci ssa.CallInstruction) bool { return reportsVia(core.StaticCallee(ci), 2) }
			reach := reachableAvoiding(start, func(b *ssa.BasicBlock) bool { return blockHasCall(b, isEC) })
			bad := false
			for b := range reach {
				if _, isRet := b.Instrs[len(b.Instrs)-1].(*ssa.Return); isRet {
					bad = true
					R.Fail("C01.R2", fk+":reject-path-without-ErrorResponse", c.at(b.Instrs[len(b.Instrs)-1]), "every path from the rejecting edge passes through ErrorCode before returning", "a return is reachable from the rejecting edge without an ErrorResponse")
				}
			}
			if !bad {
				R.OK("C01.R2", fk+":reject-path-ErrorResponse", c.at(start.Instrs[0]), "every path from the rejecting edge passes through ErrorCode before returning", "must-pass-through over the CFG")
			}
			// SQLSTATE class of the ErrorCode calls in the reject region
			var ecSites []ssa.CallInstruction
			for _, ci := range callsIn(fn, isEC) {
				if !re.dominates(ci.Block()) {
					continue
				}
				// the rejection is an ErrorResponse and nothing that belongs to the authenticated phase: in particular no
				// ReadyForQuery tells the unauthenticated client that the server is ready
				if callee := core.StaticCallee(ci); callee != nil {
					er := &emitSetRule{msgs: map[string]ssa.Instruction{}}
					tc := newTraceClient(c, er)
					ts := core.NewTS(c.P, tc)
					ts.Relevant = c.reachesEvents()
					ts.Run(callee, joinState("", ""), core.TSEnv{})
					var extra []string
					for m := range er.msgs {
						if m != "E" {
							extra = append(extra, m)
						}
					}
					sort.Strings(extra)
					_, hasE := er.msgs["E"]
					R.Check(hasE && len(extra) == 0, "C01.R2", fk+":reject-reply-is-ErrorResponse-only:"+callDescr(ci), c.at(ci), "a rejected login is answered with an ErrorResponse and nothing else (no AuthenticationOk, ParameterStatus or ReadyForQuery reaches a client that was not accepted)", "the reporting call emits E only", sprintf("the call that reports the rejection emits ErrorResponse: %v, and also %v: an unauthenticated client is sent messages of the authenticated phase (ReadyForQuery) before the connection closes", hasE, extra))
				}
				if core.StaticCallee(ci) == errorCode || core.StaticCallee(ci) == c.errorEmitter() {
					ecSites = append(ecSites, ci)
					continue
				}
				// the ErrorCode calls inside the reporting helper
				var collect func(h *ssa.Function, depth int)
				collect = func(h *ssa.Function, depth int) {
					if h == nil || depth == 0 {
						return
					}
					for _, inner := range core.Calls(h) {
						if core.StaticCallee(inner) == errorCode || core.StaticCallee(inner) == c.errorEmitter() {
							ecSites = append(ecSites, inner)
						} else if callee := core.StaticCallee(inner); callee != nil && c.P.InPkg(callee, "wire") {
							collect(callee, depth-1)
						}
					}
				}
				collect(core.StaticCallee(ci), 2)
			}
			for _, ci := range ecSites {
				code, ok := c.codeOfErr(ci.Common().Args[1])
				R.Check(ok && len(code) == 5 && code[:2] == "28", "C01.R2", fk+":reject-sqlstate", c.at(ci), "the rejection is reported with an SQLSTATE of class 28",
					"code "+code+" (codes.* variable with a constant initialiser that is never reassigned)", "SQLSTATE of the rejection is '"+code+"' (resolved="+sprintf("%v", ok)+"), not class 28")
			}
		}
	}

	// ---------- R3: handleAuth
	if ha := c.mustMethod("C01.R3", "wire", "Server", "handleAuth"); ha != nil {
		R.Analysed(fname(ha))
		viaAuth := callsIn(ha, throughField(pkWire, "Server", "Auth"))
		R.Floor("C01.R3", "calls of the configured strategy (Server.Auth) in handleAuth", len(viaAuth), 1)
		// edges on which srv.Auth == nil
		var authNil []edge
		for _, b := range ha.Blocks {
			for _, in := range b.Instrs {
				bo, ok := in.(*ssa.BinOp)
				if !ok {
					continue
				}
				v, _, ok := core.NilTest(bo)
				if !ok {
					continue
				}
				if fr, ok := core.FieldOfValue(v); ok && fr.Is(pkWire, "Server", "Auth") {
					authNil = append(authNil, nilEdges(v, true)...)
				}
			}
		}
		for _, ci := range c.authOKSites(ha) {
			R.Check(anyDominates(authNil, ci.Block()), "C01.R3", "handleAuth:authOK:"+callDescr(ci), c.at(ci), "handleAuth emits AuthenticationOk itself only when no strategy is configured",
				"dominated by the Auth == nil edge", "AuthenticationOk is emitted on a path where a strategy is configured")
		}
		for _, ret := range returns(ha) {
			ev := errOperand(ret)
			key := "handleAuth:return:" + retDescr(ret)
			ok := false
			why := ""
			for _, root := range core.ErrRoots(ev) {
				call, isCall := root.(*ssa.Call)
				switch {
				case isCall && throughField(pkWire, "Server", "Auth")(call):
					ok, why = true, "the strategy's own error result, unchanged"
				case isCall && anyDominates(authNil, call.Block()):
					ok, why = true, "result of "+callDescr(call)+" on the Auth == nil edge"
				default:
					cls := errE.Classify(ev, ret.Block())
					if !cls.MayBeNil() {
						ok, why = true, "non-nil error"
					} else {
						ok = false
					}
				}
				if !ok {
					break
				}
			}
			R.Check(ok, "C01.R3", key, c.at(ret), "handleAuth's verdict is the strategy's verdict", why, "handleAuth may return a nil error that is not the strategy's result while a strategy is configured")
		}
	}

	// ---------- R4: serve gating (serve may be split into helpers: the rules range over its region)
	serve := c.mustMethod("C01.R4", "wire", "Server", "serve")
	ha := c.P.Method("wire", "Server", "handleAuth")
	if serve != nil && ha != nil {
		R.Analysed(fname(serve))
		region := c.serveRegion()
		var hcalls []ssa.CallInstruction
		for fn := range region {
			hcalls = append(hcalls, callsIn(fn, calleeIs(ha))...)
		}
		if len(hcalls) != 1 {
			R.Fail("C01.R4", "serve:handleAuth-call", c.atFn(serve), "serve authenticates exactly once", sprintf("found %d calls of handleAuth on serve's path", len(hcalls)))
			return
		}
		hcall := hcalls[0].(*ssa.Call)
		if errResultOf(hcall) == nil {
			R.Fail("C01.R4", "serve:handleAuth-error", c.at(hcall), "serve inspects the authentication verdict", "the error result of handleAuth is discarded")
			return
		}
		phase := map[string]func(ssa.CallInstruction) bool{
			"writeParameters":      calleeIs(c.P.Method("wire", "Server", "writeParameters")),
			"session middleware":   throughField(pkWire, "Server", "Session"),
			"statement cache":      throughField(pkWire, "Server", "Statements"),
			"portal cache":         throughField(pkWire, "Server", "Portals"),
			"consumeCommands loop": calleeIs(c.P.Method("wire", "Session", "consumeCommands")),
		}
		for _, name := range sortedKeys(phase) {
			var sites []ssa.CallInstruction
			for fn := range region {
				sites = append(sites, callsIn(fn, phase[name])...)
			}
			R.Floor("C01.R4", "call sites of the authenticated phase: "+name, len(sites), 1)
			for _, ci := range sites {
				ok, why := c.gatedBy(hcall, ci, 0)
				R.Check(ok, "C01.R4", "serve:gate:"+name, c.at(ci), name+" runs only after handleAuth returned a nil error", "gated by the err == nil edge of handleAuth ("+why+")", name+" is reachable without passing the err == nil edge of handleAuth: "+why)
			}
		}
		// nothing but logging happens on the rejecting edge (in the function that authenticates and in its callers up to serve)
		var gateCalls []*ssa.Call
		gateCalls = append(gateCalls, hcall)
		for cur := hcall; cur.Parent() != serve; {
			sites := c.P.CallSitesOf(cur.Parent())
			if len(sites) != 1 {
				break
			}
			up, ok := sites[0].(*ssa.Call)
			if !ok {
				break
			}
			gateCalls = append(gateCalls, up)
			cur = up
		}
		for _, gc := range gateCalls {
			ev := errResultOf(gc)
			if ev == nil {
				if gc != hcall && flowsToReturn(gc) {
					continue // `return helper(...)`: the caller above is inspected instead
				}
				R.Fail("C01.R4", "serve:verdict-dropped:"+callDescr(gc), c.at(gc), "the authentication verdict is inspected at every level", "the error result of "+callDescr(gc)+" is discarded")
				continue
			}
			for _, be := range failEdges(ev) {
				reach := reachableAvoiding(be.to(), func(*ssa.BasicBlock) bool { return false })
				clean := true
				for b := range reach {
					if !be.dominates(b) {
						continue
					}
					for _, in := range b.Instrs {
						ci, ok := in.(ssa.CallInstruction)
						if !ok || isLoggerCall(ci) {
							continue
						}
						clean = false
						R.Fail("C01.R4", "serve:reject-edge-effect:"+callDescr(ci), c.at(ci), "on the rejecting edge of the authentication step serve only logs and returns", "a call is reachable after authentication failed: "+callDescr(ci))
					}
				}
				if clean {
					R.OK("C01.R4", "serve:reject-edge-returns:"+fkey(gc.Parent()), c.at(be.to().Instrs[0]), "on the rejecting edge of the authentication step serve only logs and returns", sprintf("%d block(s) reachable, no call other than logging", len(reach)))
				}
			}
		}
		// deferred close dominates the authentication step (or the call that leads to it) in serve
		top := gateCalls[len(gateCalls)-1]
		closed := false
		if top.Parent() == serve {
			for _, ci := range core.Calls(serve) {
				if d, ok := ci.(*ssa.Defer); ok && d.Call.IsInvoke() && d.Call.Method.Name() == "Close" && core.InstrDominates(d, top) {
					closed = true
				}
			}
		}
		R.Check(closed, "C01.R4", "serve:deferred-close", c.at(hcall), "a deferred Close of the connection is registered before authentication", "defer conn.Close() in serve dominates the authentication step", "no deferred connection Close in serve dominates the authentication step: a refused connection may stay open")

		// who-may-call: the command loop is entered only through serve
		for _, name := range []string{"consumeCommands", "consumeSingleCommand", "handleCommand"} {
			callee := c.P.Method("wire", "Session", name)
			if callee == nil {
				R.Fail("C01.R4", "who-may-call:"+name, "-", "anchor resolves", "method Session."+name+" not found")
				continue
			}
			ok, who := c.onlyReachedThrough(callee, serve, 0)
			R.Check(ok, "C01.R4", "who-may-call:"+name, c.atFn(callee), name+" is reachable only through serve (behind the authentication gate)", sprintf("callers: %v", who), sprintf("callers: %v — the command loop can be entered around the authentication gate", who))
		}
	}
}

// gatedBy reports whether instruction site can execute only if call returned a nil error. The two may
// live in different functions of a split serve: a helper that contains the call must return nil only on
// the call's nil edge, and the caller must test the helper's error in turn.
func (c *Ctx) gatedBy(call *ssa.Call, site ssa.Instruction, depth int) (bool, string) {
	if depth > 4 {
		return false, "call chain too deep"
	}
	ev := errResultOf(call)
	F, G := call.Parent(), site.Parent()
	if F == G {
		if ev != nil && anyDominates(nilEdges(ev, true), site.Block()) {
			return true, "dominated by the nil edge in " + fkey(F)
		}
		return false, "not dominated by the nil edge of " + callDescr(call) + " in " + fkey(F)
	}
	// site inside a callee of F: the call that leads there must be gated in F
	for _, s2 := range core.Calls(F) {
		if callee := core.StaticCallee(s2); callee != nil && c.reachesFn(callee, G, 0) {
			if ok, why := c.gatedBy(call, s2, depth+1); ok {
				return true, why + ", then into " + fkey(G)
			}
		}
	}
	// site in a caller of F: F must return nil only on the call's nil edge, and its caller must test F's error
	for _, r := range returns(F) {
		cls := c.Err().Classify(errOperand(r), r.Block())
		if !cls.MayBeNil() {
			continue
		}
		// `return call(...)` forwards the verdict itself
		if roots := core.ErrRoots(errOperand(r)); len(roots) == 1 && roots[0] == ssa.Value(call) {
			continue
		}
		if ev == nil || !anyDominates(nilEdges(ev, true), r.Block()) {
			return false, fkey(F) + " can return nil without " + callDescr(call) + " having succeeded"
		}
	}
	for _, s := range c.P.CallSitesOf(F) {
		up, ok := s.(*ssa.Call)
		if !ok {
			continue
		}
		if ok2, why := c.gatedBy(up, site, depth+1); ok2 {
			return true, fkey(F) + " returns nil only on the nil edge; " + why
		}
	}
	return false, "no gating relation between " + fkey(F) + " and " + fkey(G)
}

// reachesFn: target is fn or statically reachable from it inside S.
func (c *Ctx) reachesFn(fn, target *ssa.Function, depth int) bool {
	if fn == target {
		return true
	}
	if depth > 5 || fn == nil || !c.P.InScope(fn) {
		return false
	}
	for _, ci := range core.Calls(fn) {
		if callee := core.StaticCallee(ci); callee != nil && callee != fn && c.reachesFn(callee, target, depth+1) {
			return true
		}
	}
	return false
}

func isLoggerCall(ci ssa.CallInstruction) bool {
	f := core.StaticCallee(ci)
	if f == nil {
		return false
	}
	if f.Pkg != nil && f.Pkg.Pkg.Path() == "log/slog" {
		return true
	}
	return false
}

func callDescr(ci ssa.CallInstruction) string {
	cc := ci.Common()
	if cc.IsInvoke() {
		return "invoke." + cc.Method.Name()
	}
	if f := core.StaticCallee(ci); f != nil {
		return fkey(f)
	}
	if b, ok := cc.Value.(*ssa.Builtin); ok {
		return "builtin." + b.Name()
	}
	if fr, ok := core.FieldOfValue(cc.Value); ok {
		return "field." + fr.Name
	}
	switch v := cc.Value.(type) {
	case *ssa.FreeVar:
		return "freevar." + v.Name()
	case *ssa.Parameter:
		return "param." + v.Name()
	}
	return "dynamic"
}

// retDescr names a return by the origin of its error operand (position-free).
func retDescr(r *ssa.Return) string {
	ev := errOperand(r)
	if ev == nil {
		return "void"
	}
	var parts []string
	for _, root := range core.ErrRoots(ev) {
		switch x := root.(type) {
		case *ssa.Call:
			parts = append(parts, callDescr(x))
		case *ssa.Const:
			if x.Value == nil {
				parts = append(parts, "nil")
			} else {
				parts = append(parts, "const")
			}
		case *ssa.MakeInterface:
			parts = append(parts, "new-error")
		case *ssa.Parameter:
			parts = append(parts, "param."+x.Name())
		case *ssa.UnOp:
			if g, ok := x.X.(*ssa.Global); ok {
				parts = append(parts, "global."+g.Name())
			} else {
				parts = append(parts, "load")
			}
		default:
			parts = append(parts, "value")
		}
	}
	s := ""
	for i, p := range parts {
		if i > 0 {
			s += "|"
		}
		s += p
	}
	return s
}

// readsPasswordMessage: helper h reads one typed message and returns (string, error) such that every
// return that may be nil is dominated by: read err == nil, type == 'p', GetString err == nil; and the
// string returned there is the GetString result. Returns the index of the string result.
func (c *Ctx) readsPasswordMessage(h *ssa.Function, fk string) (bool, int) {
	var rtm, gs *ssa.Call
	for _, ci := range core.Calls(h) {
		if call, ok := ci.(*ssa.Call); ok {
			switch readerMethod(call) {
			case "ReadTypedMsg":
				rtm = call
			case "GetString":
				gs = call
			}
		}
	}
	if rtm == nil || gs == nil {
		return false, 0
	}
	strIdx := -1
	for i := 0; i < h.Signature.Results().Len(); i++ {
		if bt, ok := h.Signature.Results().At(i).Type().Underlying().(*types.Basic); ok && bt.Kind() == types.String {
			strIdx = i
		}
	}
	if strIdx < 0 {
		return false, 0
	}
	typeVal := resultOf(rtm, 0)
	if typeVal == nil {
		return false, 0
	}
	conds := [][]edge{nilEdges(errResultOf(rtm), true), constEqEdges(typeVal, 'p', true), nilEdges(errResultOf(gs), true)}
	for _, r := range returns(h) {
		cls := c.Err().Classify(errOperand(r), r.Block())
		if !cls.MayBeNil() {
			continue
		}
		for i, es := range conds {
			if anyDominates(es, r.Block()) {
				continue
			}
			// `return reader.GetString()`: the pair (string, error) is forwarded unchanged, the caller tests it
			if i == 2 && errOperand(r) == errResultOf(gs) {
				continue
			}
			return false, 0
		}
		if core.Strip(r.Results[strIdx]) != resultOf(gs, 0) {
			return false, 0
		}
	}
	return true, strIdx
}

// msgEmptyEdges: the edges of fn on which the rest of the current message is empty (len(reader.Msg) == 0).
func msgEmptyEdges(fn *ssa.Function) []edge {
	var out []edge
	for _, b := range fn.Blocks {
		for _, in := range b.Instrs {
			cmp, ok := in.(*ssa.BinOp)
			if !ok {
				continue
			}
			x, isLen := core.IsLenOf(cmp.X)
			if !isLen {
				continue
			}
			if fr, ok := core.FieldOfValue(x); !ok || !fr.Is(pkBuffer, "Reader", "Msg") {
				continue
			}
			if k, isK := core.ConstInt(cmp.Y); !isK || k != 0 {
				continue
			}
			for _, u := range core.Referrers(cmp) {
				iff, isIf := u.(*ssa.If)
				if !isIf {
					continue
				}
				switch cmp.Op {
				case token.EQL:
					out = append(out, edge{iff.Block(), 0})
				case token.NEQ, token.GTR:
					out = append(out, edge{iff.Block(), 1})
				}
			}
		}
	}
	return out
}
