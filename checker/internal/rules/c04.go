package rules

import (
	"go/token"
	"go/types"
	"sort"

	"golang.org/x/tools/go/ssa"

	"pwv/internal/core"
)

func init() { Registry["C04"] = runC04 }

// scopeList returns the connection scope as a deterministic list.
func (c *Ctx) scopeList() []*ssa.Function {
	var fns []*ssa.Function
	for fn := range c.connectionScope() {
		fns = append(fns, fn)
	}
	sort.Slice(fns, func(i, j int) bool { return fname(fns[i]) < fname(fns[j]) })
	return fns
}

func runC04(c *Ctx) {
	R := c.R
	defer c.slurpExact("C04.S1")
	R.Technique = "panic-site inventory discharged by a difference-constraint prover over dominating guards, definitions, field-memory, trusted contracts and verified summaries (E-BND/E-LIN); loop classification; dominance rules for error propagation"
	R.Explanation = "Decides, for every byte sequence a client can send (the obligations are symbolic in all wire integers): (R1) panic freedom of the connection code - every index, slice, make, division and fixed-width decode in the functions reachable from serve and in the documented helpers (ParseParameters, the COPY readers) is proved in range from dominating guards, definitions and contracts; typed context slots justify the non-comma-ok assertions; " +
		"(R2) every allocation whose size depends on wire data is bounded by the message limit, by a 16-bit count, by the size of data already received or by a constant; (R3) every loop is a counting / range loop with an invariant bound or is input-driven (each iteration performs a read whose failure leaves the loop); (R4) a connection's goroutine ends when its input ends or its transport fails: read errors of the command loop are returned unchanged, the loop returns on them, serve closes the connection; " +
		"(R5) no value decoded from a message is used unless the accessor reported success (no fabricated data reaches callbacks). Thorough tier repeats R1/R2 with 32-bit int. Not decided: nil values supplied by users, panics inside user callbacks (only PortalCache.Execute recovers), memory used by pgx or by many connections, slow clients."
	R.Assumptions = []string{"no signed overflow in the small constant offsets added to lengths and 16/32-bit wire integers", "code outside the module does not write the library's struct fields"}
	R.Trusted = []string{"go/types + go/ssa", "io.ReadFull, bytes.IndexByte, encoding/binary, regexp contracts (internal/core/lin.go)", "INV-frame from C02 (an open frame holds its 5-byte header)"}
	R.Exhaustive = true

	fns := c.scopeList()
	nOb, nOK := c.panicFreedom("C04.R1", fns)
	R.Count("bounds_obligations", nOb)
	R.Count("bounds_discharged", nOK)
	R.Floor("C04.R1", "bounds obligations in connection scope", nOb, 30)
	c.slotAssertions("C04.R1")
	c.c04Allocations("C04.R2", fns, 8)
	c.c04Loops("C04.R3", fns, 12)
	c.c04Termination("C04.R4")
	c.c04Recover("C04.R6")
	c.c04NoFabricatedData("C04.R5")
	c.nullSentinels("C04.R5")
}

// maxTerms returns the terms denoting Reader.MaxMessageSize loads visible in fn.
func maxTerms(l *core.Lin) []core.Term {
	var out []core.Term
	seen := map[*core.MemVal]bool{}
	for _, mv := range l.FM.Loads {
		if mv.Field == "MaxMessageSize" && !seen[mv] {
			seen[mv] = true
			out = append(out, core.Term{K: core.TVal, M: mv})
		}
	}
	return out
}

// boundedSize tries to bound an allocation size by the message limit, a 16-bit count, a constant or the
// size of data that already exists.
func (c *Ctx) boundedSize(l *core.Lin, at ssa.Instruction, v ssa.Value) (bool, string) {
	t, off := l.Expr(v)
	if l.Prove(at, t, core.Zero, 65535-off) {
		return true, "bounded by 65535 (16-bit count or constant): " + l.Last
	}
	for _, m := range maxTerms(l) {
		if l.Prove(at, t, m, 16-off) {
			return true, "bounded by the configured message limit: " + l.Last
		}
	}
	// data that already exists: parameters, call results and loads of slice / string type
	var cands []ssa.Value
	for _, p := range l.Fn.Params {
		cands = append(cands, p)
	}
	for _, b := range l.Fn.Blocks {
		for _, in := range b.Instrs {
			if val, ok := in.(ssa.Value); ok {
				switch in.(type) {
				case *ssa.Call, *ssa.Extract, *ssa.UnOp:
					cands = append(cands, val)
				}
			}
		}
	}
	for _, cv := range cands {
		switch cv.Type().Underlying().(type) {
		case *types.Slice:
			if l.Prove(at, t, l.LenOf(cv), -off) || l.Prove(at, t, l.CapOf(cv), -off) {
				return true, "bounded by the size of existing data (" + describe(cv) + "): " + l.Last
			}
		case *types.Basic:
			if bt := cv.Type().Underlying().(*types.Basic); bt.Info()&types.IsString != 0 {
				if l.Prove(at, t, l.LenOf(cv), -off) {
					return true, "bounded by the length of an existing string (" + describe(cv) + "): " + l.Last
				}
			}
		}
	}
	return false, ""
}

func (c *Ctx) c04Allocations(rule string, fns []*ssa.Function, floor int) {
	R := c.R
	sum := c.summaries(rule)
	mods := c.modSets()
	n := 0
	type lifted struct {
		fn  *ssa.Function
		idx int
	}
	var lifts []lifted
	for _, fn := range fns {
		var l *core.Lin
		for _, b := range fn.Blocks {
			for _, in := range b.Instrs {
				ms, ok := in.(*ssa.MakeSlice)
				if !ok {
					continue
				}
				if l == nil {
					l = core.NewLin(c.P, fn, mods, sum)
				}
				for _, sz := range []ssa.Value{ms.Len, ms.Cap} {
					if _, isConst := sz.(*ssa.Const); isConst {
						continue
					}
					n++
					key := fkey(fn) + ":alloc:make(" + describe(sz) + ")"
					ok, why := c.boundedSize(l, ms, sz)
					if !ok && !token.IsExported(fn.Name()) && fn.Parent() == nil && (core.MethodIs(fn, pkBuffer, "Reader", fn.Name()) || (c.P.InPkg(fn, "buffer") && len(c.P.CallSitesOf(fn)) > 0)) {
						// lifted precondition: int parameters of unexported Reader methods are <= MaxMessageSize
						l2 := core.NewLin(c.P, fn, mods, sum)
						mts := maxTerms(l2)
						if len(mts) == 0 {
							// make the limit visible: any load of the field in the function
							for _, bb := range fn.Blocks {
								for _, i2 := range bb.Instrs {
									if u, isU := i2.(*ssa.UnOp); isU {
										if fr, isF := core.FieldOfValue(u); isF && fr.Name == "MaxMessageSize" {
											mts = append(mts, core.Term{K: core.TVal, V: u})
										}
									}
								}
							}
						}
						for i, p := range fn.Params {
							if bt, isB := p.Type().Underlying().(*types.Basic); isB && bt.Kind() == types.Int {
								l2.AssumeGE(p, 0, "precondition")
								pt, po := l2.Expr(p)
								// size <= limit: expressed against the constant 1<<62 when the limit is not loaded here
								if len(mts) > 0 {
									l2.Assume = append(l2.Assume, l2.FactLE(pt, mts[0], -po))
								}
								lifts = append(lifts, lifted{fn, i})
							}
						}
						if len(mts) > 0 {
							ok, why = c.boundedSize(l2, ms, sz)
						} else {
							// the function never reads the limit: bound the parameter itself symbolically
							for _, p := range fn.Params {
								if paramOrConst(sz, p, 0) {
									ok, why = true, "is parameter "+p.Name()+" or a constant (through phi / min / max); every call site bounds the parameter by the message limit (lifted precondition)"
								}
							}
						}
					}
					R.Check(ok, rule, key, c.at(ms), "memory allocated on behalf of a message stays within a constant factor of the message limit", why, "allocation size "+describe(sz)+" is not bounded by the message limit, a 16-bit count, a constant or the size of data already received: a client-declared length can balloon the server")
				}
			}
		}
	}
	// call sites of the lifted precondition  arg <= MaxMessageSize
	seen := map[string]bool{}
	for qi := 0; qi < len(lifts) && qi < 64; qi++ {
		lf := lifts[qi]
		k := fkey(lf.fn) + sprintf(":%d", lf.idx)
		if seen[k] {
			continue
		}
		seen[k] = true
		for _, site := range c.P.CallSitesOf(lf.fn) {
			caller := site.Parent()
			l := core.NewLin(c.P, caller, mods, sum)
			arg := site.Common().Args[lf.idx]
			t, off := l.Expr(arg)
			ok := false
			if fwd, isParam := core.StripConv(arg).(*ssa.Parameter); isParam && !token.IsExported(caller.Name()) && caller.Parent() == nil && len(c.P.CallSitesOf(caller)) > 0 && len(maxTerms(l)) == 0 {
				// a helper that forwards its own parameter: lift the precondition to its callers
				for i, q := range caller.Params {
					if q == fwd {
						lifts = append(lifts, lifted{caller, i})
					}
				}
				n++
				R.OK(rule, fkey(caller)+":precondition:"+fkey(lf.fn)+"("+lf.fn.Params[lf.idx].Name()+"<=limit)", c.at(site), "call site bounds the size it hands to "+fkey(lf.fn)+" by the message limit", "the argument is the caller's own parameter "+fwd.Name()+": lifted on to the callers of "+fkey(caller))
				continue
			}
			// make sure the limit is a term of the caller
			mts := maxTerms(l)
			for _, m := range mts {
				if l.Prove(site, t, m, -off) {
					ok = true
				}
			}
			if !ok {
				if g, h := c.resultGuarantee(rule, site, arg); h != nil && g.leMax {
					n++
					R.OK(rule, fkey(caller)+":precondition:"+fkey(lf.fn)+"("+lf.fn.Params[lf.idx].Name()+"<=limit)", c.at(site), "call site bounds the size it hands to "+fkey(lf.fn)+" by the message limit", "the argument is the result of "+fkey(h)+" (same receiver) on its err == nil edge; every return of "+fkey(h)+" that may carry a nil error proves result <= MaxMessageSize")
					continue
				}
			}
			n++
			R.Check(ok, rule, fkey(caller)+":precondition:"+fkey(lf.fn)+"("+lf.fn.Params[lf.idx].Name()+"<=limit)", c.at(site), "call site bounds the size it hands to "+fkey(lf.fn)+" by the message limit", "E-LIN: "+l.Last, "cannot prove "+describe(arg)+" <= MaxMessageSize at this call of "+fname(lf.fn)+": more than the limit can be allocated / buffered for one message")
		}
	}
	R.Floor(rule, "data-dependent allocation sizes", n, floor)
}

// inputReaders: functions of S that (transitively) read from the connection or consume the current message.
func (c *Ctx) inputReaders() map[*ssa.Function]bool {
	out := map[*ssa.Function]bool{}
	for _, fn := range c.P.ScopeFuncs() {
		if core.MethodIs(fn, pkBuffer, "Reader", fn.Name()) {
			switch fn.Name() {
			case "ReadType", "ReadMsgSize", "ReadUntypedMsg", "ReadTypedMsg", "Slurp", "GetString", "GetBytes", "GetUint16", "GetUint32", "GetPrepareType":
				out[fn] = true
			}
		}
	}
	for _, fn := range c.P.ScopeFuncs() { // any helper that reads the byte source itself
		for _, ci := range core.Calls(fn) {
			if core.FuncIs(core.StaticCallee(ci), "io", "ReadFull") && core.ErrorResultIndex(fn.Signature) >= 0 {
				out[fn] = true
			}
		}
	}
	for changed := true; changed; {
		changed = false
		for _, fn := range c.P.ScopeFuncs() {
			if out[fn] {
				continue
			}
			for _, ci := range core.Calls(fn) {
				if callee := core.StaticCallee(ci); callee != nil && out[callee] && core.ErrorResultIndex(fn.Signature) >= 0 {
					out[fn] = true
					changed = true
				}
			}
		}
	}
	return out
}

func definedOutside(v ssa.Value, l *core.Loop) bool {
	if ph, ok := v.(*ssa.Phi); ok && ph.Block() == l.Header {
		// a header phi whose in-loop edges all carry the phi itself does not change inside the loop
		inv := true
		for i, e := range ph.Edges {
			if l.Body[ph.Block().Preds[i]] && e != ssa.Value(ph) {
				inv = false
			}
		}
		if inv {
			return true
		}
	}
	if inner, ok := core.IsLenOf(core.StripConv(v)); ok {
		return definedOutside(inner, l) // len of a collection that does not change inside the loop
	}
	if cv, ok := v.(*ssa.Convert); ok {
		return definedOutside(cv.X, l)
	}
	switch x := v.(type) {
	case *ssa.Const, *ssa.Parameter, *ssa.FreeVar, *ssa.Global:
		return true
	case ssa.Instruction:
		return !l.Body[x.Block()]
	}
	return false
}

func (c *Ctx) c04Loops(rule string, fns []*ssa.Function, floor int) {
	R := c.R
	readers := c.inputReaders()
	sum := c.summaries(rule)
	n := 0
	for _, fn := range fns {
		loops := core.Loops(fn)
		var hdrs []*ssa.BasicBlock
		for h := range loops {
			hdrs = append(hdrs, h)
		}
		sort.Slice(hdrs, func(i, j int) bool { return hdrs[i].Index < hdrs[j].Index })
		for _, h := range hdrs {
			l := loops[h]
			n++
			key := fkey(fn) + ":loop@" + h.Comment
			kind, why := "", ""
			// (a) counting loop / (d) growth loop: look at the header's branch
			if iff, ok := h.Instrs[len(h.Instrs)-1].(*ssa.If); ok {
				if cmp, ok := iff.Cond.(*ssa.BinOp); ok {
					x, y := cmp.X, cmp.Y
					switch cmp.Op {
					case token.LSS, token.LEQ:
					case token.GTR, token.GEQ:
						x, y = y, x
					default:
						x, y = nil, nil
					}
					// `for { if !cond { break } ... }`: the loop continues on the false edge, so the test is the negation
					if x != nil && len(h.Succs) == 2 && !l.Body[h.Succs[0]] && l.Body[h.Succs[1]] {
						x, y = y, x
					}
					if x != nil {
						if isInduction(x) && definedOutside(y, l) {
							kind, why = "counting", "induction variable compared with a loop-invariant bound"
						} else if dph, init, isDown := countDown(y, l); isDown && definedOutside(x, l) {
							// counting down: v = phi(init, v - 1) compared from above with a loop-invariant bound
							grows := false
							for b := range l.Body {
								for _, in := range b.Instrs {
									if call, isCall := in.(*ssa.Call); isCall && core.BuiltinName(&call.Call) == "append" {
										if _, isPhi := call.Call.Args[0].(*ssa.Phi); isPhi {
											grows = true
										}
									}
								}
							}
							if !grows {
								kind, why = "counting", "counter decremented by one per iteration down to a loop-invariant bound"
							} else {
								lin := core.NewLin(c.P, fn, c.modSets(), sum)
								t, off := lin.Expr(init)
								if lin.Prove(dph.Block().Instrs[len(dph.Block().Instrs)-1], t, core.Zero, 65535-off) {
									kind, why = "bounded growth", "appends one element per iteration of a count-down whose start is proved <= 65535: "+lin.Last
								} else {
									R.Fail(rule, key+":unbounded-growth", c.at(iff), "a loop that grows a slice is bounded by the protocol's 65535 limit", "the loop appends once per step of a count-down from "+describe(init)+", which is not provably <= 65535: client text can make it allocate without bound")
									continue
								}
							}
						} else if inner, isLen := core.IsLenOf(core.StripConv(x)); isLen && definedOutside(y, l) {
							// x = len(s) grows by one per iteration: s = phi(s0, append(s, ..))
							if ph, isPhi := inner.(*ssa.Phi); isPhi && l.Body[ph.Block()] {
								grows := false
								for _, e := range ph.Edges {
									if call, isCall := e.(*ssa.Call); isCall && core.BuiltinName(&call.Call) == "append" && call.Call.Args[0] == ssa.Value(ph) {
										grows = true
									}
								}
								if grows {
									lin := core.NewLin(c.P, fn, c.modSets(), sum)
									t, off := lin.Expr(y)
									proved := lin.Prove(h.Instrs[len(h.Instrs)-1], t, core.Zero, 65535-off)
									if !proved {
										// a private helper with one caller: the bound may be established at the call
										if site := c.onlyCaller(fn); site != nil {
											lin = core.NewLin(c.P, fn, c.modSets(), sum)
											if lin.ImportCallContext(core.NewLin(c.P, site.Parent(), c.modSets(), sum), site) > 0 {
												t, off = lin.Expr(y)
												proved = lin.Prove(h.Instrs[len(h.Instrs)-1], t, core.Zero, 65535-off)
											}
										}
									}
									if proved {
										kind, why = "bounded growth", "appends one element per iteration up to a bound proved <= 65535: "+lin.Last
									} else {
										R.Fail(rule, key+":unbounded-growth", c.at(iff), "a loop that grows a slice is bounded by the protocol's 65535 limit", "the loop appends until len reaches "+describe(y)+", which is not provably <= 65535: client text can make it allocate without bound")
										continue
									}
								}
							}
						}
					}
				}
				// (b) range over map / string
				for _, in := range h.Instrs {
					if _, isNext := in.(*ssa.Next); isNext {
						kind, why = "range", "iteration over an existing map / string"
					}
				}
			}
			// (b') walking an error chain: the loop variable is replaced by errors.Unwrap of itself and the loop is left
			// when it becomes nil (error chains are finite: every wrapper holds an error built before it)
			if kind == "" {
				for _, in := range h.Instrs {
					ph, isPhi := in.(*ssa.Phi)
					if !isPhi {
						continue
					}
					steps, others := 0, 0
					for i, e := range ph.Edges {
						if !l.Body[h.Preds[i]] {
							continue
						}
						if call, isCall := e.(*ssa.Call); isCall && core.FuncIs(core.StaticCallee(call), "errors", "Unwrap") && call.Call.Args[0] == ssa.Value(ph) {
							steps++
						} else {
							others++
						}
					}
					leaves := false
					for _, e := range nilEdges(ph, true) {
						if !l.Body[e.to()] {
							leaves = true
						}
					}
					if steps > 0 && others == 0 && leaves {
						kind, why = "chain-walk", "err = errors.Unwrap(err) until nil (finite error chain)"
					}
				}
			}
			// (c) input-driven
			if kind == "" {
				var backSrc []*ssa.BasicBlock
				for _, p := range h.Preds {
					if l.Body[p] {
						backSrc = append(backSrc, p)
					}
				}
				for b := range l.Body {
					for _, in := range b.Instrs {
						call, ok := in.(*ssa.Call)
						if !ok {
							continue
						}
						callee := core.StaticCallee(call)
						isRead := callee != nil && (readers[callee] || core.FuncIs(callee, "io", "ReadFull"))
						if !isRead {
							continue
						}
						every := true
						for _, p := range backSrc {
							if !b.Dominates(p) {
								every = false
							}
						}
						ev := errResultOf(call)
						leaves := false
						if ev != nil {
							for _, e := range failEdges(ev) {
								if !l.Body[e.to()] {
									leaves = true
								} else if _, isRet := e.to().Instrs[len(e.to().Instrs)-1].(*ssa.Return); isRet {
									leaves = true
								}
							}
						}
						if every && leaves {
							kind, why = "input-driven", "every iteration calls "+callDescr(call)+" and its error edge leaves the loop"
						}
					}
				}
			}
			R.Check(kind != "", rule, key, c.at(h.Instrs[len(h.Instrs)-1]), "every loop of the connection code terminates or makes progress on the input (counting / range loop, bounded growth, or one read per iteration whose failure leaves the loop)", kind+": "+why, "the loop is neither a counting / range loop with an invariant bound nor driven by a read whose failure leaves it: a client can wedge the connection goroutine")
		}
	}
	R.Floor(rule, "loops analysed", n, floor)
}

func (c *Ctx) c04Termination(rule string) {
	R := c.R
	csc := c.mustMethod(rule, "wire", "Session", "consumeSingleCommand")
	if csc == nil {
		return
	}
	var rcall *ssa.Call
	for _, ci := range core.Calls(csc) {
		if call, ok := ci.(*ssa.Call); ok && isReaderMethod(call, "ReadTypedMsg") {
			rcall = call
		}
	}
	if rcall == nil {
		R.Fail(rule, "consumeSingleCommand:read", c.atFn(csc), "the command loop reads one typed message per iteration", "no ReadTypedMsg call")
		return
	}
	rerr := errResultOf(rcall)
	hc := c.P.Method("wire", "Session", "handleCommand")
	for _, ci := range callsIn(csc, calleeIs(hc)) {
		R.Check(rerr != nil && anyDominates(nilEdges(rerr, true), ci.Block()), rule, "consumeSingleCommand:no-dispatch-after-failed-read", c.at(ci), "a command is dispatched only after its message was read successfully", "handleCommand is dominated by the err == nil edge of ReadTypedMsg", "handleCommand is reachable although reading the message failed")
	}
	// the generic failure edge returns the read error itself
	// (every return on the failure edge hands on the read error itself, or the outcome of the size-exceeded recovery
	// that was given that error; at least one returns it unchanged)
	okRet := false
	if rerr != nil {
		fes := nilEdges(rerr, false)
		var recovered []edge
		for _, other := range core.Calls(csc) {
			oc, isCall := other.(*ssa.Call)
			if !isCall || len(oc.Call.Args) == 0 || !c.sameErr(oc.Call.Args[0], rerr) {
				continue
			}
			if f := core.StaticCallee(oc); f != nil && (core.FuncIs(f, "errors", "Is") || core.FuncIs(f, "errors", "As")) {
				recovered = append(recovered, boolEdges(oc, true)...)
			}
		}
		allOK := true
		for _, r := range returns(csc) {
			if !anyDominates(fes, r.Block()) {
				continue
			}
			ev := errOperand(r)
			switch {
			case ev == rerr:
				okRet = true
			case anyDominates(recovered, r.Block()):
				// the recovery path: its own result (nil when the oversized message was skipped and answered)
			default:
				takes := false
				for _, root := range core.ErrRoots(ev) {
					if call, isCall := root.(*ssa.Call); isCall {
						for _, a := range call.Call.Args {
							if c.sameErr(a, rerr) {
								takes = true
							}
						}
					}
				}
				if !takes {
					allOK = false
				}
			}
		}
		okRet = okRet && allOK
	}
	R.Check(okRet, rule, "consumeSingleCommand:read-error-ends-connection", c.at(rcall), "when reading fails (EOF, transport error, malformed frame) the error is returned unchanged so that the connection's goroutine ends", "the err != nil edge returns that error", "no edge returns the read error unchanged: a broken connection could be retried forever")
	// consumeCommands returns on it; serve closes
	if ccm := c.P.Method("wire", "Session", "consumeCommands"); ccm != nil {
		for _, ci := range callsIn(ccm, calleeIs(csc)) {
			call, ok := ci.(*ssa.Call)
			if !ok {
				continue
			}
			stops := c.stopsOnError(call)
			R.Check(stops, rule, "consumeCommands:stops-on-error", c.at(call), "the command loop ends as soon as a command returns a non-nil error", "the non-nil edge returns that error", "the loop does not return on a non-nil command result")
		}
	}
	if serve := c.P.Method("wire", "Server", "serve"); serve != nil {
		closed := false
		for _, ci := range core.Calls(serve) {
			if d, ok := ci.(*ssa.Defer); ok && d.Call.IsInvoke() && d.Call.Method.Name() == "Close" && core.IsNamed(d.Call.Value.Type(), "net", "Conn") {
				all := true
				for _, r := range returns(serve) {
					if r.Block() != serve.Recover && !core.InstrDominates(d, r) {
						all = false
					}
				}
				closed = all
			}
		}
		R.Check(closed, rule, "serve:closes-connection", c.atFn(serve), "however serving ends, the connection is closed", "a deferred conn.Close() dominates every return of serve", "some return of serve is not covered by a deferred connection Close")
	}
}

// c04NoFabricatedData: a value decoded by a Reader accessor is used only where the accessor reported success.
func (c *Ctx) c04NoFabricatedData(rule string) {
	R := c.R
	n := 0
	for _, fn := range c.P.ScopeFuncs() {
		for _, ci := range core.Calls(fn) {
			call, ok := ci.(*ssa.Call)
			if !ok {
				continue
			}
			m := readerMethod(call)
			switch m {
			case "GetString", "GetBytes", "GetUint16", "GetUint32", "GetPrepareType", "ReadTypedMsg", "ReadUntypedMsg", "ReadMsgSize", "ReadType":
			default:
				continue
			}
			n++
			key := fkey(fn) + ":" + m
			ev := errResultOf(call)
			if ev == nil {
				if len(core.Referrers(call)) > 0 {
					R.Fail(rule, key+":error-dropped", c.at(call), "the error of a message accessor is inspected", "the error result of "+m+" is discarded while its value is used: short or malformed messages yield fabricated zero values")
				}
				continue
			}
			okEdges := nilEdges(ev, true)
			bad := false
			for _, r := range core.Referrers(call) {
				ex, ok := r.(*ssa.Extract)
				if !ok || ex == ev {
					continue
				}
				var uses []ssa.Instruction
				var collect func(v ssa.Value, depth int)
				collect = func(v ssa.Value, depth int) {
					for _, u := range core.Referrers(v) {
						switch x := u.(type) {
						case *ssa.Convert:
							if depth < 4 {
								collect(x, depth+1) // a pure conversion: judged by its own uses
								continue
							}
						case *ssa.ChangeType:
							if depth < 4 {
								collect(x, depth+1)
								continue
							}
						}
						uses = append(uses, u)
					}
				}
				collect(ex, 0)
				for _, u := range uses {
					if _, isRet := u.(*ssa.Return); isRet {
						continue // returned next to the error: the caller decides
					}
					if st, isSt := u.(*ssa.Store); isSt {
						// parked in a local struct that is returned next to the error (msg.f, err = get()): not a use yet;
						// what reads the local afterwards is judged where the struct's fields are consumed
						if fa, isFA := st.Addr.(*ssa.FieldAddr); isFA {
							if a, isAlloc := fa.X.(*ssa.Alloc); isAlloc && !a.Heap {
								// reads of that field of the local are uses of the value
								for _, ref := range core.Referrers(a) {
									if fa2, ok := ref.(*ssa.FieldAddr); ok && fa2.Field == fa.Field {
										for _, r2 := range core.Referrers(fa2) {
											if ld, ok := r2.(*ssa.UnOp); ok && ld.Op == token.MUL {
												for _, u2 := range core.Referrers(ld) {
													if _, isRet := u2.(*ssa.Return); !isRet && !anyDominates(okEdges, u2.Block()) {
														bad = true
														R.Fail(rule, key+":value-used-before-error-test:"+instrDescr(u2), c.at(u2), "a decoded value is used only on the path where decoding succeeded", "the value returned by "+m+" (parked in a local struct field) is used by "+instrDescr(u2)+" without its error having been tested nil")
													}
												}
											}
										}
									}
								}
								continue
							}
						}
					}
					if ph, isPhi := u.(*ssa.Phi); isPhi {
						// a phi use happens on the edge from the predecessor
						for i, e := range ph.Edges {
							if e == ssa.Value(ex) && !anyDominates(okEdges, ph.Block().Preds[i]) {
								bad = true
								R.Fail(rule, key+":value-used-without-success", c.at(u), "a decoded value is used only where the accessor reported success", "the value returned by "+m+" flows on without its error having been tested nil")
							}
						}
						continue
					}
					if !anyDominates(okEdges, u.Block()) {
						bad = true
						R.Fail(rule, key+":value-used-without-success", c.at(u), "a decoded value is used only where the accessor reported success", "the value returned by "+m+" is used by "+instrDescr(u)+" without its error having been tested nil: a truncated message reaches the handler as fabricated data")
					}
				}
			}
			if !bad {
				R.OK(rule, key, c.at(call), "a decoded value is used only where the accessor reported success", "every use of the value is dominated by the err == nil edge (or returns it next to the error)")
			}
		}
	}
	R.Floor(rule, "message accessor call sites", n, 30)
}

// paramOrConst: v is the parameter, an integer constant, or a phi / min / max of such values.
func paramOrConst(v ssa.Value, p *ssa.Parameter, depth int) bool {
	if depth > 4 {
		return false
	}
	v = core.StripConv(v)
	if v == ssa.Value(p) {
		return true
	}
	if _, ok := core.ConstInt(v); ok {
		return true
	}
	switch x := v.(type) {
	case *ssa.Phi:
		for _, e := range x.Edges {
			if !paramOrConst(e, p, depth+1) {
				return false
			}
		}
		return true
	case *ssa.Call:
		if n := core.BuiltinName(&x.Call); n == "min" || n == "max" {
			for _, a := range x.Call.Args {
				if !paramOrConst(a, p, depth+1) {
					return false
				}
			}
			return true
		}
	}
	return false
}

// countDown recognises v = phi(init, v - 1) at the header of loop l.
func countDown(v ssa.Value, l *core.Loop) (*ssa.Phi, ssa.Value, bool) {
	ph, ok := core.StripConv(v).(*ssa.Phi)
	if !ok || ph.Block() != l.Header {
		return nil, nil, false
	}
	var init ssa.Value
	step := false
	for i, e := range ph.Edges {
		if !l.Body[ph.Block().Preds[i]] {
			init = e
			continue
		}
		if b, isB := e.(*ssa.BinOp); isB && b.Op == token.SUB && b.X == ssa.Value(ph) {
			if one, isK := core.ConstInt(b.Y); isK && one == 1 {
				step = true
				continue
			}
		}
		return nil, nil, false
	}
	return ph, init, init != nil && step
}

// c04Recover (R6): bytes sent by the client are decoded by third-party codecs (pgx), some of which panic on truncated
// binary values, and statement functions are user code. A panic must not take the whole server down: every codec
// decode call in the library and every invocation of a statement function runs under a deferred recover.
func (c *Ctx) c04Recover(rule string) {
	R := c.R
	hasRecover := func(fn *ssa.Function) bool {
		for _, ci := range core.Calls(fn) {
			d, ok := ci.(*ssa.Defer)
			if !ok {
				continue
			}
			var target *ssa.Function
			if mc, ok := d.Call.Value.(*ssa.MakeClosure); ok {
				target, _ = mc.Fn.(*ssa.Function)
			} else {
				target = core.StaticCallee(d)
			}
			if target == nil {
				continue
			}
			for _, inner := range core.Calls(target) {
				if core.BuiltinName(inner.Common()) == "recover" {
					return true
				}
			}
		}
		return false
	}
	// the recovered panic surfaces as the function's error result: the deferred handler stores into the very cell the
	// function's results are read from when it returns through the recover path (a named result). Handing the handler
	// the address of an ordinary local leaves the results at their zero values: (nil, nil) - fabricated data.
	surfaces := func(fn *ssa.Function) bool {
		if fn.Recover == nil {
			return false
		}
		ret, isRet := fn.Recover.Instrs[len(fn.Recover.Instrs)-1].(*ssa.Return)
		ei := core.ErrorResultIndex(fn.Signature)
		if !isRet || ei < 0 || ei >= len(ret.Results) {
			return false
		}
		ld, isLoad := ret.Results[ei].(*ssa.UnOp)
		if !isLoad || ld.Op != token.MUL {
			return false
		}
		slot, isAlloc := ld.X.(*ssa.Alloc)
		if !isAlloc {
			return false
		}
		for _, ci := range core.Calls(fn) {
			d, ok := ci.(*ssa.Defer)
			if !ok {
				continue
			}
			if mc, ok := d.Call.Value.(*ssa.MakeClosure); ok {
				target, _ := mc.Fn.(*ssa.Function)
				for i, b := range mc.Bindings {
					if b != ssa.Value(slot) || target == nil || i >= len(target.FreeVars) {
						continue
					}
					for _, r := range core.Referrers(target.FreeVars[i]) {
						if st, isSt := r.(*ssa.Store); isSt && st.Addr == ssa.Value(target.FreeVars[i]) {
							return true
						}
					}
				}
				continue
			}
			target := core.StaticCallee(d)
			if target == nil {
				continue
			}
			for i, a := range d.Call.Args {
				if a != ssa.Value(slot) || i >= len(target.Params) {
					continue
				}
				for _, r := range core.Referrers(target.Params[i]) {
					if st, isSt := r.(*ssa.Store); isSt && st.Addr == ssa.Value(target.Params[i]) {
						return true
					}
				}
			}
		}
		return false
	}
	n := 0
	for _, fn := range c.P.ScopeFuncs() {
		if !c.P.InPkg(fn, "wire") {
			continue
		}
		for _, ci := range core.Calls(fn) {
			cc := ci.Common()
			what := ""
			switch {
			case cc.IsInvoke() && cc.Method.Name() == "DecodeValue":
				what = "codec decode of client bytes"
			case callbackName(ci) == "stmt":
				what = "statement function"
			default:
				continue
			}
			n++
			if hasRecover(fn) {
				R.Check(surfaces(fn), rule, fkey(fn)+":recovered-panic-is-reported:"+callDescr(ci), c.at(ci), "a recovered panic is reported as the error of that call (never as a successful result)", "the deferred handler stores into the cell the error result is read from on the recover path", "the deferred recover handler does not write the function's error result (e.g. it is handed the address of a local): after a codec panic the function returns its zero results - a nil value with a nil error is handed to the handler as if it had been decoded")
			}
			R.Check(hasRecover(fn), rule, fkey(fn)+":recovers:"+callDescr(ci), c.at(ci), "a panic while decoding client bytes or inside a statement function is contained (reported as an error of that command), it never ends the server process", what+" runs under a deferred recover in "+fkey(fn), what+" in "+fname(fn)+" runs without a deferred recover: a panic (pgx codecs panic on some truncated binary arrays / ranges / records sent by the client) is not recovered on the simple-query path and terminates the whole process")
		}
	}
	R.Floor(rule, "decode / statement call sites", n, 3)
}
