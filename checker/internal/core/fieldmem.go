package core

import (
	"fmt"
	"go/token"
	"go/types"
	"sort"

	"golang.org/x/tools/go/ssa"
)

// Field memory: a small intraprocedural "memory SSA" for struct fields reached through pointers.
// For every load x.f it answers which definition reaches it: the value at function entry, a store in
// this function, the (unknown) value left behind by a call that may modify the field, or a merge.

type MemKind uint8

const (
	MEntry MemKind = iota // value the field had when the function was entered
	MStore                // value written by a store in this function (Val)
	MPost                 // value after a call that may modify the field (Call)
	MPhi                  // merge of different definitions at the entry of Block
)

// MemVal is one definition of a field.
type MemVal struct {
	Kind  MemKind
	Key   string // canonical "base.field"
	Field string
	Base  ssa.Value
	Val   ssa.Value           // MStore
	Call  ssa.CallInstruction // MPost
	Block *ssa.BasicBlock     // MPhi
	Edges []*MemVal           // MPhi: per predecessor (index-aligned with Block.Preds)
}

func (m *MemVal) String() string {
	switch m.Kind {
	case MEntry:
		return "entry(" + m.Key + ")"
	case MStore:
		return "store(" + m.Key + "=" + m.Val.Name() + ")"
	case MPost:
		return fmt.Sprintf("post(%s after %s)", m.Key, m.Call.Common().Value.Name())
	default:
		return fmt.Sprintf("phi(%s@%d)", m.Key, m.Block.Index)
	}
}

// FieldMem holds the result for one function.
type FieldMem struct {
	Fn    *ssa.Function
	Loads map[*ssa.UnOp]*MemVal // reaching definition of every field load
	// AtExit gives the definition of each tracked field at every return.
	AtReturn map[*ssa.Return]map[string]*MemVal
	mods     *ModSets
	entries  map[string]*MemVal
	posts    map[string]*MemVal
	phis     map[string]*MemVal
	baseKey  map[ssa.Value]string
}

// ModSets answers which struct fields a call may modify.
type ModSets struct {
	P       *Prog
	sets    map[*ssa.Function]map[string]bool // "Type.field"; "*" = anything
	mutable map[string]bool
}

func NewModSets(p *Prog) *ModSets {
	m := &ModSets{P: p, sets: map[*ssa.Function]map[string]bool{}}
	// direct stores
	for _, fn := range p.ScopeFuncs() {
		s := map[string]bool{}
		for _, b := range fn.Blocks {
			for _, in := range b.Instrs {
				switch x := in.(type) {
				case *ssa.Store:
					if fr, ok := FieldOfAddr(x.Addr); ok && fr.Struct != nil {
						s[fr.Struct.Obj().Name()+"."+fr.Name] = true
					}
				case ssa.CallInstruction:
					if _, isGo := in.(*ssa.Go); isGo {
						continue
					}
					if m.dynamic(x) {
						s["*"] = true
					}
				}
			}
		}
		m.sets[fn] = s
	}
	// transitive closure over static calls inside the scope
	for changed := true; changed; {
		changed = false
		for _, fn := range p.ScopeFuncs() {
			for _, ci := range Calls(fn) {
				if _, isGo := ci.(*ssa.Go); isGo {
					continue
				}
				callee := StaticCallee(ci)
				if callee == nil || !p.InScope(callee) {
					continue
				}
				for k := range m.sets[callee] {
					if !m.sets[fn][k] {
						m.sets[fn][k] = true
						changed = true
					}
				}
			}
		}
	}
	return m
}

// dynamic reports whether the call has an unknown callee that could run arbitrary library code
// (user callbacks, interface methods implemented in the scope).
func (m *ModSets) dynamic(ci ssa.CallInstruction) bool {
	cc := ci.Common()
	if _, ok := cc.Value.(*ssa.Builtin); ok {
		return false
	}
	if StaticCallee(ci) != nil {
		return false
	}
	if cc.IsInvoke() {
		// interface methods of well-known external interfaces do not touch library structs
		n := NamedOf(cc.Value.Type())
		if n != nil && n.Obj().Pkg() != nil {
			switch n.Obj().Pkg().Path() {
			case "context", "net", "io", "error", "log/slog", "crypto/tls":
				return false
			}
		}
		if IsErrorType(cc.Value.Type()) {
			return false
		}
		if n != nil && n.Obj().Pkg() != nil && n.Obj().Pkg().Path() == Mod+"/pkg/buffer" && n.Obj().Name() == "BufferedReader" {
			return false // bufio.Reader behind the reader's byte source
		}
		return true
	}
	if IsNamed(cc.Value.Type(), "context", "CancelFunc") {
		return false
	}
	return true
}

// MayModify reports whether executing ci may change field typ.field of some object.
func (m *ModSets) MayModify(ci ssa.CallInstruction, typ, field string) bool {
	if _, isGo := ci.(*ssa.Go); isGo {
		return false
	}
	if _, isDefer := ci.(*ssa.Defer); isDefer {
		return false // runs at function exit
	}
	if m.dynamic(ci) {
		// unknown code can only write an unexported field through library code; if no library code
		// ever stores the field outside the construction of a fresh object, it is immutable
		if !token.IsExported(field) && !m.storedAfterConstruction(typ, field) {
			return false
		}
		return true
	}
	callee := StaticCallee(ci)
	if callee == nil {
		return false // builtin
	}
	if !m.P.InScope(callee) {
		return false // trusted: code outside the module does not write the library's struct fields
	}
	s := m.sets[callee]
	if s[typ+"."+field] {
		return true
	}
	if s["*"] {
		// the callee reaches unknown code: the same argument as for a direct dynamic call
		if !token.IsExported(field) && !m.storedAfterConstruction(typ, field) {
			return false
		}
		return true
	}
	return false
}

// Mods exposes the modification set of a function of the scope.
func (m *ModSets) Mods(fn *ssa.Function) map[string]bool { return m.sets[fn] }

// BuildFieldMem computes reaching field definitions for fn.
func BuildFieldMem(fn *ssa.Function, mods *ModSets) *FieldMem {
	fm := &FieldMem{Fn: fn, Loads: map[*ssa.UnOp]*MemVal{}, AtReturn: map[*ssa.Return]map[string]*MemVal{}, mods: mods,
		entries: map[string]*MemVal{}, posts: map[string]*MemVal{}, phis: map[string]*MemVal{}, baseKey: map[ssa.Value]string{}}
	if len(fn.Blocks) == 0 {
		return fm
	}
	// the tracked keys: every (base, field) that is loaded or stored in fn
	keys := map[string]keyInfo{}
	for _, b := range fn.Blocks {
		for _, in := range b.Instrs {
			if fa, ok := in.(*ssa.FieldAddr); ok {
				if k, ti, ok := fm.keyOf(fa); ok {
					keys[k] = ti
				}
			}
		}
	}
	_ = keys
	in := map[*ssa.BasicBlock]map[string]*MemVal{}
	out := map[*ssa.BasicBlock]map[string]*MemVal{}
	get := func(s map[string]*MemVal, fa *ssa.FieldAddr, k string, ti keyInfo) *MemVal {
		if v, ok := s[k]; ok {
			return v
		}
		e, ok := fm.entries[k]
		if !ok {
			e = &MemVal{Kind: MEntry, Key: k, Field: ti.field, Base: ti.base}
			fm.entries[k] = e
		}
		return e
	}
	transfer := func(b *ssa.BasicBlock, s map[string]*MemVal, record bool) map[string]*MemVal {
		cur := map[string]*MemVal{}
		for k, v := range s {
			cur[k] = v
		}
		for _, instr := range b.Instrs {
			switch x := instr.(type) {
			case *ssa.UnOp:
				if x.Op != token.MUL {
					continue
				}
				if fa, ok := x.X.(*ssa.FieldAddr); ok {
					if k, ti, ok := fm.keyOf(fa); ok && record {
						fm.Loads[x] = get(cur, fa, k, ti)
					}
				}
			case *ssa.Store:
				if fa, ok := x.Addr.(*ssa.FieldAddr); ok {
					if k, ti, ok := fm.keyOf(fa); ok {
						cur[k] = &MemVal{Kind: MStore, Key: k, Field: ti.field, Base: ti.base, Val: x.Val}
						// a store through one base may alias the same field reached through another base
						for k2, ti2 := range keys {
							if k2 != k && ti2.typ == ti.typ && ti2.field == ti.field {
								pk := fmt.Sprintf("%s|alias|%p", k2, x)
								pv, ok := fm.posts[pk]
								if !ok {
									pv = &MemVal{Kind: MPost, Key: k2, Field: ti2.field, Base: ti2.base}
									fm.posts[pk] = pv
								}
								cur[k2] = pv
							}
						}
					}
				}
			case ssa.CallInstruction:
				for k, ti := range keys {
					if mods.MayModify(x, ti.typ, ti.field) {
						pk := fmt.Sprintf("%s|%p", k, x)
						pv, ok := fm.posts[pk]
						if !ok {
							pv = &MemVal{Kind: MPost, Key: k, Field: ti.field, Base: ti.base, Call: x}
							fm.posts[pk] = pv
						}
						cur[k] = pv
					}
				}
			case *ssa.Return:
				if record {
					snap := map[string]*MemVal{}
					for k, ti := range keys {
						snap[k] = get(cur, nil, k, ti)
					}
					fm.AtReturn[x] = snap
				}
			}
		}
		return cur
	}
	// iterate to a fixpoint (phis at joins)
	order := fn.DomPreorder()
	for iter := 0; iter < 50; iter++ {
		changed := false
		for _, b := range order {
			var s map[string]*MemVal
			if b == fn.Blocks[0] {
				s = map[string]*MemVal{}
			} else {
				s = map[string]*MemVal{}
				for k, ti := range keys {
					var vals []*MemVal
					same := true
					for _, p := range b.Preds {
						var v *MemVal
						if o, ok := out[p]; ok {
							v = get(o, nil, k, ti)
						}
						vals = append(vals, v)
					}
					var first *MemVal
					for _, v := range vals {
						if v == nil {
							continue
						}
						if first == nil {
							first = v
						} else if !sameMem(first, v) {
							same = false
						}
					}
					if first == nil {
						continue
					}
					if same {
						s[k] = first
						continue
					}
					pk := fmt.Sprintf("%s|%d", k, b.Index)
					ph, ok := fm.phis[pk]
					if !ok {
						ph = &MemVal{Kind: MPhi, Key: k, Field: ti.field, Base: ti.base, Block: b}
						fm.phis[pk] = ph
					}
					ph.Edges = vals
					s[k] = ph
				}
			}
			o := transfer(b, s, false)
			if !sameState(in[b], s) || !sameState(out[b], o) {
				changed = true
			}
			in[b], out[b] = s, o
		}
		if !changed {
			break
		}
	}
	for _, b := range fn.Blocks {
		s := in[b]
		if s == nil {
			s = map[string]*MemVal{}
		}
		transfer(b, s, true)
	}
	return fm
}

func sameMem(a, b *MemVal) bool {
	if a == b {
		return true
	}
	if a == nil || b == nil || a.Kind != b.Kind || a.Key != b.Key {
		return false
	}
	switch a.Kind {
	case MEntry:
		return true
	case MStore:
		return a.Val == b.Val
	}
	return false
}

func sameState(a, b map[string]*MemVal) bool {
	if len(a) != len(b) {
		return false
	}
	for k, v := range a {
		if w, ok := b[k]; !ok || !sameMem(v, w) {
			return false
		}
	}
	return true
}

type keyInfo struct {
	key, typ, field string
	base            ssa.Value
}

// keyOf canonicalises the object a FieldAddr refers to.
func (fm *FieldMem) keyOf(fa *ssa.FieldAddr) (string, keyInfo, bool) {
	var ti keyInfo
	fr, ok := FieldOfAddr(fa)
	if !ok || fr.Struct == nil {
		return "", ti, false
	}
	bk := fm.baseKeyOf(fa.X, 0)
	ti.key = bk + "." + fr.Name
	ti.typ = fr.Struct.Obj().Name()
	ti.field = fr.Name
	ti.base = fa.X
	return ti.key, ti, true
}

// baseKeyOf names a pointer value: parameters and allocations by name, pointer-typed field loads by path
// (x.reader where the field itself is never reassigned in this function).
func (fm *FieldMem) baseKeyOf(v ssa.Value, depth int) string {
	if k, ok := fm.baseKey[v]; ok {
		return k
	}
	k := ""
	switch x := v.(type) {
	case *ssa.Parameter:
		k = "param:" + x.Name()
	case *ssa.FreeVar:
		k = "free:" + x.Name()
	case *ssa.Alloc:
		k = "alloc:" + x.Name()
	case *ssa.UnOp:
		if fa, ok := x.X.(*ssa.FieldAddr); ok && x.Op == token.MUL && depth < 4 {
			if fr, ok := FieldOfAddr(fa); ok {
				if _, isPtr := x.Type().Underlying().(*types.Pointer); isPtr && !fm.storedInFn(fr) {
					k = fm.baseKeyOf(fa.X, depth+1) + "." + fr.Name
				}
			}
		}
	case *ssa.FieldAddr: // embedded struct: &x.Server
		if fr, ok := FieldOfAddr(x); ok && depth < 4 {
			k = fm.baseKeyOf(x.X, depth+1) + ".&" + fr.Name
		}
	}
	if k == "" {
		k = "val:" + v.Name()
	}
	fm.baseKey[v] = k
	return k
}

func (fm *FieldMem) storedInFn(fr FieldRef) bool {
	for _, b := range fm.Fn.Blocks {
		for _, in := range b.Instrs {
			if st, ok := in.(*ssa.Store); ok {
				if f2, ok := FieldOfAddr(st.Addr); ok && f2.Name == fr.Name && f2.Struct == fr.Struct {
					return true
				}
			}
		}
	}
	return false
}

// SortedKeys lists the tracked keys of a snapshot.
func SortedKeys(m map[string]*MemVal) []string {
	ks := make([]string, 0, len(m))
	for k := range m {
		ks = append(ks, k)
	}
	sort.Strings(ks)
	return ks
}

// storedAfterConstruction reports whether some function of the scope stores typ.field of an object that
// it did not allocate itself (i.e. the field is mutable after construction).
func (m *ModSets) storedAfterConstruction(typ, field string) bool {
	if m.mutable == nil {
		m.mutable = map[string]bool{}
		for _, fn := range m.P.ScopeFuncs() {
			for _, b := range fn.Blocks {
				for _, in := range b.Instrs {
					st, ok := in.(*ssa.Store)
					if !ok {
						continue
					}
					fr, ok := FieldOfAddr(st.Addr)
					if !ok || fr.Struct == nil {
						continue
					}
					if a, fresh := fr.Base.(*ssa.Alloc); fresh && a.Parent() == fn {
						continue
					}
					m.mutable[fr.Struct.Obj().Name()+"."+fr.Name] = true
				}
			}
		}
	}
	return m.mutable[typ+"."+field]
}
