package core

import (
	"fmt"
	"go/constant"
	"go/token"
	"go/types"
	"sort"
	"strings"

	"golang.org/x/tools/go/ssa"
)

// E-TS: path-sensitive trace exploration. A client supplies an abstract state (an opaque string)
// and the effect of primitive calls on it; the engine explores every CFG path of a function,
// applies calls to in-scope functions as memoised summaries (entry state -> exit outcomes) and
// prunes branches that test an error result whose nil-ness is known from the callee's outcome.

// ErrK is what is known about the error result of a finished call.
type ErrK uint8

const (
	KNoErr  ErrK = iota // the callee has no error result
	KNil                // returned nil
	KNonNil             // returned a non-nil error
	KAny                // unknown
)

func (k ErrK) String() string { return [...]string{"-", "nil", "non-nil", "any"}[k] }

// TSOut is one outcome of a call: the state afterwards and the knowledge about its error result.
type TSOut struct {
	S   string
	Err ErrK
}

// TSClient is a rule instantiation of the engine.
type TSClient interface {
	// Call models call site `site` in state s. handled=false lets the engine summarise a static
	// in-scope callee; other calls are then treated as having no effect on the state.
	Call(x *TSCtx, site ssa.CallInstruction, s string) (outs []TSOut, handled bool)
	// Return is invoked for every return reached, with the state and the error knowledge; it may
	// replace the state handed back to the caller.
	Return(x *TSCtx, ret *ssa.Return, s string, err ErrK) string
	// Edge may transform the state when control moves from one block to another.
	Edge(x *TSCtx, from, to *ssa.BasicBlock, s string) string
}

// TSEnv binds parameters of the function being analysed to facts known at the call site:
// constants, nil-ness of error arguments and emptiness of slice arguments.
type TSEnv struct {
	Const map[*ssa.Parameter]constant.Value
	Err   map[*ssa.Parameter]ErrK
	Len   map[*ssa.Parameter]int8 // 1: len == 0, 2: len > 0
}

// ConstEnv builds an environment binding one parameter to a constant.
func ConstEnv(p *ssa.Parameter, v constant.Value) TSEnv {
	return TSEnv{Const: map[*ssa.Parameter]constant.Value{p: v}}
}

func (e TSEnv) key() string {
	var ks []string
	for p, v := range e.Const {
		ks = append(ks, p.Name()+"="+v.ExactString())
	}
	for p, v := range e.Err {
		ks = append(ks, p.Name()+"~"+v.String())
	}
	for p, v := range e.Len {
		ks = append(ks, fmt.Sprintf("%s#%d", p.Name(), v))
	}
	sort.Strings(ks)
	return strings.Join(ks, ",")
}

type trail struct {
	prev *trail
	msg  string
}

// TSCtx is the context handed to the client.
type TSCtx struct {
	E     *TS
	Fn    *ssa.Function
	Env   TSEnv
	Stack []ssa.CallInstruction // call sites from the root to Fn
	tr    *trail
	known map[ssa.Value]ErrK
	lens  map[ssa.Value]int8
}

// Trail returns the last n steps of the current path (call sites and branch decisions).
func (x *TSCtx) Trail(n int) []string {
	var out []string
	for t := x.tr; t != nil && len(out) < n; t = t.prev {
		out = append(out, t.msg)
	}
	for i, j := 0, len(out)-1; i < j; i, j = i+1, j-1 {
		out[i], out[j] = out[j], out[i]
	}
	return out
}

// Const resolves v to a constant using the current parameter bindings.
func (x *TSCtx) Const(v ssa.Value) (constant.Value, bool) {
	return constOf(v, x.Env)
}

// Empty reports whether the current path knows collection v to be empty (a len == 0 or == nil test was taken).
func (x *TSCtx) Empty(v ssa.Value) bool {
	k, ok := lensLookup(x.lens, StripConv(v))
	return ok && k == 1
}

// Known returns what the current path knows about error value v.
func (x *TSCtx) Known(v ssa.Value) (ErrK, bool) {
	k, ok := x.known[v]
	return k, ok
}

func constOf(v ssa.Value, env TSEnv) (constant.Value, bool) {
	switch c := v.(type) {
	case *ssa.Const:
		if c.Value == nil {
			return nil, false
		}
		return c.Value, true
	case *ssa.Parameter:
		cv, ok := env.Const[c]
		return cv, ok
	case *ssa.Convert:
		cv, ok := constOf(c.X, env)
		if !ok {
			return nil, false
		}
		// integer -> integer conversions: keep the value when it fits (byte(status), int32(authType))
		if bt, isb := c.Type().Underlying().(*types.Basic); isb && bt.Info()&types.IsInteger != 0 && cv.Kind() == constant.Int {
			return cv, true
		}
		return nil, false
	case *ssa.ChangeType:
		return constOf(c.X, env)
	}
	return nil, false
}

// TS is the engine.
type TS struct {
	P       *Prog
	Client  TSClient
	Err     *ErrEngine
	memo    map[string][]TSOut
	active  map[string]bool
	States  int // explored (block, state) tuples
	Funcs   map[*ssa.Function]bool
	Problem []string // unsupported constructs encountered (reported by the rule as undecided)
	// NoSummarise makes the engine skip these in-scope callees (treated as opaque no-ops).
	Opaque map[*ssa.Function]bool
	// Relevant, when non-nil, restricts summarisation to these functions (those that can reach a
	// primitive of the client); every other callee leaves the state unchanged.
	Relevant map[*ssa.Function]bool
	// NoMemo disables summary reuse, so that reports raised inside a callee carry every call stack.
	NoMemo bool
}

func NewTS(p *Prog, c TSClient) *TS {
	return &TS{P: p, Client: c, Err: NewErrEngine(p), memo: map[string][]TSOut{}, active: map[string]bool{}, Funcs: map[*ssa.Function]bool{}, Opaque: map[*ssa.Function]bool{}}
}

// Run summarises fn from entry state s (root call).
func (t *TS) Run(fn *ssa.Function, s string, env TSEnv) []TSOut {
	return t.summarise(fn, s, env, nil)
}

type pstate struct {
	s      string
	lens   map[ssa.Value]int8
	known  map[ssa.Value]ErrK
	cells  map[*ssa.Alloc]ErrK
	defers []ssa.CallInstruction
	tr     *trail
}

func (p pstate) clone() pstate {
	q := p
	q.known = make(map[ssa.Value]ErrK, len(p.known)+1)
	for k, v := range p.known {
		q.known[k] = v
	}
	q.cells = make(map[*ssa.Alloc]ErrK, len(p.cells))
	for k, v := range p.cells {
		q.cells[k] = v
	}
	q.defers = append([]ssa.CallInstruction(nil), p.defers...)
	q.lens = make(map[ssa.Value]int8, len(p.lens))
	for k, v := range p.lens {
		q.lens[k] = v
	}
	return q
}

func (p pstate) key(b *ssa.BasicBlock, idx int) string {
	var ks []string
	for v, k := range p.known {
		ks = append(ks, fmt.Sprintf("%s=%d", v.Name(), k))
	}
	for a, k := range p.cells {
		ks = append(ks, fmt.Sprintf("*%s=%d", a.Name(), k))
	}
	for v, k := range p.lens {
		ks = append(ks, fmt.Sprintf("#%s=%d", v.Name(), k))
	}
	sort.Strings(ks)
	return fmt.Sprintf("%d.%d|%s|%s|%d", b.Index, idx, p.s, strings.Join(ks, ","), len(p.defers))
}

func (t *TS) summarise(fn *ssa.Function, entry string, env TSEnv, stack []ssa.CallInstruction) []TSOut {
	key := fmt.Sprintf("%p|%s|%s", fn, entry, env.key())
	if outs, ok := t.memo[key]; ok && !t.NoMemo {
		return outs
	}
	if t.active[key] {
		t.Problem = append(t.Problem, "recursion through "+FuncName(fn)+" is not summarised")
		return []TSOut{{entry, KAny}}
	}
	t.active[key] = true
	defer delete(t.active, key)
	t.Funcs[fn] = true

	outSet := map[TSOut]bool{}
	visited := map[string]bool{}
	x := &TSCtx{E: t, Fn: fn, Env: env, Stack: stack}

	// along the edge from -> to, an error-typed phi of `to` is the operand of that edge: what the path knows about the
	// operand is what it knows about the phi (err = step(); if err == nil { err = next() }; return err)
	phiEdge := func(from, to *ssa.BasicBlock, ps *pstate) {
		pi := -1
		for i, p := range to.Preds {
			if p == from {
				pi = i
			}
		}
		if pi < 0 {
			return
		}
		upd := map[ssa.Value]ErrK{}
		var drop []ssa.Value
		for _, in := range to.Instrs {
			ph, ok := in.(*ssa.Phi)
			if !ok {
				break
			}
			if !IsErrorType(ph.Type()) || pi >= len(ph.Edges) {
				continue
			}
			if kk, ok := t.errKnowledge(ph.Edges[pi], from, ps); ok && (kk == KNil || kk == KNonNil) {
				upd[ph] = kk
			} else {
				drop = append(drop, ph)
			}
		}
		for _, v := range drop {
			delete(ps.known, v)
		}
		for v, kk := range upd {
			ps.known[v] = kk
		}
	}
	var run func(b *ssa.BasicBlock, idx int, ps pstate)
	run = func(b *ssa.BasicBlock, idx int, ps pstate) {
		if idx == 0 {
			// drop knowledge about values that no longer dominate this block
			for v := range ps.known {
				if in, ok := v.(ssa.Instruction); ok && in.Block() != nil && !in.Block().Dominates(b) {
					delete(ps.known, v)
				}
			}
			for v := range ps.lens {
				if in, ok := v.(ssa.Instruction); ok && in.Block() != nil && !in.Block().Dominates(b) {
					delete(ps.lens, v)
				}
			}
		}
		k := ps.key(b, idx)
		if visited[k] {
			return
		}
		visited[k] = true
		t.States++
		for i := idx; i < len(b.Instrs); i++ {
			in := b.Instrs[i]
			switch in := in.(type) {
			case *ssa.Defer:
				ps.defers = append(ps.defers, in)
			case *ssa.Go:
				// spawned goroutines are analysed from their own roots
			case *ssa.Call:
				outs := t.dispatch(x, in, &ps)
				for _, o := range outs {
					q := ps.clone()
					q.s = o.S
					if o.Err == KNil || o.Err == KNonNil {
						q.known[in] = o.Err
					}
					q.tr = &trail{ps.tr, fmt.Sprintf("%s: %s -> state %s, err %s", t.P.Pos(PosOf(in)), callDesc(in), o.S, o.Err)}
					run(b, i+1, q)
				}
				return
			case *ssa.Extract:
				if call, ok := in.Tuple.(*ssa.Call); ok {
					if kk, ok := ps.known[call]; ok {
						if ri := errIdxOfCall(call); ri == in.Index {
							ps.known[in] = kk
						}
					}
				}
			case *ssa.Store:
				if a, ok := in.Addr.(*ssa.Alloc); ok && IsErrorType(in.Val.Type()) {
					if kk, ok := t.errKnowledge(in.Val, b, &ps); ok {
						ps.cells[a] = kk
					} else {
						delete(ps.cells, a)
					}
				}
			case *ssa.UnOp:
				if a, ok := in.X.(*ssa.Alloc); ok && in.Op == token.MUL {
					if kk, ok := ps.cells[a]; ok {
						ps.known[in] = kk
					}
				}
			case *ssa.RunDefers:
				t.runDefers(x, b, i, ps, run)
				return
			case *ssa.If:
				taken := []int{0, 1}
				if v, ok := t.evalCond(in.Cond, &ps, env); ok {
					if v {
						taken = []int{0}
					} else {
						taken = []int{1}
					}
				}
				for _, ti := range taken {
					q := ps.clone()
					to := b.Succs[ti]
					if coll, zeroOnTrue, ok := lenZeroTest(in.Cond); ok {
						if (ti == 0) == zeroOnTrue {
							q.lens[coll] = 1
						} else {
							q.lens[coll] = 2
						}
					}
					if v, nonNilOnTrue, ok := NilTest(in.Cond); ok && IsErrorType(v.Type()) {
						if (ti == 0) == nonNilOnTrue {
							q.known[v] = KNonNil
						} else {
							q.known[v] = KNil
						}
					} else if ok {
						// a nil slice is an empty one
						if _, isSl := v.Type().Underlying().(*types.Slice); isSl && (ti == 0) != nonNilOnTrue {
							q.lens[StripConv(v)] = 1
						}
					}
					phiEdge(b, to, &q)
					x.tr, x.known = q.tr, q.known
					q.s = t.Client.Edge(x, b, to, q.s)
					run(to, 0, q)
				}
				return
			case *ssa.Jump:
				to := b.Succs[0]
				phiEdge(b, to, &ps)
				x.tr, x.known = ps.tr, ps.known
				ps.s = t.Client.Edge(x, b, to, ps.s)
				run(to, 0, ps)
				return
			case *ssa.Return:
				ek := KNoErr
				if ri := ErrorResultIndex(fn.Signature); ri >= 0 && ri < len(in.Results) {
					ek = KAny
					if kk, ok := t.errKnowledge(in.Results[ri], b, &ps); ok {
						ek = kk
					}
				}
				x.tr, x.known = ps.tr, ps.known
				rs := t.Client.Return(x, in, ps.s, ek)
				outSet[TSOut{rs, ek}] = true
				return
			case *ssa.Panic:
				return
			}
		}
	}
	if len(fn.Blocks) > 0 {
		ps0 := pstate{s: entry, known: map[ssa.Value]ErrK{}, cells: map[*ssa.Alloc]ErrK{}, lens: map[ssa.Value]int8{}}
		for p, k := range env.Err {
			ps0.known[p] = k
		}
		for p, k := range env.Len {
			ps0.lens[p] = k
		}
		run(fn.Blocks[0], 0, ps0)
	}
	var outs []TSOut
	for o := range outSet {
		outs = append(outs, o)
	}
	sort.Slice(outs, func(i, j int) bool {
		if outs[i].S != outs[j].S {
			return outs[i].S < outs[j].S
		}
		return outs[i].Err < outs[j].Err
	})
	t.memo[key] = outs
	return outs
}

func callDesc(c ssa.CallInstruction) string {
	cc := c.Common()
	if cc.IsInvoke() {
		return "invoke " + cc.Method.Name()
	}
	if f := StaticCallee(c); f != nil {
		return "call " + FuncName(f)
	}
	if b, ok := cc.Value.(*ssa.Builtin); ok {
		return "builtin " + b.Name()
	}
	if fr, ok := FieldOfValue(cc.Value); ok {
		return "call through field " + fr.Name
	}
	return "dynamic call " + cc.Value.Name()
}

func errIdxOfCall(c *ssa.Call) int {
	sig, ok := c.Call.Value.Type().Underlying().(*types.Signature)
	if c.Call.IsInvoke() {
		sig, ok = c.Call.Method.Type().(*types.Signature), true
	}
	if !ok || sig == nil {
		return -1
	}
	return ErrorResultIndex(sig)
}

// errKnowledge combines path knowledge with the static classifier.
func (t *TS) errKnowledge(v ssa.Value, at *ssa.BasicBlock, ps *pstate) (ErrK, bool) {
	if k, ok := ps.known[v]; ok {
		return k, true
	}
	if ph, ok := v.(*ssa.Phi); ok {
		_ = ph
	}
	c := t.Err.Classify(v, at)
	switch {
	case c.OnlyNil():
		return KNil, true
	case c.NeverNil():
		return KNonNil, true
	}
	return KAny, false
}

func (t *TS) evalCond(cond ssa.Value, ps *pstate, env TSEnv) (bool, bool) {
	if v, nonNilOnTrue, ok := NilTest(cond); ok && IsErrorType(v.Type()) {
		k, known := ps.known[v]
		if !known {
			c := t.Err.Classify(v, nil)
			switch {
			case c.OnlyNil():
				k, known = KNil, true
			case c.NeverNil():
				k, known = KNonNil, true
			}
		}
		if known {
			switch k {
			case KNil:
				return !nonNilOnTrue, true
			case KNonNil:
				return nonNilOnTrue, true
			}
		}
		return false, false
	}
	if coll, zeroOnTrue, ok := lenZeroTest(cond); ok {
		if k, known := lensLookup(ps.lens, coll); known {
			return (k == 1) == zeroOnTrue, true
		}
		return false, false
	}
	if b, ok := cond.(*ssa.BinOp); ok {
		x, okx := constOf(b.X, env)
		y, oky := constOf(b.Y, env)
		if okx && oky {
			switch b.Op {
			case token.EQL, token.NEQ, token.LSS, token.LEQ, token.GTR, token.GEQ:
				if x.Kind() == y.Kind() || (x.Kind() == constant.Int && y.Kind() == constant.Int) {
					return constant.Compare(x, b.Op, y), true
				}
			}
		}
	}
	if c, ok := cond.(*ssa.Const); ok && c.Value != nil && c.Value.Kind() == constant.Bool {
		return constant.BoolVal(c.Value), true
	}
	if u, ok := cond.(*ssa.UnOp); ok && u.Op == token.NOT {
		if v, known := t.evalCond(u.X, ps, env); known {
			return !v, true
		}
		return false, false
	}
	// a pure predicate of the package over values known on this path (isCopyMessage(t) with t bound by the arm)
	if call, ok := cond.(*ssa.Call); ok {
		if v, known := t.evalPredicate(call, env); known {
			return v, true
		}
	}
	return false, false
}

// evalPredicate interprets a call of a small side-effect-free boolean function of the analysed scope whose
// arguments are constants under env: comparisons, negation, short-circuit control flow and merges only. Anything
// else (a call, a load, an unknown operand that decides a branch) leaves the result unknown.
func (t *TS) evalPredicate(call *ssa.Call, env TSEnv) (bool, bool) {
	callee := StaticCallee(call)
	if callee == nil || callee.Blocks == nil || !t.P.InScope(callee) || len(callee.Blocks) > 16 {
		return false, false
	}
	res := callee.Signature.Results()
	if res.Len() != 1 {
		return false, false
	}
	if bt, isB := res.At(0).Type().Underlying().(*types.Basic); !isB || bt.Kind() != types.Bool {
		return false, false
	}
	vals := map[ssa.Value]constant.Value{}
	for i, prm := range callee.Params {
		if i < len(call.Call.Args) {
			if cv, ok := constOf(call.Call.Args[i], env); ok {
				vals[prm] = cv
			}
		}
	}
	var get func(v ssa.Value) (constant.Value, bool)
	get = func(v ssa.Value) (constant.Value, bool) {
		if cv, ok := vals[v]; ok {
			return cv, true
		}
		switch x := v.(type) {
		case *ssa.Const:
			if x.Value == nil {
				return nil, false
			}
			return x.Value, true
		case *ssa.ChangeType:
			return get(x.X)
		case *ssa.Convert:
			if cv, ok := get(x.X); ok {
				if bt, isb := x.Type().Underlying().(*types.Basic); isb && bt.Info()&types.IsInteger != 0 && cv.Kind() == constant.Int {
					return cv, true
				}
			}
		}
		return nil, false
	}
	cur := callee.Blocks[0]
	var prev *ssa.BasicBlock
	for steps := 0; steps < 64; steps++ {
		var next *ssa.BasicBlock
		for _, in := range cur.Instrs {
			switch x := in.(type) {
			case *ssa.Phi:
				for i, pb := range cur.Preds {
					if pb == prev {
						if cv, ok := get(x.Edges[i]); ok {
							vals[x] = cv
						}
					}
				}
			case *ssa.BinOp:
				a, oka := get(x.X)
				b, okb := get(x.Y)
				if oka && okb {
					switch x.Op {
					case token.EQL, token.NEQ, token.LSS, token.LEQ, token.GTR, token.GEQ:
						if a.Kind() == b.Kind() && a.Kind() != constant.Bool || a.Kind() == constant.Bool && b.Kind() == constant.Bool && (x.Op == token.EQL || x.Op == token.NEQ) {
							vals[x] = constant.MakeBool(constant.Compare(a, x.Op, b))
						}
					}
				}
			case *ssa.UnOp:
				if x.Op != token.NOT {
					return false, false
				}
				if a, ok := get(x.X); ok && a.Kind() == constant.Bool {
					vals[x] = constant.MakeBool(!constant.BoolVal(a))
				}
			case *ssa.ChangeType, *ssa.Convert, *ssa.DebugRef:
			case *ssa.If:
				cv, ok := get(x.Cond)
				if !ok || cv.Kind() != constant.Bool {
					return false, false
				}
				if constant.BoolVal(cv) {
					next = cur.Succs[0]
				} else {
					next = cur.Succs[1]
				}
			case *ssa.Jump:
				next = cur.Succs[0]
			case *ssa.Return:
				cv, ok := get(x.Results[0])
				if !ok || cv.Kind() != constant.Bool {
					return false, false
				}
				return constant.BoolVal(cv), true
			default:
				return false, false
			}
		}
		if next == nil {
			return false, false
		}
		prev, cur = cur, next
	}
	return false, false
}

// dispatch computes the outcomes of one call.
func (t *TS) dispatch(x *TSCtx, site ssa.CallInstruction, ps *pstate) []TSOut {
	x.tr, x.known, x.lens = ps.tr, ps.known, ps.lens
	if outs, handled := t.Client.Call(x, site, ps.s); handled {
		return outs
	}
	callee := StaticCallee(site)
	if callee != nil && t.P.InScope(callee) && !t.Opaque[callee] {
		if t.Relevant == nil || t.Relevant[callee] || (t.P.InPkg(callee, "wire") && t.knownErrArg(x, site)) {
			return t.Summarise(x, site, callee, ps.s)
		}
	}
	ek := KNoErr
	if c, ok := site.(*ssa.Call); ok && errIdxOfCall(c) >= 0 {
		ek = KAny
		if kk, ok := t.errKnowledge(c, nil, &pstate{known: map[ssa.Value]ErrK{}}); ok && c.Type() != nil && IsErrorType(c.Type()) {
			ek = kk
		}
	}
	return []TSOut{{ps.s, ek}}
}

// Summarise applies callee at site in state s (available to clients for resolved interface calls).
func (t *TS) Summarise(x *TSCtx, site ssa.CallInstruction, callee *ssa.Function, s string) []TSOut {
	env := TSEnv{Const: map[*ssa.Parameter]constant.Value{}, Err: map[*ssa.Parameter]ErrK{}, Len: map[*ssa.Parameter]int8{}}
	args := site.Common().Args
	params := callee.Params
	if site.Common().IsInvoke() && len(params) == len(args)+1 {
		params = params[1:]
	}
	for i, p := range params {
		if i < len(args) {
			if cv, ok := constOf(args[i], x.Env); ok {
				env.Const[p] = cv
			}
			if IsErrorType(p.Type()) {
				if k, ok := x.known[args[i]]; ok && (k == KNil || k == KNonNil) {
					env.Err[p] = k
				} else if c := t.Err.Classify(args[i], nil); c.OnlyNil() {
					env.Err[p] = KNil
				} else if c.NeverNil() {
					env.Err[p] = KNonNil
				}
			}
			if k, ok := lensLookup(x.lens, StripConv(args[i])); ok {
				env.Len[p] = k
			} else if k, ok := lensLookup(x.lens, args[i]); ok {
				env.Len[p] = k
			}
		}
	}
	stack := append(append([]ssa.CallInstruction(nil), x.Stack...), site)
	if len(stack) > 40 {
		t.Problem = append(t.Problem, "call depth exceeded at "+FuncName(callee))
		return []TSOut{{s, KAny}}
	}
	return t.summarise(callee, s, env, stack)
}

func (t *TS) runDefers(x *TSCtx, b *ssa.BasicBlock, i int, ps pstate, run func(*ssa.BasicBlock, int, pstate)) {
	// execute deferred calls in reverse order, forking on their outcomes
	var step func(n int, ps pstate)
	step = func(n int, ps pstate) {
		if n < 0 {
			ps.defers = nil
			run(b, i+1, ps)
			return
		}
		d := ps.defers[n]
		for _, o := range t.dispatch(x, d, &ps) {
			q := ps.clone()
			q.s = o.S
			q.tr = &trail{ps.tr, fmt.Sprintf("%s: deferred %s -> state %s", t.P.Pos(PosOf(d)), callDesc(d), o.S)}
			step(n-1, q)
		}
	}
	step(len(ps.defers)-1, ps)
}

// knownErrArg reports whether some error-typed argument of the call has known nil-ness on this path.
func (t *TS) knownErrArg(x *TSCtx, site ssa.CallInstruction) bool {
	for _, a := range site.Common().Args {
		if IsErrorType(a.Type()) {
			if k, ok := x.known[a]; ok && (k == KNil || k == KNonNil) {
				return true
			}
		}
	}
	return false
}

// lenZeroTest decomposes cond into a test of len(coll) against zero: len == 0, len != 0, len > 0, 0 < len.
func lenZeroTest(cond ssa.Value) (coll ssa.Value, zeroOnTrue bool, ok bool) {
	b, isb := cond.(*ssa.BinOp)
	if !isb {
		return nil, false, false
	}
	x, y := b.X, b.Y
	op := b.Op
	if k, isC := ConstInt(x); isC && k == 0 { // 0 op len  ->  len op' 0
		x, y = y, x
		switch op {
		case token.LSS:
			op = token.GTR
		case token.GEQ:
			op = token.LEQ
		case token.GTR:
			op = token.LSS
		case token.LEQ:
			op = token.GEQ
		}
	}
	k, isC := ConstInt(y)
	if !isC || k != 0 {
		return nil, false, false
	}
	c, isLen := IsLenOf(x)
	if !isLen {
		return nil, false, false
	}
	c = StripConv(c)
	switch op {
	case token.EQL, token.LEQ:
		return c, true, true
	case token.NEQ, token.GTR:
		return c, false, true
	}
	return nil, false, false
}

// lensLookup finds what the path knows about the emptiness of collection v: under v itself, or under another load
// of the same field of the same object (go/ssa does not share loads) when the function never stores that field.
func lensLookup(m map[ssa.Value]int8, v ssa.Value) (int8, bool) {
	if k, ok := m[v]; ok {
		return k, true
	}
	for other, k := range m {
		if sameFieldLoad(other, v, 4) && !storesField(v) {
			return k, true
		}
	}
	return 0, false
}

func sameFieldLoad(a, b ssa.Value, depth int) bool {
	if a == b {
		return true
	}
	if depth == 0 {
		return false
	}
	ua, ok1 := a.(*ssa.UnOp)
	ub, ok2 := b.(*ssa.UnOp)
	if !ok1 || !ok2 || ua.Op != token.MUL || ub.Op != token.MUL {
		return false
	}
	fa, ok1 := ua.X.(*ssa.FieldAddr)
	fb, ok2 := ub.X.(*ssa.FieldAddr)
	if !ok1 || !ok2 || fa.Field != fb.Field || !types.Identical(fa.X.Type(), fb.X.Type()) {
		return false
	}
	return sameFieldLoad(fa.X, fb.X, depth-1)
}

// storesField: the function holding load v contains a store to the same field (of any object of that type).
func storesField(v ssa.Value) bool {
	u, ok := v.(*ssa.UnOp)
	if !ok {
		return true
	}
	fa, ok := u.X.(*ssa.FieldAddr)
	if !ok || u.Parent() == nil {
		return true
	}
	for _, b := range u.Parent().Blocks {
		for _, in := range b.Instrs {
			if st, isSt := in.(*ssa.Store); isSt {
				if sa, isFA := st.Addr.(*ssa.FieldAddr); isFA && sa.Field == fa.Field && types.Identical(sa.X.Type(), fa.X.Type()) {
					return true
				}
			}
		}
	}
	return false
}
