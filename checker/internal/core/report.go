package core

import (
	"bufio"
	"encoding/json"
	"fmt"
	"os"
	"path/filepath"
	"regexp"
	"sort"
	"strings"
	"time"
)

// Obligation is one rule instance: a construct of the analysed tree that a rule was applied to.
type Obligation struct {
	Rule   string   `json:"rule"`
	Key    string   `json:"key"` // rule:function:construct — never a line number
	Where  string   `json:"where"`
	Desc   string   `json:"desc"`
	Status string   `json:"status"` // ok | violation | known
	Detail string   `json:"detail,omitempty"`
	Path   []string `json:"path,omitempty"`
}

// Report collects the obligations of one property run.
type Report struct {
	Prop        string
	Tier        string
	Seed        int
	Explanation string
	Technique   string
	Assumptions []string
	Trusted     []string
	Obls        []*Obligation
	Funcs       map[string]bool
	Counters    map[string]int
	Notes       []string
	Exhaustive  bool
	start       time.Time
	keys        map[string]int
}

func NewReport(prop, tier string, seed int) *Report {
	return &Report{Prop: prop, Tier: tier, Seed: seed, Funcs: map[string]bool{}, Counters: map[string]int{}, start: time.Now(), keys: map[string]int{}}
}

func (r *Report) add(o *Obligation) *Obligation {
	// keys must be unique per construct; repeated constructs get an ordinal suffix (stable: source order)
	r.keys[o.Key]++
	if n := r.keys[o.Key]; n > 1 {
		o.Key = fmt.Sprintf("%s#%d", o.Key, n)
	}
	r.Obls = append(r.Obls, o)
	return o
}

// OK records a discharged obligation.
func (r *Report) OK(rule, key, where, desc, by string) {
	r.add(&Obligation{Rule: rule, Key: rule + ":" + key, Where: where, Desc: desc, Status: "ok", Detail: by})
}

// Fail records a violated (or undecided) obligation.
func (r *Report) Fail(rule, key, where, desc, detail string, path ...string) {
	r.add(&Obligation{Rule: rule, Key: rule + ":" + key, Where: where, Desc: desc, Status: "violation", Detail: detail, Path: path})
}

// Check records ok or violation depending on cond.
func (r *Report) Check(cond bool, rule, key, where, desc, okBy, failDetail string) bool {
	if cond {
		r.OK(rule, key, where, desc, okBy)
	} else {
		r.Fail(rule, key, where, desc, failDetail)
	}
	return cond
}

// Floor fails when a rule matched fewer instances than the confirmed minimum (vacuity guard).
func (r *Report) Floor(rule, what string, n, min int) {
	desc := fmt.Sprintf("instance floor: %s (found %d, need >= %d)", what, n, min)
	if n < min {
		r.Fail(rule, "floor:"+what, "-", desc, "the rule would pass vacuously: its anchor class has fewer instances than confirmed by hand; the anchor no longer resolves")
	} else {
		r.Counters["instances:"+rule+":"+what] = n
	}
}

func (r *Report) Note(format string, a ...any) { r.Notes = append(r.Notes, fmt.Sprintf(format, a...)) }
func (r *Report) Count(name string, n int)     { r.Counters[name] += n }
func (r *Report) Analysed(fn string)           { r.Funcs[fn] = true }

type finding struct {
	Property string `json:"property"`
	Status   string `json:"status"`
	Key      string `json:"key"`
	What     string `json:"what"`
	Commit   string `json:"commit,omitempty"`
}

func loadFindings(path string) ([]finding, error) {
	f, err := os.Open(path)
	if err != nil {
		if os.IsNotExist(err) {
			return nil, nil
		}
		return nil, err
	}
	defer f.Close()
	var out []finding
	sc := bufio.NewScanner(f)
	sc.Buffer(make([]byte, 1<<20), 1<<20)
	for sc.Scan() {
		line := strings.TrimSpace(sc.Text())
		if line == "" {
			continue
		}
		var fd finding
		if err := json.Unmarshal([]byte(line), &fd); err != nil {
			return nil, fmt.Errorf("known_findings: %w", err)
		}
		out = append(out, fd)
	}
	return out, sc.Err()
}

var unsafeName = regexp.MustCompile(`[^A-Za-z0-9_.-]+`)

// Finish prints the verdict lines, writes the evidence file and returns the process exit code.
func (r *Report) Finish(verifDir string, replayKey string) int {
	findings, err := loadFindings(filepath.Join(verifDir, "known_findings.jsonl"))
	if err != nil {
		fmt.Println("ERROR:", err)
		return 2
	}
	open := map[string]finding{}
	for _, f := range findings {
		if f.Property == r.Prop && f.Status == "open" {
			open[f.Key] = f
		}
	}
	sort.SliceStable(r.Obls, func(i, j int) bool { return false })
	violDir := filepath.Join(verifDir, "evidence", "violations", r.Prop)
	os.RemoveAll(violDir)
	nviol, nknown, nok := 0, 0, 0
	seenOpen := map[string]bool{}
	var vlines []string
	for _, o := range r.Obls {
		switch o.Status {
		case "ok":
			nok++
		case "violation":
			if f, ok := open[o.Key]; ok {
				o.Status = "known"
				nknown++
				seenOpen[o.Key] = true
				fmt.Printf("KNOWN-FINDING: property=%s %s — %s\n", r.Prop, o.Key, f.What)
				continue
			}
			nviol++
			os.MkdirAll(violDir, 0o755)
			name := unsafeName.ReplaceAllString(o.Key, "_")
			if len(name) > 150 {
				name = name[:150]
			}
			p := filepath.Join(violDir, name+".json")
			b, _ := json.MarshalIndent(map[string]any{"property": r.Prop, "tier": r.Tier, "obligation": o}, "", " ")
			os.WriteFile(p, b, 0o644)
			fmt.Printf("  rule %s at %s\n    construct: %s\n    checked:   %s\n    failed:    %s\n", o.Rule, o.Where, o.Key, o.Desc, o.Detail)
			for _, s := range o.Path {
				fmt.Printf("      path: %s\n", s)
			}
			vlines = append(vlines, fmt.Sprintf("VIOLATION property=%s replay=%s", r.Prop, p))
		}
	}
	for k := range open {
		if strings.Contains(k, "/386:") && r.Tier != "thorough" {
			continue // decided by the 32-bit pass, which only the thorough tier runs
		}
		if !seenOpen[k] {
			fmt.Printf("NOTE: property=%s open finding no longer reproduces: %s\n", r.Prop, k)
		}
	}
	for _, l := range vlines {
		fmt.Println(l)
	}

	if replayKey != "" {
		for _, o := range r.Obls {
			if o.Key == replayKey {
				b, _ := json.MarshalIndent(o, "", " ")
				fmt.Printf("REPLAY %s\n%s\n", replayKey, b)
			}
		}
	}

	// evidence
	if r.Assumptions == nil {
		r.Assumptions = []string{}
	}
	if r.Trusted == nil {
		r.Trusted = []string{}
	}
	if r.Notes == nil {
		r.Notes = []string{}
	}
	var samples []any
	step := 1
	if len(r.Obls) > 40 {
		step = len(r.Obls) / 40
	}
	for i := 0; i < len(r.Obls); i += step {
		o := r.Obls[i]
		samples = append(samples, map[string]string{"rule": o.Rule, "construct": o.Key, "where": o.Where, "checked": o.Desc, "status": o.Status, "by": o.Detail})
	}
	for _, o := range r.Obls { // always include every non-ok obligation
		if o.Status != "ok" {
			samples = append(samples, map[string]string{"rule": o.Rule, "construct": o.Key, "where": o.Where, "checked": o.Desc, "status": o.Status, "by": o.Detail})
		}
	}
	fnames := make([]string, 0, len(r.Funcs))
	for f := range r.Funcs {
		fnames = append(fnames, f)
	}
	sort.Strings(fnames)
	rules := map[string]int{}
	for _, o := range r.Obls {
		rules[o.Rule]++
	}
	cov := map[string]any{
		"explanation":        r.Explanation,
		"obligations":        len(r.Obls),
		"discharged":         nok,
		"known_findings":     nknown,
		"violations":         nviol,
		"rule_instances":     rules,
		"functions_analysed": len(fnames),
		"functions":          fnames,
		"counters":           r.Counters,
		"samples":            samples,
		"notes":              r.Notes,
		"exhaustive":         r.Exhaustive,
		"trusted_base":       r.Trusted,
		"checker_cmd":        fmt.Sprintf("bin/pwv -prop %s -tier %s", r.Prop, r.Tier),
		"technique":          r.Technique,
	}
	ev := map[string]any{
		"property_id": r.Prop,
		"tier":        r.Tier,
		"seed":        r.Seed,
		"level":       "other",
		"coverage":    cov,
		"assumptions": r.Assumptions,
		"wall_s":      time.Since(r.start).Seconds(),
		"violations":  nviol,
	}
	os.MkdirAll(filepath.Join(verifDir, "evidence"), 0o755)
	b, _ := json.MarshalIndent(ev, "", " ")
	if err := os.WriteFile(filepath.Join(verifDir, "evidence", r.Prop+".json"), b, 0o644); err != nil {
		fmt.Println("ERROR: writing evidence:", err)
		return 2
	}
	fmt.Printf("property=%s tier=%s obligations=%d discharged=%d known=%d violations=%d functions=%d wall=%.1fs\n",
		r.Prop, r.Tier, len(r.Obls), nok, nknown, nviol, len(fnames), time.Since(r.start).Seconds())
	if nviol > 0 {
		return 1
	}
	return 0
}

// OpenFindingKeys returns the obligation keys recorded as open findings of a property.
func OpenFindingKeys(verifDir, prop string) (map[string]bool, error) {
	findings, err := loadFindings(filepath.Join(verifDir, "known_findings.jsonl"))
	if err != nil {
		return nil, err
	}
	out := map[string]bool{}
	for _, f := range findings {
		if f.Property == prop && f.Status == "open" {
			out[f.Key] = true
		}
	}
	return out, nil
}

// Import copies the obligations of rules `wanted` from a report of another property into r under rule id `as`.
// Obligations that are open findings of the source property stay with the source (they are not raised again).
func (r *Report) Import(from *Report, wanted map[string]bool, as string, why string, openOfSource map[string]bool) int {
	n := 0
	for _, o := range from.Obls {
		if !wanted[o.Rule] {
			continue
		}
		if o.Status != "ok" && openOfSource[o.Key] {
			r.Note("shared rule %s: %s is an open finding of %s and is reported there", as, o.Key, from.Prop)
			continue
		}
		n++
		r.add(&Obligation{Rule: as, Key: as + ":" + o.Key, Where: o.Where, Desc: "[" + why + "; rule shared with " + from.Prop + "] " + o.Desc, Status: o.Status, Detail: o.Detail, Path: o.Path})
	}
	for f := range from.Funcs {
		r.Funcs[f] = true
	}
	return n
}
