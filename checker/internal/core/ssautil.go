package core

import (
	"go/constant"
	"go/token"
	"go/types"

	"golang.org/x/tools/go/ssa"
)

// EdgeDominates reports whether the CFG edge from -> from.Succs[idx] dominates block b, i.e. every
// path from the entry to b passes through that edge.
func EdgeDominates(from *ssa.BasicBlock, idx int, b *ssa.BasicBlock) bool {
	if idx >= len(from.Succs) {
		return false
	}
	s := from.Succs[idx]
	if len(from.Succs) == 2 && from.Succs[0] == from.Succs[1] {
		return false
	}
	if !s.Dominates(b) {
		return false
	}
	for _, p := range s.Preds {
		if p == from {
			continue
		}
		if !s.Dominates(p) { // another way into s that does not come through the edge
			return false
		}
	}
	return true
}

// IsNilConst reports whether v is the nil constant.
func IsNilConst(v ssa.Value) bool {
	c, ok := v.(*ssa.Const)
	return ok && c.Value == nil && !isBasicNonNilable(c.Type())
}

func isBasicNonNilable(t types.Type) bool {
	b, ok := t.Underlying().(*types.Basic)
	if !ok {
		return false
	}
	return b.Kind() != types.UnsafePointer && b.Kind() != types.UntypedNil
}

// NilTest decomposes cond into "v != nil" (nonNilOnTrue) or "v == nil".
func NilTest(cond ssa.Value) (v ssa.Value, nonNilOnTrue bool, ok bool) {
	b, isb := cond.(*ssa.BinOp)
	if !isb || (b.Op != token.NEQ && b.Op != token.EQL) {
		return nil, false, false
	}
	switch {
	case IsNilConst(b.Y):
		v = b.X
	case IsNilConst(b.X):
		v = b.Y
	default:
		return nil, false, false
	}
	return v, b.Op == token.NEQ, true
}

// Strip removes value-preserving wrappers (ChangeType, ChangeInterface, MakeInterface optional).
func Strip(v ssa.Value) ssa.Value {
	for {
		switch x := v.(type) {
		case *ssa.ChangeType:
			v = x.X
		case *ssa.ChangeInterface:
			v = x.X
		default:
			return v
		}
	}
}

// StripConv additionally removes numeric conversions.
func StripConv(v ssa.Value) ssa.Value {
	for {
		switch x := v.(type) {
		case *ssa.ChangeType:
			v = x.X
		case *ssa.ChangeInterface:
			v = x.X
		case *ssa.Convert:
			v = x.X
		default:
			return v
		}
	}
}

// ConstInt returns the integer value of a constant (through conversions).
func ConstInt(v ssa.Value) (int64, bool) {
	c, ok := StripConv(v).(*ssa.Const)
	if !ok || c.Value == nil {
		return 0, false
	}
	if c.Value.Kind() != constant.Int {
		return 0, false
	}
	return c.Int64(), true
}

// ConstBool returns the value of a boolean constant.
func ConstBool(v ssa.Value) (bool, bool) {
	c, ok := Strip(v).(*ssa.Const)
	if !ok || c.Value == nil || c.Value.Kind() != constant.Bool {
		return false, false
	}
	return constant.BoolVal(c.Value), true
}

// ConstString returns the string value of a constant.
func ConstString(v ssa.Value) (string, bool) {
	c, ok := Strip(v).(*ssa.Const)
	if !ok || c.Value == nil || c.Value.Kind() != constant.String {
		return "", false
	}
	return constant.StringVal(c.Value), true
}

// BuiltinName returns the name of the builtin called, or "".
func BuiltinName(c *ssa.CallCommon) string {
	if b, ok := c.Value.(*ssa.Builtin); ok {
		return b.Name()
	}
	return ""
}

// IsLenOf reports whether v is len(x) and returns x.
func IsLenOf(v ssa.Value) (ssa.Value, bool) {
	c, ok := v.(*ssa.Call)
	if !ok || BuiltinName(&c.Call) != "len" {
		return nil, false
	}
	return c.Call.Args[0], true
}

// FuncIs reports whether fn is the package-level function pkgpath.name.
func FuncIs(fn *ssa.Function, pkgpath, name string) bool {
	if fn == nil || fn.Pkg == nil || fn.Signature.Recv() != nil {
		return false
	}
	return fn.Pkg.Pkg.Path() == pkgpath && fn.Name() == name
}

// MethodIs reports whether fn is method name on (pointer to) named type pkgpath.typ.
func MethodIs(fn *ssa.Function, pkgpath, typ, name string) bool {
	if fn == nil || fn.Signature.Recv() == nil || fn.Name() != name {
		return false
	}
	n := NamedOf(fn.Signature.Recv().Type())
	if n == nil || n.Obj().Pkg() == nil {
		return false
	}
	return n.Obj().Pkg().Path() == pkgpath && n.Obj().Name() == typ
}

// NamedOf returns the named type behind t (through one pointer).
func NamedOf(t types.Type) *types.Named {
	if p, ok := t.(*types.Pointer); ok {
		t = p.Elem()
	}
	if a, ok := t.(*types.Alias); ok {
		t = types.Unalias(a)
	}
	n, _ := t.(*types.Named)
	return n
}

// IsNamed reports whether t (through one pointer) is pkgpath.name.
func IsNamed(t types.Type, pkgpath, name string) bool {
	n := NamedOf(t)
	return n != nil && n.Obj().Pkg() != nil && n.Obj().Pkg().Path() == pkgpath && n.Obj().Name() == name
}

// InvokeIs reports whether c is an interface method call iface.name.
func InvokeIs(c *ssa.CallCommon, pkgpath, iface, name string) bool {
	if !c.IsInvoke() || c.Method.Name() != name {
		return false
	}
	return IsNamed(c.Value.Type(), pkgpath, iface)
}

// FieldRef describes "x.f" behind an address or a loaded value.
type FieldRef struct {
	Struct *types.Named // may be nil for anonymous structs
	Name   string
	Base   ssa.Value
}

// FieldOfAddr decomposes a FieldAddr value.
func FieldOfAddr(v ssa.Value) (FieldRef, bool) {
	fa, ok := v.(*ssa.FieldAddr)
	if !ok {
		return FieldRef{}, false
	}
	pt, ok := fa.X.Type().Underlying().(*types.Pointer)
	if !ok {
		return FieldRef{}, false
	}
	st, ok := pt.Elem().Underlying().(*types.Struct)
	if !ok {
		return FieldRef{}, false
	}
	return FieldRef{Struct: NamedOf(pt.Elem()), Name: st.Field(fa.Field).Name(), Base: fa.X}, true
}

// FieldOfValue decomposes a value that is a load of a struct field (x.f) or a Field of a struct value.
func FieldOfValue(v ssa.Value) (FieldRef, bool) {
	switch x := v.(type) {
	case *ssa.UnOp:
		if x.Op == token.MUL {
			return FieldOfAddr(x.X)
		}
	case *ssa.Field:
		st, ok := x.X.Type().Underlying().(*types.Struct)
		if !ok {
			return FieldRef{}, false
		}
		return FieldRef{Struct: NamedOf(x.X.Type()), Name: st.Field(x.Field).Name(), Base: x.X}, true
	}
	return FieldRef{}, false
}

// Is reports whether the field reference is Struct.Name of the given package-qualified struct.
func (f FieldRef) Is(pkgpath, typ, field string) bool {
	if f.Struct == nil || f.Struct.Obj().Pkg() == nil || f.Struct.Obj().Pkg().Path() != pkgpath {
		return false
	}
	if f.Name != field {
		return f.Struct.Obj().Name() == typ && renamedField(f.Struct, typ, field) == f.Name
	}
	if f.Struct.Obj().Name() == typ {
		return true
	}
	// a field of a struct embedded in typ is a (promoted) field of typ
	outer, _ := f.Struct.Obj().Pkg().Scope().Lookup(typ).(*types.TypeName)
	if outer == nil {
		return false
	}
	return embeds(outer.Type(), f.Struct, 3)
}

func embeds(outer types.Type, inner *types.Named, depth int) bool {
	st, ok := outer.Underlying().(*types.Struct)
	if !ok || depth == 0 {
		return false
	}
	for i := 0; i < st.NumFields(); i++ {
		fl := st.Field(i)
		if !fl.Embedded() {
			continue
		}
		t := fl.Type()
		if p, isP := t.Underlying().(*types.Pointer); isP {
			t = p.Elem()
		}
		if n, isN := t.(*types.Named); isN && (n.Obj() == inner.Obj() || embeds(n, inner, depth-1)) {
			return true
		}
	}
	return false
}

// ErrorResultIndex returns the index of the last result of type error, or -1.
func ErrorResultIndex(sig *types.Signature) int {
	r := sig.Results()
	for i := r.Len() - 1; i >= 0; i-- {
		if IsErrorType(r.At(i).Type()) {
			return i
		}
	}
	return -1
}

// IsErrorType reports whether t is the predeclared error interface.
func IsErrorType(t types.Type) bool {
	return types.Identical(t, types.Universe.Lookup("error").Type())
}

// Referrers returns the non-debug referrers of v.
func Referrers(v ssa.Value) []ssa.Instruction {
	r := v.Referrers()
	if r == nil {
		return nil
	}
	out := make([]ssa.Instruction, 0, len(*r))
	for _, in := range *r {
		if _, dbg := in.(*ssa.DebugRef); dbg {
			continue
		}
		out = append(out, in)
	}
	return out
}

// InstrIndex returns the index of in within its block.
func InstrIndex(in ssa.Instruction) int {
	for i, x := range in.Block().Instrs {
		if x == in {
			return i
		}
	}
	return -1
}

// InstrDominates reports whether instruction a is executed before b on every path reaching b.
func InstrDominates(a, b ssa.Instruction) bool {
	if a.Block() == b.Block() {
		return InstrIndex(a) < InstrIndex(b)
	}
	return a.Block().Dominates(b.Block())
}

// Loop describes a natural loop.
type Loop struct {
	Header *ssa.BasicBlock
	Body   map[*ssa.BasicBlock]bool
}

// Loops computes the natural loops of fn (merged per header).
func Loops(fn *ssa.Function) map[*ssa.BasicBlock]*Loop {
	out := map[*ssa.BasicBlock]*Loop{}
	for _, b := range fn.Blocks {
		for _, s := range b.Succs {
			if s.Dominates(b) { // back edge b -> s
				l := out[s]
				if l == nil {
					l = &Loop{Header: s, Body: map[*ssa.BasicBlock]bool{s: true}}
					out[s] = l
				}
				// collect nodes that can reach b without passing through s
				stack := []*ssa.BasicBlock{b}
				for len(stack) > 0 {
					n := stack[len(stack)-1]
					stack = stack[:len(stack)-1]
					if l.Body[n] {
						continue
					}
					l.Body[n] = true
					stack = append(stack, n.Preds...)
				}
			}
		}
	}
	return out
}

// PosOf returns a usable position for an instruction (falls back to the block's first positioned instr).
func PosOf(in ssa.Instruction) token.Pos {
	if in.Pos().IsValid() {
		return in.Pos()
	}
	if v, ok := in.(ssa.Value); ok {
		for _, r := range Referrers(v) {
			if r.Pos().IsValid() {
				return r.Pos()
			}
		}
	}
	for _, x := range in.Block().Instrs {
		if x.Pos().IsValid() {
			return x.Pos()
		}
	}
	return in.Parent().Pos()
}

// fieldRoles: what an unexported anchor field is, so that it is still found after a rename: when the struct has no
// field of the frozen name, the single field of the struct that satisfies the predicate takes the role.
var fieldRoles = map[string]func(types.Type) bool{
	"Server.wg":      func(t types.Type) bool { return IsNamed(t, "sync", "WaitGroup") },
	"Server.closing": func(t types.Type) bool { return IsNamed(t, "sync/atomic", "Bool") },
	"Server.mu": func(t types.Type) bool {
		return IsNamed(t, "sync", "RWMutex") || IsNamed(t, "sync", "Mutex")
	},
	"Server.closer": func(t types.Type) bool { _, ok := t.Underlying().(*types.Chan); return ok },
	"Server.types": func(t types.Type) bool {
		sl, ok := t.(*types.Slice)
		if !ok {
			return false
		}
		_, isF := sl.Elem().Underlying().(*types.Signature)
		return isF
	},
	"Writer.err":   IsErrorType,
	"Writer.frame": func(t types.Type) bool { return IsNamed(t, "bytes", "Buffer") },
	"Reader.header": func(t types.Type) bool {
		a, ok := t.(*types.Array)
		return ok && a.Len() == 4
	},
	"DefaultStatementCache.statements": func(t types.Type) bool { _, ok := t.Underlying().(*types.Map); return ok },
	"DefaultPortalCache.portals":       func(t types.Type) bool { _, ok := t.Underlying().(*types.Map); return ok },
	"dataWriter.columns":               func(t types.Type) bool { n := NamedOf(t); return n != nil && n.Obj().Name() == "Columns" },
	"Statement.parameters":             func(t types.Type) bool { _, ok := t.(*types.Slice); return ok },
	"PreparedStatement.parameters":     func(t types.Type) bool { _, ok := t.(*types.Slice); return ok },
	"Statement.columns":                isNamedT("Columns"),
	"PreparedStatement.columns":        isNamedT("Columns"),
	"Statement.fn":                     isNamedT("PreparedStatementFn"),
	"PreparedStatement.fn":             isNamedT("PreparedStatementFn"),
	"Portal.statement":                 func(t types.Type) bool { _, ok := t.(*types.Pointer); return ok },
	"Portal.parameters":                sliceOfT("Parameter"),
	"Portal.formats":                   sliceOfT("FormatCode"),
	"dataWriter.formats":               sliceOfT("FormatCode"),
	"BinaryCopyReader.scanners":        sliceOfT("Scanner"),
	"BinaryCopyReader.reader":          func(t types.Type) bool { p, ok := t.(*types.Pointer); return ok && isNamedT("CopyReader")(p.Elem()) },
}

func isNamedT(name string) func(types.Type) bool {
	return func(t types.Type) bool { n, ok := t.(*types.Named); return ok && n.Obj().Name() == name }
}

func sliceOfT(name string) func(types.Type) bool {
	return func(t types.Type) bool {
		sl, ok := t.(*types.Slice)
		return ok && isNamedT(name)(sl.Elem())
	}
}

// CanonFieldName gives the frozen name of an anchor field that was renamed (see fieldRoles), or the name itself.
func CanonFieldName(named *types.Named, actual string) string {
	if named == nil {
		return actual
	}
	tn := named.Obj().Name()
	for key := range fieldRoles {
		if len(key) > len(tn)+1 && key[:len(tn)+1] == tn+"." {
			if renamedField(named, tn, key[len(tn)+1:]) == actual {
				return key[len(tn)+1:]
			}
		}
	}
	return actual
}

func renamedField(named *types.Named, typ, field string) string {
	role, ok := fieldRoles[typ+"."+field]
	if !ok {
		return ""
	}
	st, ok := named.Underlying().(*types.Struct)
	if !ok {
		return ""
	}
	found := ""
	for i := 0; i < st.NumFields(); i++ {
		fl := st.Field(i)
		if fl.Name() == field {
			return "" // the frozen name exists: no renaming
		}
		if role(fl.Type()) {
			if found != "" {
				return "" // ambiguous
			}
			found = fl.Name()
		}
	}
	return found
}
