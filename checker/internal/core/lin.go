package core

import (
	"fmt"
	"go/constant"
	"go/token"
	"go/types"
	"os"
	"regexp/syntax"
	"strings"
	"sync"

	"golang.org/x/tools/go/ssa"
)

// E-LIN: linear (difference-constraint) facts about integers, slice lengths and capacities.
// A fact has the form  x - y <= k  over terms; facts are collected from the branch edges that dominate
// the program point, from the definitions of the SSA values involved, from a small table of trusted
// library contracts and from verified summaries of the library's own functions. Queries are decided by
// shortest-path closure; phi / memory-merge terms are split per incoming edge (goal-directed).

type TermKind uint8

const (
	TZero TermKind = iota
	TVal           // integer value
	TLen           // len of a slice / string value
	TCap           // cap of a slice value
)

// Term is a node of the constraint graph.
type Term struct {
	K TermKind
	V ssa.Value // SSA value (nil when M is set)
	M *MemVal   // memory definition (entry / post-call / merge) when the value is only known as a field content
}

func (t Term) key() string {
	if t.K == TZero {
		return "0"
	}
	if t.M != nil {
		return fmt.Sprintf("%d:m%p", t.K, t.M)
	}
	return fmt.Sprintf("%d:v%p", t.K, t.V)
}

func (t Term) String() string {
	n := "?"
	if t.M != nil {
		n = t.M.String()
	} else if t.V != nil {
		n = t.V.Name()
		if c, ok := t.V.(*ssa.Const); ok {
			n = c.String()
		}
		if p, ok := t.V.(*ssa.Parameter); ok {
			n = p.Name()
		}
	}
	switch t.K {
	case TZero:
		return "0"
	case TLen:
		return "len(" + n + ")"
	case TCap:
		return "cap(" + n + ")"
	}
	return n
}

var Zero = Term{K: TZero}

type fact struct {
	x, y Term
	k    int64 // x - y <= k
	why  string
}

type diseq struct {
	x, y Term
	k    int64 // x - y != k
}

// Lin is the prover for one function.
type Lin struct {
	P       *Prog
	Fn      *ssa.Function
	FM      *FieldMem
	Mods    *ModSets
	Assume  []fact // preconditions of the function (lifted to its call sites by the caller of the prover)
	Summary *Summaries
	depth   int
	// Trace of the last successful proof (for evidence)
	Last        string
	lastPattern *syntax.Regexp
}

// Summaries are verified post-conditions of library functions used as axioms at their call sites.
type Summaries struct {
	// ResetLen: after (*Reader).reset(r, n): len(r.Msg) == n     (verified by C03.R2 in the same run)
	ResetLen *ssa.Function
	// GetBytesLen: result #0 of (*Reader).GetBytes(n) has length n on the err == nil edge
	GetBytesLen *ssa.Function
	// FrameMin: in (*Writer).End the frame holds at least 5 bytes (INV-frame, established by C02)
	FrameEnd *ssa.Function
	// FrameEndSteps: private steps of End (only caller: End) that work on the same open frame
	FrameEndSteps map[*ssa.Function]bool
	// MaxPositive: Reader.MaxMessageSize >= 1 (INV-max: stored only by NewReader after defaulting)
	MaxPositive bool
}

func NewLin(p *Prog, fn *ssa.Function, mods *ModSets, sum *Summaries) *Lin {
	return &Lin{P: p, Fn: fn, FM: BuildFieldMem(fn, mods), Mods: mods, Summary: sum}
}

// AssumeGE adds the precondition v >= k.
func (l *Lin) AssumeGE(v ssa.Value, k int64, why string) {
	t, off := l.Expr(v)
	l.Assume = append(l.Assume, fact{Zero, t, off - k, why}) // 0 - t <= off - k   <=>  t + off >= k
}

// AssumeLE adds the precondition v <= w + k.
func (l *Lin) AssumeLE(v ssa.Value, w Term, k int64, why string) {
	t, off := l.Expr(v)
	l.Assume = append(l.Assume, fact{t, w, k - off, why})
}

// FactLE builds the fact x <= y + k for use as an assumption.
func (l *Lin) FactLE(x, y Term, k int64) fact { return fact{x, y, k, "precondition"} }

// resolve follows field loads to the value stored last, and strips type-only conversions.
func (l *Lin) resolve(v ssa.Value) (ssa.Value, *MemVal) {
	for i := 0; i < 20; i++ {
		switch x := v.(type) {
		case *ssa.ChangeType:
			v = x.X
			continue
		case *ssa.UnOp:
			if x.Op == token.MUL {
				// every load of a package variable that is only assigned by its initialiser denotes the same value
				if g, isG := x.X.(*ssa.Global); isG && l.P != nil && l.P.WriteOnceGlobal(g) {
					return g, nil
				}
				if mv, ok := l.FM.Loads[x]; ok {
					if mv.Kind == MStore {
						v = mv.Val
						continue
					}
					return nil, mv
				}
			}
		}
		break
	}
	return v, nil
}

func (l *Lin) term(k TermKind, v ssa.Value) Term {
	rv, mv := l.resolve(v)
	if mv != nil {
		return Term{K: k, M: mv}
	}
	return Term{K: k, V: rv}
}

// LenOf / CapOf / ValOf build terms for a value.
func (l *Lin) LenOf(v ssa.Value) Term { return l.term(TLen, v) }
func (l *Lin) CapOf(v ssa.Value) Term { return l.term(TCap, v) }

// Expr translates an integer SSA value into term + offset.
func (l *Lin) Expr(v ssa.Value) (Term, int64) {
	var off int64
	for i := 0; i < 30; i++ {
		rv, mv := l.resolve(v)
		if mv != nil {
			return Term{K: TVal, M: mv}, off
		}
		v = rv
		switch x := v.(type) {
		case *ssa.Const:
			if x.Value != nil && x.Value.Kind() == constant.Int {
				if i64, ok := constant.Int64Val(x.Value); ok {
					return Zero, off + i64
				}
			}
			return Term{K: TVal, V: v}, off
		case *ssa.Call:
			switch BuiltinName(&x.Call) {
			case "len":
				return l.LenOf(x.Call.Args[0]), off
			case "cap":
				return l.CapOf(x.Call.Args[0]), off
			}
			return Term{K: TVal, V: v}, off
		case *ssa.BinOp:
			// linear only where the arithmetic cannot wrap silently: int / int64 (and uintptr-free code). Unsigned
			// and narrow types wrap (uint32(h) - 4 is 4294967292 for h == 0): such a result is an opaque value
			if bt, ok := x.Type().Underlying().(*types.Basic); !ok || (bt.Kind() != types.Int && bt.Kind() != types.Int64 && bt.Kind() != types.UntypedInt) {
				return Term{K: TVal, V: v}, off
			}
			switch x.Op {
			case token.ADD:
				if c, ok := constIntOf(x.Y); ok {
					off += c
					v = x.X
					continue
				}
				if c, ok := constIntOf(x.X); ok {
					off += c
					v = x.Y
					continue
				}
			case token.SUB:
				if c, ok := constIntOf(x.Y); ok {
					off -= c
					v = x.X
					continue
				}
			}
			return Term{K: TVal, V: v}, off
		case *ssa.Convert:
			if l.valuePreserving(x.X.Type(), x.Type()) {
				v = x.X
				continue
			}
			return Term{K: TVal, V: v}, off
		}
		return Term{K: TVal, V: v}, off
	}
	return Term{K: TVal, V: v}, off
}

func constIntOf(v ssa.Value) (int64, bool) {
	c, ok := v.(*ssa.Const)
	if !ok || c.Value == nil || c.Value.Kind() != constant.Int {
		return 0, false
	}
	return constant.Int64Val(c.Value)
}

// intInfo returns (bits, signed) of an integer type.
func (l *Lin) intInfo(t types.Type) (int, bool, bool) {
	b, ok := t.Underlying().(*types.Basic)
	if !ok || b.Info()&types.IsInteger == 0 {
		return 0, false, false
	}
	signed := b.Info()&types.IsUnsigned == 0
	switch b.Kind() {
	case types.Int8, types.Uint8:
		return 8, signed, true
	case types.Int16, types.Uint16:
		return 16, signed, true
	case types.Int32, types.Uint32:
		return 32, signed, true
	case types.Int64, types.Uint64:
		return 64, signed, true
	case types.Int, types.Uint, types.Uintptr:
		return l.P.WordBits, signed, true
	}
	return 0, false, false
}

// valuePreserving: converting any value of type from to type to keeps its mathematical value.
func (l *Lin) valuePreserving(from, to types.Type) bool {
	fb, fs, ok1 := l.intInfo(from)
	tb, ts, ok2 := l.intInfo(to)
	if !ok1 || !ok2 {
		return false
	}
	switch {
	case !fs && !ts:
		return tb >= fb
	case !fs && ts:
		return tb > fb
	case fs && ts:
		return tb >= fb
	}
	return false // signed -> unsigned can wrap
}

// ---------- fact collection

type edgeCond struct {
	iff *ssa.If
	idx int
}

type system struct {
	idx   map[string]int
	terms []Term
	d     [][]int64
	why   map[[2]int]string
	dis   []diseq
}

const inf = int64(1) << 60

func (s *system) id(t Term) int {
	k := t.key()
	if i, ok := s.idx[k]; ok {
		return i
	}
	i := len(s.terms)
	s.idx[k] = i
	s.terms = append(s.terms, t)
	for j := range s.d {
		s.d[j] = append(s.d[j], inf)
	}
	row := make([]int64, i+1)
	for j := range row {
		row[j] = inf
	}
	row[i] = 0
	s.d = append(s.d, row)
	return i
}

func (s *system) add(f fact) bool {
	i, j := s.id(f.x), s.id(f.y)
	if i == j {
		return false
	}
	if f.k < s.d[i][j] {
		s.d[i][j] = f.k
		s.why[[2]int{i, j}] = f.why
		return true
	}
	return false
}

func (s *system) close() {
	n := len(s.terms)
	for k := 0; k < n; k++ {
		for i := 0; i < n; i++ {
			if s.d[i][k] >= inf {
				continue
			}
			for j := 0; j < n; j++ {
				if s.d[k][j] >= inf {
					continue
				}
				if v := s.d[i][k] + s.d[k][j]; v < s.d[i][j] {
					s.d[i][j] = v
				}
			}
		}
	}
}

// build collects every fact valid at instruction `at` (plus the extra edge conditions).
func (l *Lin) build(at ssa.Instruction, extra []edgeCond, seeds []Term) *system {
	s := &system{idx: map[string]int{}, why: map[[2]int]string{}}
	s.id(Zero)
	for _, f := range l.Assume {
		s.add(f)
	}
	blk := at.Block()
	// branch conditions on dominating edges
	for _, b := range l.Fn.Blocks {
		iff, ok := b.Instrs[len(b.Instrs)-1].(*ssa.If)
		if !ok {
			continue
		}
		for idx := 0; idx < 2; idx++ {
			if EdgeDominates(b, idx, blk) {
				l.addCond(s, iff.Cond, idx == 0)
			}
		}
	}
	for _, e := range extra {
		l.addCond(s, e.iff.Cond, e.idx == 0)
	}
	for _, t := range seeds {
		s.id(t)
	}
	// axioms of every term (terms introduced by axioms get theirs too)
	axDone := 0
	applyAxioms := func() bool {
		grew := axDone < len(s.terms)
		for ; axDone < len(s.terms) && axDone < 200; axDone++ {
			l.axioms(s, s.terms[axDone], at)
		}
		return grew
	}
	applyAxioms()
	s.close()
	// operands of difference / min / max terms join the system (with their own axioms) before the derived-bound passes
	for i := 0; i < len(s.terms) && i < 200; i++ {
		t := s.terms[i]
		if t.K != TVal || t.V == nil {
			continue
		}
		switch v := t.V.(type) {
		case *ssa.BinOp:
			if v.Op == token.SUB && isIntOrLen(v) {
				if _, isC := v.X.(*ssa.Const); !isC {
					if _, isC2 := v.Y.(*ssa.Const); !isC2 {
						xt, _ := l.Expr(v.X)
						yt, _ := l.Expr(v.Y)
						s.id(xt)
						s.id(yt)
					}
				}
			}
		case *ssa.Call:
			if n := BuiltinName(&v.Call); n == "min" || n == "max" {
				for _, a := range v.Call.Args {
					at2, _ := l.Expr(a)
					s.id(at2)
				}
			}
		}
	}
	if applyAxioms() {
		s.close()
	}
	// min(a, b, ..) >= the smallest lower bound of its operands; max(..) <= the largest upper bound
	for i := 0; i < len(s.terms); i++ {
		t := s.terms[i]
		if t.K != TVal || t.V == nil {
			continue
		}
		call, ok := t.V.(*ssa.Call)
		if !ok {
			continue
		}
		name := BuiltinName(&call.Call)
		if name != "min" && name != "max" {
			continue
		}
		zi := s.id(Zero)
		bound, have := int64(0), true
		for n, a := range call.Call.Args {
			at2, off := l.Expr(a)
			ai := s.id(at2)
			var b int64
			if name == "min" {
				if s.d[zi][ai] >= inf {
					have = false
					break
				}
				b = s.d[zi][ai] - off // 0 - a' <= d  =>  a >= off - d ; keep as "0 - a <= b"
			} else {
				if s.d[ai][zi] >= inf {
					have = false
					break
				}
				b = s.d[ai][zi] + off
			}
			if n == 0 || b > bound {
				bound = b
			}
		}
		if !have || len(call.Call.Args) == 0 {
			continue
		}
		changed := false
		if name == "min" {
			changed = s.add(fact{Zero, t, bound, "min lower bound"})
		} else {
			changed = s.add(fact{t, Zero, bound, "max upper bound"})
		}
		if changed {
			s.close()
		}
	}
	// difference terms: t = a - b (two non-constant, provably non-negative operands, so the subtraction cannot wrap)
	// inherits the bounds the system knows for a - b, and t <= a
	for round := 0; round < 2; round++ {
		changed := false
		for i := 0; i < len(s.terms); i++ {
			t := s.terms[i]
			if t.K != TVal || t.V == nil {
				continue
			}
			sub, ok := t.V.(*ssa.BinOp)
			if !ok || sub.Op != token.SUB || !isIntOrLen(sub) {
				continue
			}
			if _, isC := sub.X.(*ssa.Const); isC {
				continue
			}
			if _, isC := sub.Y.(*ssa.Const); isC {
				continue
			}
			at, ao := l.Expr(sub.X)
			bt, bo := l.Expr(sub.Y)
			ai, bi, zi := s.id(at), s.id(bt), s.id(Zero)
			if len(s.terms) > 200 {
				break
			}
			// both operands non-negative: 0 - a <= ao' ...
			if s.d[zi][ai] >= inf || s.d[zi][ai]-ao > 0 || s.d[zi][bi] >= inf || s.d[zi][bi]-bo > 0 {
				continue
			}
			ti := s.id(t)
			// (a+ao) - (b+bo) <= u  =>  t <= u
			if s.d[ai][bi] < inf {
				if s.add(fact{t, Zero, s.d[ai][bi] + ao - bo, "difference term"}) {
					changed = true
				}
			}
			// (b+bo) - (a+ao) <= k  =>  t >= -k  =>  0 - t <= k
			if s.d[bi][ai] < inf {
				if s.add(fact{Zero, t, s.d[bi][ai] + bo - ao, "difference term"}) {
					changed = true
				}
			}
			// t <= a + ao
			if s.add(fact{t, at, ao, "difference term (subtrahend >= 0)"}) {
				changed = true
			}
			_ = ti
		}
		if !changed {
			break
		}
		s.close()
	}
	// disequalities: x - y != k together with x - y <= k gives x - y <= k-1 (and symmetrically)
	for round := 0; round < 3; round++ {
		changed := false
		for _, dq := range s.dis {
			i, j := s.id(dq.x), s.id(dq.y)
			if s.d[i][j] == dq.k {
				s.d[i][j] = dq.k - 1
				changed = true
			}
			if s.d[j][i] == -dq.k {
				s.d[j][i] = -dq.k - 1
				changed = true
			}
		}
		if !changed {
			break
		}
		s.close()
	}
	return s
}

func isIntOrLen(v ssa.Value) bool {
	b, ok := v.Type().Underlying().(*types.Basic)
	return ok && b.Info()&types.IsInteger != 0
}

func (l *Lin) addCond(s *system, cond ssa.Value, truth bool) {
	b, ok := cond.(*ssa.BinOp)
	if !ok {
		if u, ok := cond.(*ssa.UnOp); ok && u.Op == token.NOT {
			l.addCond(s, u.X, !truth)
		}
		if call, ok := cond.(*ssa.Call); ok {
			for _, f := range l.predicateFacts(call, truth) {
				s.add(f)
			}
		}
		return
	}
	// slice == nil  =>  len == 0, cap == 0
	if (b.Op == token.EQL || b.Op == token.NEQ) && (IsNilConst(b.Y) || IsNilConst(b.X)) {
		v := b.X
		if IsNilConst(b.X) {
			v = b.Y
		}
		if _, isSlice := v.Type().Underlying().(*types.Slice); isSlice {
			if (b.Op == token.EQL) == truth {
				s.add(fact{l.LenOf(v), Zero, 0, "== nil"})
				s.add(fact{l.CapOf(v), Zero, 0, "== nil"})
			}
		}
		return
	}
	if !isIntOrLen(b.X) || !isIntOrLen(b.Y) {
		return
	}
	x, xo := l.Expr(b.X)
	y, yo := l.Expr(b.Y)
	// (x + xo) op (y + yo)
	op := b.Op
	if !truth {
		switch op {
		case token.LSS:
			op = token.GEQ
		case token.LEQ:
			op = token.GTR
		case token.GTR:
			op = token.LEQ
		case token.GEQ:
			op = token.LSS
		case token.EQL:
			op = token.NEQ
		case token.NEQ:
			op = token.EQL
		}
	}
	why := "branch " + b.String()
	switch op {
	case token.LSS: // x+xo < y+yo  =>  x - y <= yo - xo - 1
		s.add(fact{x, y, yo - xo - 1, why})
	case token.LEQ:
		s.add(fact{x, y, yo - xo, why})
	case token.GTR:
		s.add(fact{y, x, xo - yo - 1, why})
	case token.GEQ:
		s.add(fact{y, x, xo - yo, why})
	case token.EQL:
		s.add(fact{x, y, yo - xo, why})
		s.add(fact{y, x, xo - yo, why})
	case token.NEQ:
		s.id(x)
		s.id(y)
		s.dis = append(s.dis, diseq{x, y, yo - xo})
	}
}

func (l *Lin) unsignedMax(t types.Type) (int64, bool) {
	bits, signed, ok := l.intInfo(t)
	if !ok || signed {
		return 0, false
	}
	if bits >= 63 {
		return 0, true // only the lower bound is usable
	}
	return (int64(1) << uint(bits)) - 1, true
}

// axioms adds the intrinsic facts of a term.
func (l *Lin) axioms(s *system, t Term, at ssa.Instruction) {
	eq := func(a Term, b Term, k int64, why string) { // a == b + k
		s.add(fact{a, b, k, why})
		s.add(fact{b, a, -k, why})
	}
	switch t.K {
	case TLen:
		s.add(fact{Zero, t, 0, "len >= 0"})
		if t.V != nil {
			if _, isStr := t.V.Type().Underlying().(*types.Basic); !isStr {
				s.add(fact{t, Term{K: TCap, V: t.V}, 0, "len <= cap"})
			}
		} else {
			s.add(fact{t, Term{K: TCap, M: t.M}, 0, "len <= cap"})
		}
	case TCap:
		s.add(fact{Zero, t, 0, "cap >= 0"})
		s.add(fact{Term{K: TLen, V: t.V, M: t.M}, t, 0, "len <= cap"})
	case TVal:
		var typ types.Type
		if t.V != nil {
			typ = t.V.Type()
		} else if t.M != nil && t.M.Base != nil {
			if pt, ok := t.M.Base.Type().Underlying().(*types.Pointer); ok {
				if st, ok := pt.Elem().Underlying().(*types.Struct); ok {
					for i := 0; i < st.NumFields(); i++ {
						if st.Field(i).Name() == t.M.Field {
							typ = st.Field(i).Type()
						}
					}
				}
			}
		}
		if typ != nil {
			if mx, ok := l.unsignedMax(typ); ok {
				s.add(fact{Zero, t, 0, "unsigned >= 0"})
				if mx > 0 {
					s.add(fact{t, Zero, mx, "unsigned <= max"})
				}
			}
		}
	}
	// memory terms
	if t.M != nil {
		m := t.M
		if m.Field == "MaxMessageSize" && t.K == TVal && l.Summary != nil && l.Summary.MaxPositive {
			s.add(fact{Zero, t, -1, "INV-max: MaxMessageSize >= 1"})
		}
		if m.Kind == MPost && m.Call != nil && l.Summary != nil && m.Field == "Msg" && t.K == TLen {
			if callee := StaticCallee(m.Call); callee != nil && callee == l.Summary.ResetLen {
				a, off := l.Expr(m.Call.Common().Args[1])
				eq(t, a, off, "summary: after reset(n) len(Msg) == n")
			}
		}
		return
	}
	if t.V == nil {
		return
	}
	switch v := t.V.(type) {
	case *ssa.Const:
		if v.Value == nil && (t.K == TLen || t.K == TCap) {
			eq(t, Zero, 0, "nil slice")
		}
		if t.K == TLen && v.Value != nil && v.Value.Kind() == constant.String {
			eq(t, Zero, int64(len(constant.StringVal(v.Value))), "constant string")
		}
	case *ssa.MakeSlice:
		if t.K == TLen {
			a, off := l.Expr(v.Len)
			eq(t, a, off, "make len")
		} else if t.K == TCap {
			a, off := l.Expr(v.Cap)
			eq(t, a, off, "make cap")
		}
	case *ssa.Slice:
		l.sliceAxioms(s, t, v)
	case *ssa.Phi:
		if t.K == TVal {
			// induction variable: phi(c, phi + k) with k >= 0  =>  phi >= c
			var c0 int64
			hasC, okStep := false, true
			for _, e := range v.Edges {
				if c, ok := constIntOf(e); ok {
					if !hasC || c < c0 {
						c0 = c
					}
					hasC = true
					continue
				}
				et, eo := l.Expr(e)
				if et.K == TVal && et.V == ssa.Value(v) && eo >= 0 {
					continue
				}
				// phi + x with x intrinsically non-negative (a byte count, a length, an unsigned value)
				if add, isAdd := e.(*ssa.BinOp); isAdd && add.Op == token.ADD {
					other := add.Y
					if add.Y == ssa.Value(v) {
						other = add.X
					}
					if (add.X == ssa.Value(v) || add.Y == ssa.Value(v)) && l.intrinsicNonNeg(other) {
						continue
					}
				}
				okStep = false
			}
			if hasC && okStep {
				s.add(fact{Zero, t, -c0, "induction lower bound"})
			}
		}
	case *ssa.Extract:
		call, ok := v.Tuple.(*ssa.Call)
		if !ok {
			return
		}
		callee := StaticCallee(call)
		switch {
		case FuncIs(callee, "io", "ReadFull") && v.Index == 0 && t.K == TVal:
			buf := l.LenOf(call.Call.Args[1])
			s.add(fact{Zero, t, 0, "ReadFull n >= 0"})
			s.add(fact{t, buf, 0, "ReadFull n <= len(buf)"})
			if l.onNilEdge(call, 1, at) {
				s.add(fact{buf, t, 0, "ReadFull: n == len(buf) when err == nil"})
			}
		case FuncIs(callee, "strconv", "Atoi") && v.Index == 0 && t.K == TVal:
			if l.digitsOnlyGroup(call.Call.Args[0]) {
				s.add(fact{Zero, t, 0, "strconv.Atoi of a digits-only capture group (or \"\"): >= 0 (saturates on range errors)"})
			}
		case l.Summary != nil && callee != nil && callee == l.Summary.GetBytesLen && v.Index == 0 && t.K == TLen:
			if l.onNilEdge(call, 1, at) {
				a, off := l.Expr(call.Call.Args[1])
				eq(t, a, off, "summary: GetBytes(n) returns n bytes when err == nil")
			}
		case t.K == TLen && callee != nil && l.P != nil && l.P.InScope(callee) && len(callee.Blocks) > 0 && onNilEdgeOrNoErr(l, call, at):
			// a helper of the scope whose successful returns all hand back make(T, param): len(result) == argument
			if pi, ok := returnsMakeOfParam(callee, v.Index); ok && pi < len(call.Call.Args) {
				a, off := l.Expr(call.Call.Args[pi])
				eq(t, a, off, "callee returns make(.., its parameter)")
			}
		}
	case *ssa.Call:
		callee := StaticCallee(v)
		switch {
		case FuncIs(callee, "bytes", "IndexByte") && t.K == TVal:
			s.add(fact{Zero, t, 1, "IndexByte >= -1"})
			s.add(fact{t, l.LenOf(v.Call.Args[0]), -1, "IndexByte < len"})
		case BuiltinName(&v.Call) == "min" && t.K == TVal:
			for _, a := range v.Call.Args {
				at2, off := l.Expr(a)
				s.add(fact{t, at2, off, "min"})
			}
		case BuiltinName(&v.Call) == "max" && t.K == TVal:
			for _, a := range v.Call.Args {
				at2, off := l.Expr(a)
				s.add(fact{at2, t, -off, "max"})
			}
		case t.K == TLen && callee != nil && l.Summary != nil && l.Summary.FrameEndSteps[callee] && (l.Summary.FrameEnd == l.Fn || l.Summary.FrameEndSteps[l.Fn]):
			// a private step of End that hands back the frame's bytes
			all, n := true, 0
			for _, b := range callee.Blocks {
				ret, ok := b.Instrs[len(b.Instrs)-1].(*ssa.Return)
				if !ok || b == callee.Recover || len(ret.Results) != 1 {
					continue
				}
				n++
				inner, isCall := ret.Results[0].(*ssa.Call)
				if !isCall || !MethodIs(StaticCallee(inner), "bytes", "Buffer", "Bytes") {
					all = false
				}
			}
			if all && n > 0 {
				s.add(fact{Zero, t, -5, "INV-frame: a step of End returns the open frame's bytes (5-byte header)"})
			}
		case t.K == TLen && callee != nil && l.P != nil && l.P.InScope(callee) && len(callee.Blocks) > 0 && callee.Signature.Results().Len() == 1:
			// a helper of the scope whose every result has exactly the length of one of its int parameters
			// (nextWindow(window, size) -> size), proved inside the helper
			if pi, ok := l.lenResultIsParam(callee); ok && pi < len(v.Call.Args) {
				a, off := l.Expr(v.Call.Args[pi])
				eq(t, a, off, "callee proves len(result) == its parameter")
			}
		case callee != nil && callee.Name() == "Bytes" && MethodIs(callee, "bytes", "Buffer", "Bytes") && t.K == TLen:
			if l.Summary != nil && (l.Summary.FrameEnd == l.Fn || l.Summary.FrameEndSteps[l.Fn]) {
				s.add(fact{Zero, t, -5, "INV-frame: an open frame holds its 5-byte header"})
			}
		}
	case *ssa.UnOp:
		// element of [][]string returned by Regexp.FindAllStringSubmatch: 1 + NumSubexp entries
		if t.K == TLen && v.Op == token.MUL {
			if ia, ok := v.X.(*ssa.IndexAddr); ok {
				if n, ok := l.submatchLen(ia.X); ok {
					eq(t, Zero, int64(n), "regexp contract: each match has 1 + NumSubexp entries")
				}
			}
		}
	case *ssa.Alloc:
	}
}

func (l *Lin) onNilEdge(call *ssa.Call, errIdx int, at ssa.Instruction) bool {
	for _, r := range Referrers(call) {
		ex, ok := r.(*ssa.Extract)
		if !ok || ex.Index != errIdx {
			continue
		}
		for _, u := range Referrers(ex) {
			b, ok := u.(*ssa.BinOp)
			if !ok {
				continue
			}
			v, nonNilOnTrue, ok := NilTest(b)
			if !ok || v != ssa.Value(ex) {
				continue
			}
			for _, w := range Referrers(b) {
				iff, ok := w.(*ssa.If)
				if !ok {
					continue
				}
				idx := 0
				if nonNilOnTrue {
					idx = 1
				}
				if EdgeDominates(iff.Block(), idx, at.Block()) {
					return true
				}
			}
		}
	}
	return false
}

func (l *Lin) sliceAxioms(s *system, t Term, v *ssa.Slice) {
	eq := func(a Term, b Term, k int64, why string) {
		s.add(fact{a, b, k, why})
		s.add(fact{b, a, -k, why})
	}
	// the operand: slice, string or pointer to array
	var baseLen, baseCap Term
	var constN int64 = -1
	if pt, ok := v.X.Type().Underlying().(*types.Pointer); ok {
		if arr, ok := pt.Elem().Underlying().(*types.Array); ok {
			constN = arr.Len()
		}
	}
	if constN < 0 {
		baseLen, baseCap = l.LenOf(v.X), l.CapOf(v.X)
	}
	lowT, lowO := Zero, int64(0)
	if v.Low != nil {
		lowT, lowO = l.Expr(v.Low)
	}
	lowConst := lowT.K == TZero
	var highT Term
	var highO int64
	highGiven := v.High != nil
	if highGiven {
		highT, highO = l.Expr(v.High)
	} else if constN >= 0 {
		highT, highO = Zero, constN
	} else {
		highT, highO = baseLen, 0
	}
	switch t.K {
	case TLen:
		if lowConst { // len = high - c
			eq(t, highT, highO-lowO, "len(x[c:h]) = h - c")
		} else if !highGiven && constN < 0 && lowT.key() == baseLen.key() && lowO == 0 {
			eq(t, Zero, 0, "len(x[len(x):]) = 0")
		} else {
			s.add(fact{t, highT, highO, "len(x[l:h]) <= h"})
		}
	case TCap:
		var capT Term
		var capO int64
		switch {
		case v.Max != nil:
			capT, capO = l.Expr(v.Max)
		case constN >= 0:
			capT, capO = Zero, constN
		default:
			capT, capO = baseCap, 0
		}
		if lowConst {
			eq(t, capT, capO-lowO, "cap(x[c:]) = cap(x) - c")
		} else {
			s.add(fact{t, capT, capO, "cap(x[l:]) <= cap(x)"})
		}
	}
}

// submatchLen: x is the result of (*regexp.Regexp).FindAllStringSubmatch on a package-level regexp
// compiled from a constant pattern; returns 1 + number of capture groups.
func (l *Lin) submatchLen(x ssa.Value) (int, bool) {
	call, ok := x.(*ssa.Call)
	if !ok {
		return 0, false
	}
	callee := StaticCallee(call)
	if callee == nil || !MethodIs(callee, "regexp", "Regexp", callee.Name()) || callee.Name() != "FindAllStringSubmatch" {
		return 0, false
	}
	u, ok := call.Call.Args[0].(*ssa.UnOp)
	if !ok {
		return 0, false
	}
	g, ok := u.X.(*ssa.Global)
	if !ok || g.Pkg == nil {
		return 0, false
	}
	// find the initialiser: *g = regexp.MustCompile("const") in the package init, and no other store
	pattern, n := "", 0
	for fn := range l.P.AllFuncs {
		for _, b := range fn.Blocks {
			for _, in := range b.Instrs {
				st, ok := in.(*ssa.Store)
				if !ok || st.Addr != ssa.Value(g) {
					continue
				}
				n++
				if c, ok := st.Val.(*ssa.Call); ok && FuncIs(StaticCallee(c), "regexp", "MustCompile") {
					if p, ok := ConstString(c.Call.Args[0]); ok {
						pattern = p
					}
				}
			}
		}
	}
	if n != 1 || pattern == "" {
		return 0, false
	}
	re, err := syntax.Parse(pattern, syntax.Perl)
	if err != nil {
		return 0, false
	}
	l.lastPattern = re
	return 1 + re.MaxCap(), true
}

// ScanPattern returns the parsed constant pattern of the write-once regular expression whose FindAllStringSubmatch
// produced x, or nil.
func (l *Lin) ScanPattern(x ssa.Value) *syntax.Regexp {
	l.lastPattern = nil
	if _, ok := l.submatchLen(x); !ok {
		return nil
	}
	return l.lastPattern
}

// digitsOnlyGroup reports whether string value v is element k of a match produced by FindAllStringSubmatch of a
// write-once regular expression whose capture group k can only match decimal digits (or stay unmatched, i.e. "").
func (l *Lin) digitsOnlyGroup(v ssa.Value) bool {
	u, ok := v.(*ssa.UnOp)
	if !ok || u.Op != token.MUL {
		return false
	}
	ia, ok := u.X.(*ssa.IndexAddr)
	if !ok {
		return false
	}
	k, ok := constIntOf(ia.Index)
	if !ok || k < 1 {
		return false
	}
	// the match: an element of the [][]string result (range value or indexed load)
	var matches ssa.Value
	switch m := ia.X.(type) {
	case *ssa.UnOp:
		if ia2, ok := m.X.(*ssa.IndexAddr); ok {
			matches = ia2.X
		}
	case *ssa.Extract: // range over the matches: extract #2 of next(range)
		if nx, ok := m.Tuple.(*ssa.Next); ok {
			if rg, ok := nx.Iter.(*ssa.Range); ok {
				matches = rg.X
			}
		}
	}
	if matches == nil {
		return false
	}
	if _, ok := l.submatchLen(matches); !ok || l.lastPattern == nil {
		return false
	}
	var group *syntax.Regexp
	var find func(re *syntax.Regexp)
	find = func(re *syntax.Regexp) {
		if re.Op == syntax.OpCapture && re.Cap == int(k) {
			group = re
		}
		for _, sub := range re.Sub {
			find(sub)
		}
	}
	find(l.lastPattern)
	if group == nil || len(group.Sub) != 1 {
		return false
	}
	body := group.Sub[0]
	if body.Op != syntax.OpPlus && body.Op != syntax.OpStar && body.Op != syntax.OpRepeat {
		return false
	}
	cc := body.Sub[0]
	return cc.Op == syntax.OpCharClass && len(cc.Rune) == 2 && cc.Rune[0] == '0' && cc.Rune[1] == '9'
}

// ---------- queries

// Prove decides x - y <= k at instruction `at`.
func (l *Lin) Prove(at ssa.Instruction, x, y Term, k int64) bool {
	return l.prove(at, nil, x, y, k, 0)
}

// ProveOnEdge decides x - y <= k for control flowing along the edge from -> to.
func (l *Lin) ProveOnEdge(from, to *ssa.BasicBlock, x, y Term, k int64) bool {
	var ex []edgeCond
	if iff, ok := from.Instrs[len(from.Instrs)-1].(*ssa.If); ok {
		for idx, sc := range from.Succs {
			if sc == to {
				ex = append(ex, edgeCond{iff, idx})
			}
		}
		if len(ex) == 2 {
			ex = nil
		}
	}
	return l.prove(from.Instrs[len(from.Instrs)-1], ex, x, y, k, 0)
}

// ProveLE decides a + ao <= b + bo for integer SSA values.
func (l *Lin) ProveLE(at ssa.Instruction, a ssa.Value, ao int64, b ssa.Value, bo int64) bool {
	x, xo := l.Expr(a)
	y, yo := l.Expr(b)
	return l.Prove(at, x, y, yo+bo-xo-ao)
}

func (l *Lin) prove(at ssa.Instruction, extra []edgeCond, x, y Term, k int64, depth int) bool {
	s := l.build(at, extra, []Term{x, y})
	i, j := s.id(x), s.id(y)
	if s.d[i][j] <= k {
		l.Last = fmt.Sprintf("%s - %s <= %d (closure bound %d)", x, y, k, s.d[i][j])
		return true
	}
	if depth >= 4 {
		return false
	}
	// builtin min / max
	for side, t := range []Term{x, y} {
		call, ok := t.V.(*ssa.Call)
		if !ok || t.K != TVal {
			continue
		}
		name := BuiltinName(&call.Call)
		if name != "min" && name != "max" {
			continue
		}
		// side 0: need an upper bound of t; side 1: need a lower bound of t
		needAll := (side == 0 && name == "max") || (side == 1 && name == "min")
		okAll, okAny := true, false
		for _, a := range call.Call.Args {
			at2, ao := l.Expr(a)
			var r bool
			if side == 0 {
				r = l.prove(at, extra, at2, y, k-ao, depth+1)
			} else {
				r = l.prove(at, extra, x, at2, k+ao, depth+1)
			}
			okAll = okAll && r
			okAny = okAny || r
		}
		if (needAll && okAll) || (!needAll && okAny) {
			return true
		}
	}
	// the integer result of a function of the scope: a constant bound holds if it holds at every return
	for side, t := range []Term{x, y} {
		other := y
		if side == 1 {
			other = x
		}
		if t.K != TVal || other.K != TZero || l.depth > 2 {
			continue
		}
		var call *ssa.Call
		idx := 0
		switch v := t.V.(type) {
		case *ssa.Call:
			call = v
		case *ssa.Extract:
			if c2, ok := v.Tuple.(*ssa.Call); ok {
				call, idx = c2, v.Index
			}
		}
		if call == nil {
			continue
		}
		callee := StaticCallee(call)
		if callee == nil || !l.P.InScope(callee) || callee == l.Fn || len(callee.Blocks) == 0 {
			continue
		}
		sub := NewLin(l.P, callee, l.Mods, l.Summary)
		sub.depth = l.depth + 1
		all, n := true, 0
		for _, b := range callee.Blocks {
			ret, ok := b.Instrs[len(b.Instrs)-1].(*ssa.Return)
			if !ok || idx >= len(ret.Results) || b == callee.Recover {
				continue
			}
			n++
			rt, ro := sub.Expr(ret.Results[idx])
			var r bool
			if side == 0 {
				r = sub.prove(ret, nil, rt, Zero, k-ro, 1)
			} else {
				r = sub.prove(ret, nil, Zero, rt, k+ro, 1)
			}
			if !r {
				all = false
				break
			}
		}
		if all && n > 0 {
			l.Last = fmt.Sprintf("%s bounded at every return of %s", t, FuncName(callee))
			return true
		}
	}
	// split a merge on the left (need an upper bound of x) or on the right (need a lower bound of y)
	for side, t := range []Term{x, y} {
		edges, preds, ok := l.mergeEdges(t)
		if !ok {
			continue
		}
		all := true
		for n, e := range edges {
			if e.t.key() == t.key() && e.off == 0 {
				continue // the merge feeds itself on this edge (loop-invariant value): nothing to prove
			}
			p := preds[n]
			if p == nil || len(p.Instrs) == 0 {
				all = false
				break
			}
			var ex []edgeCond
			if iff, ok := p.Instrs[len(p.Instrs)-1].(*ssa.If); ok {
				tb := mergeBlock(t)
				for idx, sc := range p.Succs {
					if sc == tb {
						ex = append(ex, edgeCond{iff, idx})
					}
				}
				if len(ex) == 2 {
					ex = nil
				}
			}
			last := p.Instrs[len(p.Instrs)-1]
			var okE bool
			if side == 0 {
				okE = l.prove(last, ex, e.t, y, k-e.off, depth+1)
			} else {
				okE = l.prove(last, ex, x, e.t, k+e.off, depth+1)
			}
			if !okE {
				all = false
				break
			}
		}
		if all {
			return true
		}
	}
	return false
}

type edgeTerm struct {
	t   Term
	off int64
}

func mergeBlock(t Term) *ssa.BasicBlock {
	if t.M != nil {
		return t.M.Block
	}
	if ph, ok := t.V.(*ssa.Phi); ok {
		return ph.Block()
	}
	return nil
}

// mergeEdges returns, for a term over an SSA phi or a memory merge, the per-predecessor terms.
func (l *Lin) mergeEdges(t Term) ([]edgeTerm, []*ssa.BasicBlock, bool) {
	if t.K == TZero {
		return nil, nil, false
	}
	if t.M != nil {
		if t.M.Kind != MPhi {
			return nil, nil, false
		}
		var out []edgeTerm
		for _, e := range t.M.Edges {
			if e == nil {
				return nil, nil, false
			}
			if e.Kind == MStore && t.K == TVal {
				et, eo := l.Expr(e.Val)
				out = append(out, edgeTerm{et, eo})
				continue
			}
			out = append(out, edgeTerm{l.memTerm(t.K, e), 0})
		}
		return out, t.M.Block.Preds, true
	}
	ph, ok := t.V.(*ssa.Phi)
	if !ok {
		return nil, nil, false
	}
	var out []edgeTerm
	for _, e := range ph.Edges {
		switch t.K {
		case TVal:
			et, eo := l.Expr(e)
			out = append(out, edgeTerm{et, eo})
		default:
			out = append(out, edgeTerm{l.term(t.K, e), 0})
		}
	}
	return out, ph.Block().Preds, true
}

func (l *Lin) memTerm(k TermKind, m *MemVal) Term {
	if m.Kind == MStore {
		if k == TVal {
			t, _ := l.Expr(m.Val) // offset handled by callers through Expr when needed
			return t
		}
		return l.term(k, m.Val)
	}
	return Term{K: k, M: m}
}

// PredicateFacts: cond is a call of a boolean helper of the scope (e.g. reader.fits(size)); returns the
// comparisons, translated into the caller's terms, that hold whenever the helper returns true. Only
// comparisons over the helper's parameters, constants and fields of pointer parameters that neither the
// helper nor the caller modifies are translated.
func (l *Lin) PredicateFacts(call *ssa.Call) []fact { return l.predicateFacts(call, true) }

// predicateFacts: the comparisons that hold whenever the helper returns `want`. For want == false this is the dual
// reading: `return a || b` answers false only when both a and b are false (outOfBounds(size) == false).
func (l *Lin) predicateFacts(call *ssa.Call, want bool) []fact {
	callee := StaticCallee(call)
	if callee == nil || !l.P.InScope(callee) || len(callee.Blocks) == 0 || callee.Signature.Results().Len() != 1 {
		return nil
	}
	if bt, ok := callee.Signature.Results().At(0).Type().Underlying().(*types.Basic); !ok || bt.Kind() != types.Bool {
		return nil
	}
	sub := NewLin(l.P, callee, l.Mods, l.Summary)
	// conditions that hold on a given (block, via edge) when the result is true
	type cond struct {
		v     ssa.Value
		truth bool
	}
	var conds []cond
	var rets []*ssa.Return
	for _, b := range callee.Blocks {
		if r, ok := b.Instrs[len(b.Instrs)-1].(*ssa.Return); ok {
			rets = append(rets, r)
		}
	}
	if len(rets) != 1 {
		return nil
	}
	ret := rets[0]
	var collect func(v ssa.Value, at *ssa.BasicBlock) bool
	dominating := func(at *ssa.BasicBlock) {
		for _, b := range callee.Blocks {
			iff, ok := b.Instrs[len(b.Instrs)-1].(*ssa.If)
			if !ok {
				continue
			}
			for idx := 0; idx < 2; idx++ {
				if EdgeDominates(b, idx, at) {
					conds = append(conds, cond{iff.Cond, idx == 0})
				}
			}
		}
	}
	collect = func(v ssa.Value, at *ssa.BasicBlock) bool {
		switch x := v.(type) {
		case *ssa.Const:
			return false // a constant result contributes no true-path here (false) or is unconditional (true): skip
		case *ssa.Phi:
			nTrue := 0
			for i, e := range x.Edges {
				if c, ok := e.(*ssa.Const); ok && c.Value != nil && c.Value.ExactString() == fmt.Sprint(!want) {
					continue
				}
				nTrue++
				if nTrue > 1 {
					return false // a disjunction: nothing is implied
				}
				pred := x.Block().Preds[i]
				dominating(pred)
				if iff, ok := pred.Instrs[len(pred.Instrs)-1].(*ssa.If); ok {
					for idx, sc := range pred.Succs {
						if sc == x.Block() && pred.Succs[0] != pred.Succs[1] {
							conds = append(conds, cond{iff.Cond, idx == 0})
						}
					}
				}
				if _, isC := e.(*ssa.Const); !isC {
					conds = append(conds, cond{e, want})
				}
			}
			return nTrue == 1
		case *ssa.BinOp:
			dominating(at)
			conds = append(conds, cond{x, want})
			return true
		}
		return false
	}
	if !collect(ret.Results[0], ret.Block()) {
		return nil
	}
	// translate
	translate := func(t Term, off int64) (Term, int64, bool) {
		switch {
		case t.K == TZero:
			return t, off, true
		case t.V != nil:
			if p, ok := t.V.(*ssa.Parameter); ok {
				for i, q := range callee.Params {
					if q == p && i < len(call.Call.Args) {
						switch t.K {
						case TVal:
							ct, co := l.Expr(call.Call.Args[i])
							return ct, co + off, true
						case TLen:
							return l.LenOf(call.Call.Args[i]), off, true
						case TCap:
							return l.CapOf(call.Call.Args[i]), off, true
						}
					}
				}
			}
			return t, off, false
		case t.M != nil && t.M.Kind == MEntry:
			// field of a pointer parameter: find the caller's view of the same field of the argument
			bp, ok := t.M.Base.(*ssa.Parameter)
			if !ok {
				return t, off, false
			}
			for i, q := range callee.Params {
				if q != bp || i >= len(call.Call.Args) {
					continue
				}
				arg := call.Call.Args[i]
				for _, mv := range l.FM.Loads {
					if mv.Kind == MEntry && mv.Field == t.M.Field && mv.Base == arg {
						return Term{K: t.K, M: mv}, off, true
					}
				}
			}
		}
		return t, off, false
	}
	var out []fact
	for _, cd := range conds {
		tmp := &system{idx: map[string]int{}, why: map[[2]int]string{}}
		tmp.id(Zero)
		sub.addCond(tmp, cd.v, cd.truth)
		for i := range tmp.terms {
			for j := range tmp.terms {
				if i == j || tmp.d[i][j] >= inf {
					continue
				}
				xt, xo, ok1 := translate(tmp.terms[i], 0)
				yt, yo, ok2 := translate(tmp.terms[j], 0)
				if ok1 && ok2 {
					out = append(out, fact{xt, yt, tmp.d[i][j] - xo + yo, "predicate " + FuncName(callee) + " returned " + fmt.Sprint(want)})
				}
			}
		}
	}
	return out
}

// PredicateFactStrings renders PredicateFacts in the canonical "x - y <= k" form.
func (l *Lin) PredicateFactStrings(call *ssa.Call) []string {
	return l.PredicateFactStringsWhen(call, true)
}

// PredicateFactStringsWhen renders the facts that hold whenever the helper returns `want`.
func (l *Lin) PredicateFactStringsWhen(call *ssa.Call, want bool) []string {
	var out []string
	seen := map[string]bool{}
	for _, f := range l.predicateFacts(call, want) {
		str := fmt.Sprintf("%s - %s <= %d", f.x, f.y, f.k)
		if !seen[str] {
			seen[str] = true
			out = append(out, str)
		}
	}
	return out
}

// intrinsicNonNeg: values that are non-negative by the contract of what produced them.
func (l *Lin) intrinsicNonNeg(v ssa.Value) bool {
	if c, ok := constIntOf(v); ok {
		return c >= 0
	}
	if _, ok := l.unsignedMax(v.Type()); ok {
		return true
	}
	switch x := v.(type) {
	case *ssa.Extract:
		if call, ok := x.Tuple.(*ssa.Call); ok && x.Index == 0 {
			callee := StaticCallee(call)
			if FuncIs(callee, "io", "ReadFull") || FuncIs(callee, "io", "ReadAtLeast") {
				return true
			}
			if call.Call.IsInvoke() && (call.Call.Method.Name() == "Read" || call.Call.Method.Name() == "Write") {
				return true
			}
		}
	case *ssa.Call:
		switch BuiltinName(&x.Call) {
		case "len", "cap", "copy":
			return true
		}
	}
	return false
}

// ImportCallContext carries over to l (the prover of a function with a single caller) what the caller's system
// proves at the call about the things both sides can name: integer arguments, lengths and capacities of slice
// arguments, and lengths / values of fields of pointer arguments that are never stored after construction.
// It returns the number of facts imported. Sound only if call is the function's only caller.
func (l *Lin) ImportCallContext(caller *Lin, call ssa.CallInstruction) int {
	type pair struct {
		ct  Term
		co  int64 // caller value = ct + co
		cal Term
	}
	var ps []pair
	args := call.Common().Args
	for i, p := range l.Fn.Params {
		if i >= len(args) {
			break
		}
		a := args[i]
		switch t := p.Type().Underlying().(type) {
		case *types.Basic:
			if t.Info()&types.IsInteger != 0 {
				ct, co := caller.Expr(a)
				ps = append(ps, pair{ct, co, Term{K: TVal, V: p}})
			}
		case *types.Slice:
			ps = append(ps, pair{caller.LenOf(a), 0, Term{K: TLen, V: p}})
			ps = append(ps, pair{caller.CapOf(a), 0, Term{K: TCap, V: p}})
		case *types.Pointer:
			prefix := "param:" + p.Name() + "."
			cbase := caller.FM.baseKeyOf(a, 0)
			for key, e := range l.FM.entries {
				if !strings.HasPrefix(key, prefix) {
					continue
				}
				owner := ""
				if e.Base != nil {
					if pt, ok := e.Base.Type().Underlying().(*types.Pointer); ok {
						if n, ok := pt.Elem().(*types.Named); ok {
							owner = n.Obj().Name()
						}
					}
				}
				if owner == "" || l.Mods == nil || l.Mods.storedAfterConstruction(owner, e.Field) {
					continue
				}
				ce, ok := caller.FM.entries[cbase+"."+strings.TrimPrefix(key, prefix)]
				if !ok {
					continue
				}
				ps = append(ps, pair{Term{K: TLen, M: ce}, 0, Term{K: TLen, M: e}})
				ps = append(ps, pair{Term{K: TVal, M: ce}, 0, Term{K: TVal, M: e}})
			}
		}
	}
	if len(ps) == 0 {
		return 0
	}
	var seeds []Term
	for _, q := range ps {
		seeds = append(seeds, q.ct)
	}
	sys := caller.build(call, nil, seeds)
	n := 0
	zi := sys.id(Zero)
	// goal-directed bounds against the constants that matter in this code base (the protocol's 16-bit counts, the
	// message-size default): these use callee return bounds and merges, which the closed system alone does not
	for _, x := range ps {
		if x.cal.K != TVal || x.cal.V == nil {
			continue
		}
		for _, ub := range []int64{0, 255, 65535, 1 << 24} {
			if caller.Prove(call, x.ct, Zero, ub-x.co) {
				l.Assume = append(l.Assume, fact{x.cal, Zero, ub, "call-site context (proved at the call)"})
				n++
				break
			}
		}
		for _, lb := range []int64{1, 0} {
			if caller.Prove(call, Zero, x.ct, x.co-lb) {
				l.Assume = append(l.Assume, fact{Zero, x.cal, -lb, "call-site context (proved at the call)"})
				n++
				break
			}
		}
	}
	// goal-directed: an integer argument against the length of a slice argument / immutable slice field (an index
	// the caller has already bounded: `for i := range n { h(i) }` with n == len(field))
	for _, x := range ps {
		if x.cal.K != TVal || x.cal.V == nil {
			continue
		}
		for _, y := range ps {
			if y.cal.K != TLen {
				continue
			}
			for _, k := range []int64{-1, 0} {
				if caller.Prove(call, x.ct, y.ct, k-x.co) {
					l.Assume = append(l.Assume, fact{x.cal, y.cal, k, "call-site context (proved at the call)"})
					n++
					break
				}
			}
		}
	}
	for _, x := range ps {
		xi := sys.id(x.ct)
		// against zero
		if d := sys.d[xi][zi]; d < inf {
			l.Assume = append(l.Assume, fact{x.cal, Zero, d + x.co, "call-site context"})
			n++
		}
		if d := sys.d[zi][xi]; d < inf {
			l.Assume = append(l.Assume, fact{Zero, x.cal, d - x.co, "call-site context"})
			n++
		}
		for _, y := range ps {
			if x.cal.key() == y.cal.key() {
				continue
			}
			yi := sys.id(y.ct)
			if d := sys.d[xi][yi]; d < inf {
				// (x.ct + x.co) - (y.ct + y.co) <= d + x.co - y.co
				l.Assume = append(l.Assume, fact{x.cal, y.cal, d + x.co - y.co, "call-site context"})
				n++
			}
		}
	}
	if os.Getenv("PWV_LINDEBUG") != "" {
		for _, q := range ps {
			fmt.Fprintf(os.Stderr, "ctx-pair %s: caller %s+%d callee %s\n", l.Fn.Name(), q.ct, q.co, q.cal)
		}
		for _, f := range l.Assume {
			fmt.Fprintf(os.Stderr, "ctx-fact %s: %s - %s <= %d (%s)\n", l.Fn.Name(), f.x, f.y, f.k, f.why)
		}
	}
	return n
}

func onNilEdgeOrNoErr(l *Lin, call *ssa.Call, at ssa.Instruction) bool {
	idx := ErrorResultIndex(call.Call.Signature())
	if idx < 0 {
		return true
	}
	return l.onNilEdge(call, idx, at)
}

// returnsMakeOfParam: every return of fn whose error result may be nil returns, as result idx, a MakeSlice made in fn
// whose length is one of fn's parameters.
func returnsMakeOfParam(fn *ssa.Function, idx int) (int, bool) {
	pi := -1
	n := 0
	for _, b := range fn.Blocks {
		ret, ok := b.Instrs[len(b.Instrs)-1].(*ssa.Return)
		if !ok || idx >= len(ret.Results) || b == fn.Recover {
			continue
		}
		if c, isConst := ret.Results[idx].(*ssa.Const); isConst && c.Value == nil {
			continue // the failing returns
		}
		ms, ok := ret.Results[idx].(*ssa.MakeSlice)
		if !ok {
			return 0, false
		}
		found := -1
		for i, p := range fn.Params {
			if StripConv(ms.Len) == ssa.Value(p) {
				found = i
			}
		}
		if found < 0 || (pi >= 0 && pi != found) {
			return 0, false
		}
		pi = found
		n++
	}
	return pi, n > 0
}

var (
	lenParamMu    sync.Mutex
	lenParamCache = map[*ssa.Function]int{} // -1: no such parameter; -2: being computed
)

// lenResultIsParam: the single slice result of fn has, on every return, exactly the length of int parameter #i
// (proved by E-LIN in fn's own system).
func (l *Lin) lenResultIsParam(fn *ssa.Function) (int, bool) {
	lenParamMu.Lock()
	if v, ok := lenParamCache[fn]; ok {
		lenParamMu.Unlock()
		return v, v >= 0
	}
	lenParamCache[fn] = -2
	lenParamMu.Unlock()
	res := -1
	if _, isSlice := fn.Signature.Results().At(0).Type().Underlying().(*types.Slice); isSlice {
		sub := NewLin(l.P, fn, l.Mods, l.Summary)
		for i, p := range fn.Params {
			bt, ok := p.Type().Underlying().(*types.Basic)
			if !ok || bt.Info()&types.IsInteger == 0 {
				continue
			}
			all, n := true, 0
			for _, b := range fn.Blocks {
				ret, ok := b.Instrs[len(b.Instrs)-1].(*ssa.Return)
				if !ok || b == fn.Recover {
					continue
				}
				n++
				pt := Term{K: TVal, V: p}
				lt := sub.LenOf(ret.Results[0])
				if !(sub.Prove(ret, lt, pt, 0) && sub.Prove(ret, pt, lt, 0)) {
					all = false
				}
			}
			if all && n > 0 {
				res = i
				break
			}
		}
	}
	lenParamMu.Lock()
	lenParamCache[fn] = res
	lenParamMu.Unlock()
	return res, res >= 0
}
