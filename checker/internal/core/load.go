// Package core holds the program loader and the shared analysis engines of pwv.
package core

import (
	"fmt"
	"go/token"
	"go/types"
	"os"
	"path/filepath"
	"sort"
	"strings"

	"golang.org/x/tools/go/callgraph"
	"golang.org/x/tools/go/callgraph/cha"
	"golang.org/x/tools/go/callgraph/vta"
	"golang.org/x/tools/go/packages"
	"golang.org/x/tools/go/ssa"
	"golang.org/x/tools/go/ssa/ssautil"
)

// Module path of the analysed repository.
const Mod = "github.com/jeroenrinzema/psql-wire"

// ScopePkgs is the rule scope S: short name -> import path.
var ScopePkgs = map[string]string{
	"wire":   Mod,
	"errors": Mod + "/errors",
	"codes":  Mod + "/codes",
	"buffer": Mod + "/pkg/buffer",
	"types":  Mod + "/pkg/types",
}

// Prog is the loaded, type-checked program in SSA form.
type Prog struct {
	roleDepth int // nesting of methodByRole (a role may be defined through another anchor)
	writeOnce map[*ssa.Global]bool
	Repo      string
	Fset      *token.FileSet
	Pkgs      []*packages.Package
	SSA       *ssa.Program
	Scope     map[string]*ssa.Package // short name -> package of S
	AllFuncs  map[*ssa.Function]bool
	Sizes     types.Sizes
	WordBits  int

	scopeFuncs []*ssa.Function
	cg         *callgraph.Graph
	chaCG      *callgraph.Graph
}

// LoadOpts configures Load.
type LoadOpts struct {
	Repo    string
	GOARCH  string            // "" = host
	Overlay map[string][]byte // virtual files (fixtures)
}

// Load type-checks the repository's current working tree and builds SSA for the whole program.
func Load(o LoadOpts) (*Prog, error) {
	env := append(os.Environ(), "GOFLAGS=-mod=mod", "GOPROXY=off", "GOSUMDB=off", "GOWORK=off", "GOTOOLCHAIN=local")
	if o.GOARCH != "" {
		env = append(env, "GOARCH="+o.GOARCH, "CGO_ENABLED=0")
	}
	cfg := &packages.Config{
		Mode:    packages.LoadAllSyntax,
		Dir:     o.Repo,
		Tests:   false,
		Env:     env,
		Overlay: o.Overlay,
	}
	pkgs, err := packages.Load(cfg, "./...")
	if err != nil {
		return nil, fmt.Errorf("packages.Load: %w", err)
	}
	if len(pkgs) == 0 {
		return nil, fmt.Errorf("no packages loaded from %s", o.Repo)
	}
	var errs []string
	packages.Visit(pkgs, nil, func(p *packages.Package) {
		for _, e := range p.Errors {
			errs = append(errs, e.Error())
		}
	})
	if len(errs) > 0 {
		sort.Strings(errs)
		if len(errs) > 10 {
			errs = errs[:10]
		}
		return nil, fmt.Errorf("type/load errors:\n  %s", strings.Join(errs, "\n  "))
	}
	prog, _ := ssautil.AllPackages(pkgs, ssa.InstantiateGenerics)
	prog.Build()

	p := &Prog{Repo: o.Repo, Fset: pkgs[0].Fset, Pkgs: pkgs, SSA: prog, Scope: map[string]*ssa.Package{}}
	for short, path := range ScopePkgs {
		sp := prog.ImportedPackage(path)
		if sp == nil {
			return nil, fmt.Errorf("scope package %s (%s) not loaded", short, path)
		}
		p.Scope[short] = sp
	}
	for _, pk := range pkgs {
		if pk.PkgPath == Mod {
			p.Sizes = pk.TypesSizes
		}
	}
	if p.Sizes == nil {
		return nil, fmt.Errorf("no type sizes for %s", Mod)
	}
	p.WordBits = int(p.Sizes.Sizeof(types.Typ[types.Int])) * 8
	p.AllFuncs = ssautil.AllFunctions(prog)
	for fn := range p.AllFuncs {
		if p.InScope(fn) {
			p.scopeFuncs = append(p.scopeFuncs, fn)
		}
	}
	sort.Slice(p.scopeFuncs, func(i, j int) bool {
		a, b := p.scopeFuncs[i], p.scopeFuncs[j]
		if a.Pos() != b.Pos() {
			return p.PosLess(a.Pos(), b.Pos())
		}
		return a.String() < b.String()
	})
	return p, nil
}

// PkgOf returns the package a function (or its outermost parent) belongs to.
func PkgOf(fn *ssa.Function) *ssa.Package {
	for fn != nil {
		if fn.Pkg != nil {
			return fn.Pkg
		}
		if fn.Parent() == nil {
			// instantiation / wrapper: use origin or the receiver's package
			if o := fn.Origin(); o != nil && o != fn {
				fn = o
				continue
			}
			return nil
		}
		fn = fn.Parent()
	}
	return nil
}

// InScope reports whether fn is source code of the rule scope S (synthetic wrappers excluded).
func (p *Prog) InScope(fn *ssa.Function) bool {
	if fn == nil || len(fn.Blocks) == 0 {
		return false
	}
	if fn.Synthetic != "" {
		// wrappers and thunks are not source functions; an instantiation of a generic function of the scope is (its body
		// is the source body at concrete types)
		if o := fn.Origin(); o == nil || o == fn || len(fn.TypeArgs()) == 0 {
			return false
		}
	} else if fn.TypeParams().Len() > 0 && len(fn.TypeArgs()) == 0 {
		return false // the uninstantiated body of a generic function: its instances are analysed instead
	}
	pk := PkgOf(fn)
	if pk == nil {
		return false
	}
	for _, sp := range p.Scope {
		if sp == pk {
			return true
		}
	}
	return false
}

// InPkg reports whether fn belongs to the scope package with the given short name.
func (p *Prog) InPkg(fn *ssa.Function, short string) bool {
	return fn != nil && PkgOf(fn) == p.Scope[short]
}

// ScopeFuncs returns every source function (including closures) of S, sorted by position.
func (p *Prog) ScopeFuncs() []*ssa.Function { return p.scopeFuncs }

// Func resolves a package-level function "pkg.Name".
func (p *Prog) Func(short, name string) *ssa.Function {
	sp := p.Scope[short]
	if sp == nil {
		return nil
	}
	if fn := sp.Func(name); fn != nil {
		return fn
	}
	return p.funcByRole(short, name)
}

// funcByRole finds an unexported anchor function that was renamed, by what it does (only when the frozen name no
// longer exists; the role must single out exactly one function or method of the package).
func (p *Prog) funcByRole(short, name string) *ssa.Function {
	if p.roleDepth > 3 {
		return nil
	}
	p.roleDepth++
	defer func() { p.roleDepth-- }()
	withValueOf := func(fn *ssa.Function, want func(types.Type) bool) bool {
		for _, ci := range Calls(fn) {
			if FuncIs(StaticCallee(ci), "context", "WithValue") {
				for _, prm := range fn.Params {
					if want(prm.Type()) {
						return true
					}
				}
			}
		}
		return false
	}
	calledFrom := func(fn, caller *ssa.Function) bool {
		if caller == nil {
			return false
		}
		for _, ci := range Calls(caller) {
			h := StaticCallee(ci)
			if h == fn {
				return true
			}
			if h != nil && h.Blocks != nil && p.InPkg(h, short) {
				for _, cj := range Calls(h) {
					if StaticCallee(cj) == fn {
						return true
					}
				}
			}
		}
		return false
	}
	isParams := func(t types.Type) bool { return IsNamed(t, Mod, "Parameters") }
	var role func(fn *ssa.Function) bool
	switch name {
	case "setTypeInfo":
		role = func(fn *ssa.Function) bool {
			return withValueOf(fn, func(t types.Type) bool {
				pt, ok := t.(*types.Pointer)
				return ok && isNamedT("Map")(pt.Elem())
			})
		}
	case "setRemoteAddress":
		role = func(fn *ssa.Function) bool {
			return withValueOf(fn, func(t types.Type) bool { return IsNamed(t, "net", "Addr") })
		}
	case "setClientParameters":
		from := p.Method(short, "Server", "readClientParameters")
		role = func(fn *ssa.Function) bool { return withValueOf(fn, isParams) && calledFrom(fn, from) }
	case "setServerParameters":
		from := p.Method(short, "Server", "writeParameters")
		role = func(fn *ssa.Function) bool { return withValueOf(fn, isParams) && calledFrom(fn, from) }
	case "writeAuthType":
		role = func(fn *ssa.Function) bool {
			for _, ci := range Calls(fn) {
				if h := StaticCallee(ci); h != nil && h.Name() == "Start" && len(ci.Common().Args) == 2 {
					if c, ok := ConstInt(ci.Common().Args[1]); ok && c == 'R' {
						return true
					}
				}
			}
			return false
		}
	case "readVersion":
		role = func(fn *ssa.Function) bool {
			res := fn.Signature.Results()
			if res.Len() == 0 || !IsNamed(res.At(0).Type(), Mod+"/pkg/types", "Version") {
				return false
			}
			for _, ci := range Calls(fn) {
				if h := StaticCallee(ci); h != nil && h.Name() == "ReadUntypedMsg" {
					return true
				}
			}
			return false
		}
	default:
		return nil
	}
	var found *ssa.Function
	for _, fn := range p.scopeFuncs {
		if fn.Parent() != nil || fn.Blocks == nil || !p.InPkg(fn, short) {
			continue
		}
		if role(fn) {
			if found != nil {
				return nil
			}
			found = fn
		}
	}
	return found
}

// Method resolves a method by receiver type name; ptr selects the pointer receiver method set.
func (p *Prog) Method(short, typ, name string) *ssa.Function {
	sp := p.Scope[short]
	if sp == nil {
		return nil
	}
	obj := sp.Pkg.Scope().Lookup(typ)
	if obj == nil {
		return nil
	}
	tn, ok := obj.(*types.TypeName)
	if !ok {
		return nil
	}
	for _, T := range []types.Type{tn.Type(), types.NewPointer(tn.Type())} {
		ms := p.SSA.MethodSets.MethodSet(T)
		for i := 0; i < ms.Len(); i++ {
			sel := ms.At(i)
			if sel.Obj().Name() == name {
				if fn := p.SSA.MethodValue(sel); fn != nil {
					// unwrap synthetic wrappers to the declared method
					if f, ok := sel.Obj().(*types.Func); ok {
						if decl := p.SSA.FuncValue(f); decl != nil {
							return decl
						}
					}
					return fn
				}
			}
		}
	}
	return p.methodByRole(short, typ, name)
}

// methodByRole finds an unexported anchor method that was renamed, by what it does (used only when the frozen name
// no longer exists): the role must single out exactly one method of the receiver type.
func (p *Prog) methodByRole(short, typ, name string) *ssa.Function {
	if p.roleDepth > 3 {
		return nil
	}
	p.roleDepth++
	defer func() { p.roleDepth-- }()
	methods := func() []*ssa.Function {
		var out []*ssa.Function
		for _, fn := range p.scopeFuncs {
			if fn.Signature.Recv() == nil || fn.Parent() != nil || fn.Blocks == nil || !p.InPkg(fn, short) {
				continue
			}
			if n := NamedOf(fn.Signature.Recv().Type()); n != nil && n.Obj().Name() == typ {
				out = append(out, fn)
			}
		}
		return out
	}
	callsStatic := func(fn *ssa.Function, pred func(*ssa.Function) bool) bool {
		for _, ci := range Calls(fn) {
			if h := StaticCallee(ci); h != nil && pred(h) {
				return true
			}
		}
		return false
	}
	var role func(fn *ssa.Function) bool
	switch typ + "." + name {
	case "Server.serve":
		// the connection function: calls the exported Handshake
		hs := p.Method(short, "Server", "Handshake")
		role = func(fn *ssa.Function) bool {
			return hs != nil && fn != hs && callsStatic(fn, func(h *ssa.Function) bool { return h == hs })
		}
	case "Session.handleCommand":
		// the dispatcher: takes the client message type
		role = func(fn *ssa.Function) bool {
			for _, prm := range fn.Params {
				if IsNamed(prm.Type(), Mod+"/pkg/types", "ClientMessage") {
					return true
				}
			}
			return false
		}
	case "Session.consumeSingleCommand":
		// one iteration: reads a typed message and hands it to the dispatcher
		hc := p.Method(short, "Session", "handleCommand")
		role = func(fn *ssa.Function) bool {
			reads := false
			for _, ci := range Calls(fn) {
				if h := StaticCallee(ci); h != nil && h.Name() == "ReadTypedMsg" {
					reads = true
				}
			}
			return reads && hc != nil && callsStatic(fn, func(h *ssa.Function) bool { return h == hc })
		}
	case "Session.consumeCommands":
		// the loop: calls the single-iteration function and is not it
		one := p.Method(short, "Session", "consumeSingleCommand")
		role = func(fn *ssa.Function) bool {
			return one != nil && fn != one && callsStatic(fn, func(h *ssa.Function) bool { return h == one })
		}
	case "Reader.reset":
		// the window step: unexported, one int parameter, no result, stores Msg
		role = func(fn *ssa.Function) bool {
			if token.IsExported(fn.Name()) || len(fn.Params) != 2 || fn.Signature.Results().Len() != 0 {
				return false
			}
			if bt, ok := fn.Params[1].Type().Underlying().(*types.Basic); !ok || bt.Kind() != types.Int {
				return false
			}
			for _, b := range fn.Blocks {
				for _, in := range b.Instrs {
					if st, ok := in.(*ssa.Store); ok {
						if fr, ok := FieldOfAddr(st.Addr); ok && fr.Name == "Msg" {
							return true
						}
					}
				}
			}
			return false
		}
	case "Session.handleSimpleQuery", "Session.handleParse", "Session.handleBind", "Session.handleDescribe", "Session.handleExecute":
		// the handler of one message type: what the dispatcher calls on the arm of that type
		k := map[string]int64{"handleSimpleQuery": 'Q', "handleParse": 'P', "handleBind": 'B', "handleDescribe": 'D', "handleExecute": 'E'}[name]
		hc := p.Method(short, "Session", "handleCommand")
		var target *ssa.Function
		if hc != nil {
			for _, b := range hc.Blocks {
				iff, ok := b.Instrs[len(b.Instrs)-1].(*ssa.If)
				if !ok {
					continue
				}
				cmp, ok := iff.Cond.(*ssa.BinOp)
				if !ok || cmp.Op != token.EQL {
					continue
				}
				if c, isC := ConstInt(cmp.Y); !isC || c != k {
					continue
				}
				if _, isP := StripConv(cmp.X).(*ssa.Parameter); !isP {
					continue
				}
				for _, in := range b.Succs[0].Instrs {
					if ci, isCall := in.(ssa.CallInstruction); isCall {
						if h := StaticCallee(ci); h != nil && h.Signature.Recv() != nil && p.InPkg(h, short) && target == nil {
							target = h
						}
					}
				}
			}
		}
		role = func(fn *ssa.Function) bool { return target != nil && fn == target }
	case "Server.handleAuth":
		// the authentication step: the Server method (other than the connection function) that reads Server.Auth
		serve := p.Method(short, "Server", "serve")
		role = func(fn *ssa.Function) bool {
			if fn == serve {
				return false
			}
			for _, b := range fn.Blocks {
				for _, in := range b.Instrs {
					if fa, ok := in.(*ssa.FieldAddr); ok {
						if fr, ok := FieldOfAddr(fa); ok && fr.Name == "Auth" && fr.Struct != nil && fr.Struct.Obj().Name() == "Server" {
							return true
						}
					}
				}
			}
			return false
		}
	case "Server.writeParameters", "Server.readClientParameters":
		// the start-up parameter steps: the one that emits ParameterStatus ('S') frames, the one that fills a map from
		// GetString results
		emitsS := func(fn *ssa.Function) bool {
			for _, ci := range Calls(fn) {
				if h := StaticCallee(ci); h != nil && h.Name() == "Start" && len(ci.Common().Args) == 2 {
					if c, ok := ConstInt(ci.Common().Args[1]); ok && c == 'S' {
						return true
					}
				}
			}
			return false
		}
		readsStrings := func(fn *ssa.Function) bool {
			for _, ci := range Calls(fn) {
				if h := StaticCallee(ci); h != nil && h.Name() == "GetString" {
					return true
				}
			}
			return false
		}
		deep := func(fn *ssa.Function, pred func(*ssa.Function) bool) bool {
			if pred(fn) {
				return true
			}
			return callsStatic(fn, func(h *ssa.Function) bool { return h.Blocks != nil && p.InPkg(h, short) && pred(h) })
		}
		serve := p.Method(short, "Server", "serve")
		if name == "writeParameters" {
			role = func(fn *ssa.Function) bool { return fn != serve && deep(fn, emitsS) }
		} else {
			role = func(fn *ssa.Function) bool {
				if fn == serve || !deep(fn, readsStrings) {
					return false
				}
				for _, b := range fn.Blocks {
					for _, in := range b.Instrs {
						if _, ok := in.(*ssa.MapUpdate); ok {
							return true
						}
					}
				}
				return false
			}
		}
	case "Server.readVersion":
		if fn := p.funcByRole(short, "readVersion"); fn != nil {
			return fn
		}
		return nil
	default:
		return nil
	}
	var found *ssa.Function
	for _, fn := range methods() {
		if role(fn) {
			if found != nil {
				return nil // ambiguous
			}
			found = fn
		}
	}
	return found
}

// Named looks up a named type of S.
func (p *Prog) Named(short, typ string) *types.Named {
	sp := p.Scope[short]
	if sp == nil {
		return nil
	}
	obj := sp.Pkg.Scope().Lookup(typ)
	if obj == nil {
		return nil
	}
	n, _ := obj.Type().(*types.Named)
	return n
}

// Global looks up a package-level variable of S.
func (p *Prog) Global(short, name string) *ssa.Global {
	sp := p.Scope[short]
	if sp == nil {
		return nil
	}
	g, _ := sp.Members[name].(*ssa.Global)
	return g
}

// Pos renders a position relative to the repository root.
func (p *Prog) Pos(pos token.Pos) string {
	if !pos.IsValid() {
		return "-"
	}
	ps := p.Fset.Position(pos)
	rel, err := filepath.Rel(p.Repo, ps.Filename)
	if err != nil || strings.HasPrefix(rel, "..") {
		rel = ps.Filename
	}
	return fmt.Sprintf("%s:%d:%d", rel, ps.Line, ps.Column)
}

// PosLess orders positions by file, line, column numerically.
func (p *Prog) PosLess(a, b token.Pos) bool {
	pa, pb := p.Fset.Position(a), p.Fset.Position(b)
	if pa.Filename != pb.Filename {
		return pa.Filename < pb.Filename
	}
	if pa.Line != pb.Line {
		return pa.Line < pb.Line
	}
	return pa.Column < pb.Column
}

// FuncName is a stable, position-free name: "wire.(*Server).serve", "wire.ClearTextPassword$1".
func FuncName(fn *ssa.Function) string {
	if fn == nil {
		return "<nil>"
	}
	s := fn.String()
	s = strings.ReplaceAll(s, Mod+"/pkg/buffer", "buffer")
	s = strings.ReplaceAll(s, Mod+"/pkg/types", "types")
	s = strings.ReplaceAll(s, Mod+"/errors", "errors")
	s = strings.ReplaceAll(s, Mod+"/codes", "codes")
	s = strings.ReplaceAll(s, Mod, "wire")
	return s
}

// CHA returns the class-hierarchy call graph (cheap).
func (p *Prog) CHA() *callgraph.Graph {
	if p.chaCG == nil {
		p.chaCG = cha.CallGraph(p.SSA)
	}
	return p.chaCG
}

// VTA returns the VTA-refined call graph (thorough tier).
func (p *Prog) VTA() *callgraph.Graph {
	if p.cg == nil {
		p.cg = vta.CallGraph(p.AllFuncs, p.CHA())
	}
	return p.cg
}

// StaticCallee returns the statically known callee of a call: direct calls, method calls with
// a concrete receiver, and immediately-invoked closures.
func StaticCallee(c ssa.CallInstruction) *ssa.Function {
	cc := c.Common()
	if cc.IsInvoke() {
		return nil
	}
	switch v := cc.Value.(type) {
	case *ssa.Function:
		return v
	case *ssa.MakeClosure:
		if f, ok := v.Fn.(*ssa.Function); ok {
			return f
		}
	}
	return nil
}

// Calls lists the call instructions (call, defer, go) of fn in block order.
func Calls(fn *ssa.Function) []ssa.CallInstruction {
	var out []ssa.CallInstruction
	for _, b := range fn.Blocks {
		for _, in := range b.Instrs {
			if c, ok := in.(ssa.CallInstruction); ok {
				out = append(out, c)
			}
		}
	}
	return out
}

// CallSitesOf returns every call instruction in S whose static callee is target.
func (p *Prog) CallSitesOf(target *ssa.Function) []ssa.CallInstruction {
	var out []ssa.CallInstruction
	for _, fn := range p.scopeFuncs {
		for _, c := range Calls(fn) {
			if StaticCallee(c) == target {
				out = append(out, c)
			}
		}
	}
	return out
}

// WriteOnceGlobal reports whether package-level variable g is assigned only by its package initialiser (no store
// to it, and no address of it taken for anything but loads, in any other function of the loaded scope).
func (p *Prog) WriteOnceGlobal(g *ssa.Global) bool {
	if p.writeOnce == nil {
		p.writeOnce = map[*ssa.Global]bool{}
	}
	if v, ok := p.writeOnce[g]; ok {
		return v
	}
	ok := true
	for _, fn := range p.scopeFuncs {
		if fn.Name() == "init" && fn.Pkg == g.Pkg {
			continue
		}
		for _, b := range fn.Blocks {
			for _, in := range b.Instrs {
				for _, op := range in.Operands(nil) {
					if *op != ssa.Value(g) {
						continue
					}
					if u, isLoad := in.(*ssa.UnOp); isLoad && u.Op == token.MUL {
						continue
					}
					ok = false
				}
			}
		}
	}
	p.writeOnce[g] = ok
	return ok
}
