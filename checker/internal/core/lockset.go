package core

import (
	"golang.org/x/tools/go/ssa"
)

// Lockset: intraprocedural must-hold analysis of sync.Mutex / sync.RWMutex fields.
// A lock is identified by "<Struct>.<field>"; the value is 'W' (Lock) or 'R' (RLock).
// A deferred Unlock keeps the lock held until the function returns.

type LockSet map[string]byte

func (l LockSet) clone() LockSet {
	o := LockSet{}
	for k, v := range l {
		o[k] = v
	}
	return o
}

func meet(a, b LockSet) LockSet {
	o := LockSet{}
	for k, v := range a {
		if w, ok := b[k]; ok {
			if v == w {
				o[k] = v
			} else {
				o[k] = 'R' // held at least for reading on both paths
			}
		}
	}
	return o
}

func equalLS(a, b LockSet) bool {
	if len(a) != len(b) {
		return false
	}
	for k, v := range a {
		if b[k] != v {
			return false
		}
	}
	return true
}

// LockOp classifies a call as a lock operation on a struct field.
func LockOp(ci ssa.CallInstruction) (lock string, op string, ok bool) {
	f := StaticCallee(ci)
	if f == nil || f.Signature.Recv() == nil {
		return "", "", false
	}
	if !(IsNamed(f.Signature.Recv().Type(), "sync", "RWMutex") || IsNamed(f.Signature.Recv().Type(), "sync", "Mutex")) {
		return "", "", false
	}
	switch f.Name() {
	case "Lock", "RLock", "Unlock", "RUnlock":
	default:
		return "", "", false
	}
	args := ci.Common().Args
	if len(args) == 0 {
		return "", "", false
	}
	fr, isField := FieldOfAddr(args[0])
	if !isField {
		return "?", f.Name(), true
	}
	name := fr.Name
	if fr.Struct != nil {
		name = fr.Struct.Obj().Name() + "." + CanonFieldName(fr.Struct, fr.Name)
	}
	return name, f.Name(), true
}

// Locksets computes, for every instruction of fn, the locks that are held on every path reaching it
// (the set *before* the instruction executes).
func Locksets(fn *ssa.Function) map[ssa.Instruction]LockSet {
	in := map[*ssa.BasicBlock]LockSet{}
	out := map[*ssa.BasicBlock]LockSet{}
	visited := map[*ssa.BasicBlock]bool{}
	res := map[ssa.Instruction]LockSet{}
	transfer := func(b *ssa.BasicBlock, s LockSet, record bool) LockSet {
		cur := s.clone()
		for _, instr := range b.Instrs {
			if record {
				res[instr] = cur.clone()
			}
			ci, ok := instr.(ssa.CallInstruction)
			if !ok {
				continue
			}
			if _, isDefer := instr.(*ssa.Defer); isDefer {
				continue
			}
			if _, isGo := instr.(*ssa.Go); isGo {
				continue
			}
			lock, op, ok := LockOp(ci)
			if !ok {
				continue
			}
			switch op {
			case "Lock":
				cur[lock] = 'W'
			case "RLock":
				if cur[lock] != 'W' {
					cur[lock] = 'R'
				}
			case "Unlock", "RUnlock":
				delete(cur, lock)
			}
		}
		return cur
	}
	if len(fn.Blocks) == 0 {
		return res
	}
	work := []*ssa.BasicBlock{fn.Blocks[0]}
	in[fn.Blocks[0]] = LockSet{}
	for len(work) > 0 {
		b := work[0]
		work = work[1:]
		o := transfer(b, in[b], false)
		if visited[b] && equalLS(o, out[b]) {
			continue
		}
		visited[b] = true
		out[b] = o
		for _, s := range b.Succs {
			var ni LockSet
			if prev, ok := in[s]; ok {
				ni = meet(prev, o)
				if equalLS(ni, prev) && visited[s] {
					continue
				}
			} else {
				ni = o.clone()
			}
			in[s] = ni
			work = append(work, s)
		}
	}
	for _, b := range fn.Blocks {
		if s, ok := in[b]; ok {
			transfer(b, s, true)
		}
	}
	return res
}
