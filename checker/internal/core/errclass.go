package core

import (
	"fmt"
	"go/token"
	"os"
	"strings"

	"golang.org/x/tools/go/ssa"
)

// ErrClass is a set of possible shapes of an error value (engine E-ERR).
type ErrClass uint8

const (
	CNil    ErrClass = 1 << iota // the nil error
	CEOF                         // io.EOF itself
	CNonNil                      // some non-nil error other than (known) io.EOF
	CAll    = CNil | CEOF | CNonNil
)

func (c ErrClass) String() string {
	if c == 0 {
		return "{}"
	}
	s := "{"
	if c&CNil != 0 {
		s += "nil,"
	}
	if c&CEOF != 0 {
		s += "EOF,"
	}
	if c&CNonNil != 0 {
		s += "non-nil,"
	}
	return s[:len(s)-1] + "}"
}

// MayBeNil / MustBeNonNil helpers.
func (c ErrClass) MayBeNil() bool    { return c&CNil != 0 }
func (c ErrClass) OnlyNil() bool     { return c == CNil }
func (c ErrClass) NeverNil() bool    { return c != 0 && c&CNil == 0 }
func (c ErrClass) MayBeNonNil() bool { return c&(CEOF|CNonNil) != 0 }

// ErrEngine classifies error-typed SSA values.
type ErrEngine struct {
	P *Prog
	// Override lets a rule give the class of calls it models itself (e.g. opaque callbacks).
	Override func(call *ssa.Call, idx int) (ErrClass, bool)
	stored   map[*ssa.Global]bool
	budget   int
}

func NewErrEngine(p *Prog) *ErrEngine {
	e := &ErrEngine{P: p, stored: map[*ssa.Global]bool{}}
	// globals of S that are stored to outside their package initialiser are not sentinels
	for _, fn := range p.ScopeFuncs() {
		if fn.Name() == "init" && fn.Parent() == nil {
			continue
		}
		for _, b := range fn.Blocks {
			for _, in := range b.Instrs {
				if st, ok := in.(*ssa.Store); ok {
					if g, ok := st.Addr.(*ssa.Global); ok {
						e.stored[g] = true
					}
				}
			}
		}
	}
	return e
}

type errEnv map[*ssa.Parameter]ErrClass

// Classify returns the class of error value v as seen at the end of block at.
func (e *ErrEngine) Classify(v ssa.Value, at *ssa.BasicBlock) ErrClass {
	e.budget = classifyBudget
	return e.classify(v, at, nil, 0, map[ssa.Value]bool{})
}

// classifyBudget bounds the work of one query: chains of spilled locals (named results under a defer) branch at every
// load, and the exploration is exponential in their depth. Out of budget, the answer is "any class" (sound).
const classifyBudget = 20000

func (e *ErrEngine) classify(v ssa.Value, at *ssa.BasicBlock, env errEnv, depth int, seen map[ssa.Value]bool) ErrClass {
	if depth > 10 {
		return CAll
	}
	e.budget--
	if e.budget < 0 {
		if e.budget == -1 && os.Getenv("PWV_ERRDEBUG") != "" {
			fmt.Fprintf(os.Stderr, "errclass: budget exhausted classifying %s in %s\n", v.Name(), v.Parent())
		}
		return CAll
	}
	base := e.base(v, at, env, depth, seen)
	return e.refine(v, at, base)
}

// refine narrows the class using nil / io.EOF tests on v whose edge dominates at.
func (e *ErrEngine) refine(v ssa.Value, at *ssa.BasicBlock, c ErrClass) ErrClass {
	if at == nil {
		return c
	}
	for _, r := range Referrers(v) {
		b, ok := r.(*ssa.BinOp)
		if !ok || (b.Op != token.NEQ && b.Op != token.EQL) {
			continue
		}
		var mask ErrClass // class selected when the comparison "v == other" holds
		other := b.Y
		if other == v {
			other = b.X
		}
		switch {
		case IsNilConst(other):
			mask = CNil
		case isEOFLoad(other):
			mask = CEOF
		default:
			continue
		}
		for _, u := range Referrers(b) {
			iff, ok := u.(*ssa.If)
			if !ok {
				continue
			}
			eqIdx, neIdx := 0, 1
			if b.Op == token.NEQ {
				eqIdx, neIdx = 1, 0
			}
			if EdgeDominates(iff.Block(), eqIdx, at) {
				c &= mask
			} else if EdgeDominates(iff.Block(), neIdx, at) {
				c &^= mask
			}
		}
	}
	return c
}

func isEOFLoad(v ssa.Value) bool {
	u, ok := v.(*ssa.UnOp)
	if !ok || u.Op != token.MUL {
		return false
	}
	g, ok := u.X.(*ssa.Global)
	return ok && g.Pkg != nil && g.Pkg.Pkg.Path() == "io" && g.Name() == "EOF"
}

func (e *ErrEngine) base(v ssa.Value, at *ssa.BasicBlock, env errEnv, depth int, seen map[ssa.Value]bool) ErrClass {
	switch x := v.(type) {
	case *ssa.Const:
		if x.Value == nil {
			return CNil
		}
		return CAll
	case *ssa.MakeInterface:
		return CNonNil
	case *ssa.ChangeInterface:
		return e.classify(x.X, at, env, depth, seen)
	case *ssa.ChangeType:
		return e.classify(x.X, at, env, depth, seen)
	case *ssa.Parameter:
		if c, ok := env[x]; ok {
			return c
		}
		return CAll
	case *ssa.Phi:
		if seen[x] {
			return 0
		}
		seen[x] = true
		defer delete(seen, x)
		var c ErrClass
		for i, ed := range x.Edges {
			pred := x.Block().Preds[i]
			ec := e.classify(ed, pred, env, depth, seen)
			// the edge pred -> phi block may itself be the outcome of a nil test on the incoming value
			if iff, ok := pred.Instrs[len(pred.Instrs)-1].(*ssa.If); ok && pred.Succs[0] != pred.Succs[1] {
				if v, nonNilOnTrue, ok := NilTest(iff.Cond); ok && v == ed {
					onTrue := pred.Succs[0] == x.Block()
					if onTrue == nonNilOnTrue {
						ec &^= CNil
					} else {
						ec &= CNil
					}
				}
			}
			c |= ec
		}
		return c
	case *ssa.UnOp:
		if x.Op != token.MUL {
			return CAll
		}
		switch a := x.X.(type) {
		case *ssa.Global:
			if isEOFLoad(x) {
				return CEOF
			}
			if e.P.Scope != nil && a.Pkg != nil && !e.stored[a] && e.inScopePkg(a.Pkg) {
				return CNonNil // package-level sentinel initialised once (errors.New / struct value)
			}
			// exported error sentinels of the standard library (io.ErrUnexpectedEOF, net.ErrClosed, ...): non-nil
			// values distinct from io.EOF
			if a.Pkg != nil && strings.HasPrefix(a.Name(), "Err") {
				switch a.Pkg.Pkg.Path() {
				case "io", "net", "os", "errors", "context", "io/fs", "bufio", "bytes", "strconv":
					return CNonNil
				}
			}
			return CAll
		case *ssa.Alloc:
			return e.loadAlloc(x, a, env, depth, seen)
		}
		return CAll
	case *ssa.Extract:
		if call, ok := x.Tuple.(*ssa.Call); ok {
			return e.call(call, x.Index, env, depth, seen)
		}
		return CAll
	case *ssa.Call:
		if x.Call.IsInvoke() && x.Call.Method.Name() == "Err" && IsNamed(x.Call.Value.Type(), "context", "Context") {
			// trusted contract: Context.Err is monotone (once non-nil it stays non-nil), so a second
			// ctx.Err() in a region guarded by `ctx.Err() != nil` on the same context is non-nil.
			for _, r := range Referrers(x.Call.Value) {
				o, ok := r.(*ssa.Call)
				if !ok || o == x || !o.Call.IsInvoke() || o.Call.Method.Name() != "Err" || o.Call.Value != x.Call.Value {
					continue
				}
				if e.refine(o, x.Block(), CAll)&CNil == 0 {
					return CEOF | CNonNil
				}
			}
			return CAll
		}
		return e.call(x, -1, env, depth, seen)
	}
	return CAll
}

func (e *ErrEngine) inScopePkg(p *ssa.Package) bool {
	for _, sp := range e.P.Scope {
		if sp == p {
			return true
		}
	}
	return false
}

// loadAlloc forwards the last store in the same block (named results spilled because of defers).
func (e *ErrEngine) loadAlloc(load *ssa.UnOp, a *ssa.Alloc, env errEnv, depth int, seen map[ssa.Value]bool) ErrClass {
	blk := load.Block()
	idx := InstrIndex(load)
	for i := idx - 1; i >= 0; i-- {
		if st, ok := blk.Instrs[i].(*ssa.Store); ok && st.Addr == a {
			return e.classify(st.Val, blk, env, depth, seen)
		}
	}
	c := CNil // zero value
	for _, r := range Referrers(a) {
		switch st := r.(type) {
		case *ssa.Store:
			if st.Addr == a {
				c |= e.classify(st.Val, st.Block(), env, depth+1, seen)
			}
		case *ssa.UnOp:
		default:
			return CAll // address escapes (closure capture etc.)
		}
	}
	return c
}

func (e *ErrEngine) call(call *ssa.Call, idx int, env errEnv, depth int, seen map[ssa.Value]bool) ErrClass {
	if e.Override != nil {
		if c, ok := e.Override(call, idx); ok {
			return c
		}
	}
	callee := StaticCallee(call)
	if callee == nil {
		return CAll
	}
	if FuncIs(callee, "errors", "New") || FuncIs(callee, "fmt", "Errorf") {
		return CNonNil
	}
	if !e.P.InScope(callee) {
		return CAll
	}
	ri := ErrorResultIndex(callee.Signature)
	if ri < 0 {
		return CAll
	}
	if idx >= 0 && idx != ri {
		return CAll
	}
	if seen[call] {
		return 0
	}
	seen[call] = true
	defer delete(seen, call)
	// bind argument classes
	cenv := errEnv{}
	for i, p := range callee.Params {
		if i < len(call.Call.Args) && IsErrorType(p.Type()) {
			cenv[p] = e.classify(call.Call.Args[i], call.Block(), env, depth+1, seen)
		}
	}
	var c ErrClass
	for _, b := range callee.Blocks {
		ret, ok := b.Instrs[len(b.Instrs)-1].(*ssa.Return)
		if !ok || ri >= len(ret.Results) {
			continue
		}
		if !feasible(b, cenv) {
			continue
		}
		c |= e.classify(ret.Results[ri], b, cenv, depth+1, seen)
	}
	if callee.Recover != nil {
		c |= CAll // a recovered panic returns whatever the named results hold
	}
	return c
}

// ErrRoots returns the origin values of an error (through phis, extracts, conversions):
// calls, MakeInterface, globals, parameters, nil constants.
func ErrRoots(v ssa.Value) []ssa.Value {
	var out []ssa.Value
	seen := map[ssa.Value]bool{}
	var walk func(v ssa.Value)
	walk = func(v ssa.Value) {
		if seen[v] {
			return
		}
		seen[v] = true
		switch x := v.(type) {
		case *ssa.Phi:
			for _, e := range x.Edges {
				walk(e)
			}
		case *ssa.ChangeInterface:
			walk(x.X)
		case *ssa.ChangeType:
			walk(x.X)
		case *ssa.Extract:
			out = append(out, x.Tuple)
		case *ssa.UnOp:
			if a, ok := x.X.(*ssa.Alloc); ok && x.Op == token.MUL {
				for _, r := range Referrers(a) {
					if st, ok := r.(*ssa.Store); ok && st.Addr == a {
						walk(st.Val)
					}
				}
				return
			}
			out = append(out, v)
		default:
			out = append(out, v)
		}
	}
	walk(v)
	return out
}

// feasible reports whether block b of a callee can be reached given the classes of its error
// parameters: a block dominated by the `p == nil` edge is unreachable when p is never nil, etc.
func feasible(b *ssa.BasicBlock, env errEnv) bool {
	for p, cls := range env {
		for _, r := range Referrers(p) {
			bo, ok := r.(*ssa.BinOp)
			if !ok {
				continue
			}
			v, nonNilOnTrue, ok := NilTest(bo)
			if !ok || v != ssa.Value(p) {
				continue
			}
			for _, u := range Referrers(bo) {
				iff, ok := u.(*ssa.If)
				if !ok {
					continue
				}
				nilIdx, nonNilIdx := 0, 1
				if nonNilOnTrue {
					nilIdx, nonNilIdx = 1, 0
				}
				if EdgeDominates(iff.Block(), nilIdx, b) && !cls.MayBeNil() {
					return false
				}
				if EdgeDominates(iff.Block(), nonNilIdx, b) && cls.OnlyNil() {
					return false
				}
			}
		}
	}
	return true
}
