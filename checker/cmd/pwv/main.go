// Command pwv is the static verifier for the psql-wire properties C01..C20.
//
//	pwv -prop C05 -tier quick|thorough [-repo /repo] [-verif /verif] [-replay file]
//
// Exit 0: every rule of the property was decided and holds (open known findings are printed);
// exit 1: at least one unlisted violation (a VIOLATION line per violation);
// exit 2: infrastructure failure (load / type error, analyser panic).
package main

import (
	"encoding/json"
	"flag"
	"fmt"
	"os"
	"runtime/debug"
	"strconv"

	"pwv/internal/core"
	"pwv/internal/rules"
)

func main() {
	prop := flag.String("prop", "", "property id (C01..C20)")
	tier := flag.String("tier", "", "quick | thorough (default: $VERIF_TIER or quick)")
	repo := flag.String("repo", "/repo", "repository working tree to analyse")
	verif := flag.String("verif", "/verif", "verification directory (evidence, known findings)")
	replay := flag.String("replay", "", "violation report to re-evaluate on the current tree")
	flag.Parse()

	if *tier == "" {
		*tier = os.Getenv("VERIF_TIER")
	}
	if *tier != "thorough" {
		*tier = "quick"
	}
	seed := 0
	if s := os.Getenv("VERIF_SEED"); s != "" {
		if n, err := strconv.Atoi(s); err == nil {
			seed = n
		}
	}
	replayKey := ""
	if *replay != "" {
		b, err := os.ReadFile(*replay)
		if err != nil {
			fmt.Println("ERROR:", err)
			os.Exit(2)
		}
		var doc struct {
			Property   string `json:"property"`
			Obligation struct {
				Key string `json:"key"`
			} `json:"obligation"`
		}
		if err := json.Unmarshal(b, &doc); err != nil {
			fmt.Println("ERROR:", err)
			os.Exit(2)
		}
		replayKey = doc.Obligation.Key
		if *prop == "" {
			*prop = doc.Property
		}
	}
	run, ok := rules.Registry[*prop]
	if !ok {
		fmt.Printf("ERROR: unknown property %q\n", *prop)
		os.Exit(2)
	}

	code := func() (code int) {
		defer func() {
			if r := recover(); r != nil {
				fmt.Printf("ERROR: analyser panic: %v\n%s\n", r, debug.Stack())
				code = 2
			}
		}()
		rep := core.NewReport(*prop, *tier, seed)
		p, err := core.Load(core.LoadOpts{Repo: *repo})
		if err != nil {
			fmt.Println("ERROR:", err)
			return 2
		}
		rep.Count("packages_loaded", len(p.Pkgs))
		rep.Count("ssa_functions_whole_program", len(p.AllFuncs))
		rep.Count("scope_functions", len(p.ScopeFuncs()))
		ctx := &rules.Ctx{P: p, R: rep, Tier: *tier, Repo: *repo, Verif: *verif}
		run(ctx)
		if *tier == "thorough" {
			rules.Thorough(ctx, *prop, os.Args[0])
		}
		return rep.Finish(*verif, replayKey)
	}()
	os.Exit(code)
}
