#!/bin/bash
# Triage helper (NOT a check): copies /repo's working tree (or the commit given as $1) into a
# scratch directory, adds zz_defects_test.go and runs the demonstrations. Removes the scratch copy.
set -u
export GOFLAGS=-mod=mod GOPROXY=off GOSUMDB=off GOTOOLCHAIN=local
D=$(mktemp -d /tmp/triage.XXXXXX)
trap 'rm -rf "$D"' EXIT
if [ -n "${1:-}" ]; then git -C /repo archive "$1" | tar -x -C "$D"; else rsync -a --exclude .git /repo/ "$D"/; fi
cp /verif/triage/zz_defects_test.go "$D"/
cd "$D" && go test -vet=off -count=1 -race -run 'TestDefect' ${2:-} . 2>&1 | grep -vE "^=== RUN|^=== (PAUSE|CONT)"
