package wire

// Triage demonstrations for the pinned-tree defects listed in DESIGN.md §6.
// NOT a check: this file is copied into a scratch copy of /repo by
// /verif/triage/run.sh to show that each defect is genuine on the pinned tree
// and repaired by its "fix:" commit. Verdicts of the verification framework
// come from the static checker only.

import (
	"bytes"
	"context"
	"encoding/binary"
	"errors"
	"io"
	"log/slog"
	"net"
	"sync"
	"testing"
	"time"

	"github.com/jeroenrinzema/psql-wire/codes"
	psqlerr "github.com/jeroenrinzema/psql-wire/errors"
	"github.com/jeroenrinzema/psql-wire/pkg/buffer"
	"github.com/jackc/pgx/v5/pgtype"
	"github.com/lib/pq/oid"
)

var quiet = slog.New(slog.NewTextHandler(io.Discard, nil))

func msg(t byte, body ...[]byte) []byte {
	b := bytes.Join(body, nil)
	out := make([]byte, 0, len(b)+5)
	if t != 0 {
		out = append(out, t)
	}
	out = binary.BigEndian.AppendUint32(out, uint32(len(b)+4))
	return append(out, b...)
}

func cstr(s string) []byte { return append([]byte(s), 0) }
func u16(v uint16) []byte  { return binary.BigEndian.AppendUint16(nil, v) }
func u32(v uint32) []byte  { return binary.BigEndian.AppendUint32(nil, v) }

func startup() []byte {
	return msg(0, u32(196608), cstr("user"), cstr("u"), cstr("database"), cstr("d"), []byte{0})
}

type frame struct {
	T    byte
	Body []byte
}

// run feeds input to a fresh connection served by srv.serve and returns the
// backend messages received until the server closes the connection (or the
// deadline passes after the input was written).
func run(t *testing.T, srv *Server, input []byte, wait time.Duration) (frames []frame, types string) {
	t.Helper()
	client, server := net.Pipe()
	done := make(chan struct{})
	go func() {
		defer close(done)
		srv.serve(context.Background(), server) //nolint:errcheck
	}()

	var mu sync.Mutex
	readDone := make(chan struct{})
	go func() {
		defer close(readDone)
		for {
			hdr := make([]byte, 5)
			if _, err := io.ReadFull(client, hdr); err != nil {
				return
			}
			n := int(binary.BigEndian.Uint32(hdr[1:])) - 4
			body := make([]byte, n)
			if _, err := io.ReadFull(client, body); err != nil {
				return
			}
			mu.Lock()
			frames = append(frames, frame{hdr[0], body})
			mu.Unlock()
		}
	}()

	go func() {
		client.Write(input) //nolint:errcheck
	}()

	select {
	case <-done:
	case <-time.After(wait):
	}
	client.Close()
	<-readDone
	<-done
	mu.Lock()
	defer mu.Unlock()
	for _, f := range frames {
		types += string(f.T)
	}
	return frames, types
}

func newSrv(t *testing.T, parse ParseFn, opts ...OptionFn) *Server {
	opts = append([]OptionFn{Logger(quiet)}, opts...)
	srv, err := NewServer(parse, opts...)
	if err != nil {
		t.Fatal(err)
	}
	return srv
}

// C01: a rejected password must not yield a session.
func TestDefectC01RejectedPassword(t *testing.T) {
	ran := false
	parse := func(ctx context.Context, q string) (PreparedStatements, error) {
		ran = true
		return Prepared(NewStatement(func(ctx context.Context, w DataWriter, p []Parameter) error { return w.Complete("OK") })), nil
	}
	auth := ClearTextPassword(func(ctx context.Context, db, user, pw string) (context.Context, bool, error) {
		return ctx, pw == "good", nil
	})
	srv := newSrv(t, parse, SessionAuthStrategy(auth))
	in := append(startup(), msg('p', cstr("bad"))...)
	in = append(in, msg('Q', cstr("select 1"))...)
	_, types := run(t, srv, in, 500*time.Millisecond)
	t.Logf("transcript %q", types)
	if ran || bytes.Contains([]byte(types), []byte("C")) || bytes.Contains([]byte(types), []byte("S")) {
		t.Fatalf("session served after rejected password: transcript %q parseRan=%v", types, ran)
	}
}

func errFields(t *testing.T, body []byte) map[byte]string {
	out := map[byte]string{}
	for len(body) > 0 {
		code := body[0]
		if code == 0 {
			if len(body) != 1 {
				t.Fatalf("bytes after ErrorResponse terminator: %q", body[1:])
			}
			return out
		}
		end := bytes.IndexByte(body[1:], 0)
		if end < 0 {
			t.Fatalf("unterminated field %q", body)
		}
		if _, dup := out[code]; dup {
			t.Fatalf("duplicate field %q", code)
		}
		out[code] = string(body[1 : 1+end])
		body = body[end+2:]
	}
	t.Fatalf("missing terminator")
	return nil
}

// C02/C17: source line is text, constraint name is sent.
func TestDefectC17ErrorFields(t *testing.T) {
	sink := &bytes.Buffer{}
	w := buffer.NewWriter(quiet, sink)
	err := psqlerr.WithConstraintName(psqlerr.WithSource(psqlerr.WithCode(errors.New("boom"), codes.Syntax), "file.go", 7, "fn"), "my_constraint")
	if e := ErrorCode(w, err); e != nil {
		t.Fatal(e)
	}
	raw := sink.Bytes()
	n := int(binary.BigEndian.Uint32(raw[1:5]))
	fields := errFields(t, raw[5:1+n])
	t.Logf("%q", fields)
	if fields['L'] != "7" {
		t.Errorf("L = %q, want \"7\"", fields['L'])
	}
	if fields['n'] != "my_constraint" {
		t.Errorf("n = %q, want my_constraint", fields['n'])
	}
}

func copyReader(t *testing.T, columns Columns, stream ...[]byte) (*BinaryCopyReader, context.Context) {
	in := bytes.NewBuffer(bytes.Join(stream, nil))
	reader := buffer.NewReader(quiet, in, 0)
	writer := buffer.NewWriter(quiet, &bytes.Buffer{})
	ctx := setTypeInfo(context.Background(), pgtype.NewMap())
	br, err := NewBinaryColumnReader(ctx, NewCopyReader(reader, writer, columns))
	if err != nil {
		t.Fatal(err)
	}
	return br, ctx
}

// C04/C14: a row announcing more fields than columns is an error, not a panic.
func TestDefectC14FieldCount(t *testing.T) {
	cols := Columns{{Name: "a", Oid: oid.T_int4}}
	row := bytes.Join([][]byte{u16(2), u32(4), u32(1), u32(4), u32(2)}, nil)
	br, ctx := copyReader(t, cols, msg('d', row))
	defer func() {
		if r := recover(); r != nil {
			t.Fatalf("panic: %v", r)
		}
	}()
	_, err := br.Read(ctx)
	if err == nil {
		t.Fatal("expected an error for a 2-field row in a 1-column table")
	}
}

// C14: end-of-data trailer followed by CopyDone is end of stream.
func TestDefectC14Trailer(t *testing.T) {
	cols := Columns{{Name: "a", Oid: oid.T_int4}}
	row := bytes.Join([][]byte{u16(1), u32(4), u32(9)}, nil)
	br, ctx := copyReader(t, cols, msg('d', row), msg('d', u16(0xFFFF)), msg('c'))
	v, err := br.Read(ctx)
	if err != nil || len(v) != 1 || v[0] != int32(9) {
		t.Fatalf("row: %v %v", v, err)
	}
	_, err = br.Read(ctx)
	if err != io.EOF {
		t.Fatalf("trailer: got %v, want io.EOF", err)
	}
}

// C04/C20: ParseParameters is total.
func TestDefectC20ParseParameters(t *testing.T) {
	defer func() {
		if r := recover(); r != nil {
			t.Fatalf("panic: %v", r)
		}
	}()
	if n := len(ParseParameters("select $5")); n != 5 {
		t.Errorf("$5: len %d", n)
	}
	if n := len(ParseParameters("select $99999999999999999999999")); n > 65535 {
		t.Errorf("huge: len %d", n)
	}
	if n := len(ParseParameters("select $2, $1, ?")); n < 2 {
		t.Errorf("mixed: len %d", n)
	}
}

// C05: rejected rows are not counted.
func TestDefectC05RowCounter(t *testing.T) {
	w := buffer.NewWriter(quiet, &bytes.Buffer{})
	ctx := setTypeInfo(context.Background(), pgtype.NewMap())
	dw := NewDataWriter(ctx, Columns{{Name: "a", Oid: oid.T_text}}, nil, nil, w)
	if err := dw.Row([]any{"x", "y"}); err == nil {
		t.Fatal("expected arity error")
	}
	if dw.Written() != 0 {
		t.Fatalf("Written() = %d after a rejected row", dw.Written())
	}
}

func stmtServer(t *testing.T, seen *[][]byte) *Server {
	parse := func(ctx context.Context, q string) (PreparedStatements, error) {
		fn := func(ctx context.Context, w DataWriter, p []Parameter) error {
			for _, x := range p {
				*seen = append(*seen, x.Value())
			}
			return w.Complete("OK")
		}
		return Prepared(NewStatement(fn, WithParameters(ParseParameters(q)))), nil
	}
	return newSrv(t, parse)
}

// C08: NULL parameter reaches the handler as nil; empty stays non-nil.
func TestDefectC08NullParameter(t *testing.T) {
	var seen [][]byte
	srv := stmtServer(t, &seen)
	in := startup()
	in = append(in, msg('P', cstr("s"), cstr("select $1, $2"), u16(0))...)
	in = append(in, msg('B', cstr(""), cstr("s"), u16(0), u16(2), u32(0xFFFFFFFF), u32(0), u16(0))...)
	in = append(in, msg('E', cstr(""), u32(0))...)
	in = append(in, msg('S')...)
	_, types := run(t, srv, in, 500*time.Millisecond)
	t.Logf("transcript %q", types)
	if len(seen) != 2 || seen[0] != nil || seen[1] == nil || len(seen[1]) != 0 {
		t.Fatalf("parameters seen: %#v (transcript %q)", seen, types)
	}
}

// C09: typed NULLs are sent as -1.
func TestDefectC09TypedNull(t *testing.T) {
	sink := &bytes.Buffer{}
	w := buffer.NewWriter(quiet, sink)
	ctx := setTypeInfo(context.Background(), pgtype.NewMap())
	cols := Columns{{Name: "a", Oid: oid.T_text}, {Name: "b", Oid: oid.T_text}, {Name: "c", Oid: oid.T_text}}
	if err := cols.Write(ctx, nil, w, []any{nil, (*string)(nil), ""}); err != nil {
		t.Fatal(err)
	}
	raw := sink.Bytes()[5:]
	want := bytes.Join([][]byte{u16(3), u32(0xFFFFFFFF), u32(0xFFFFFFFF), u32(0)}, nil)
	if !bytes.Equal(raw, want) {
		t.Fatalf("DataRow body % x, want % x", raw, want)
	}
}

// C13: CopyFail surfaces as a non-nil, non-EOF error and one error cycle.
func TestDefectC13CopyFail(t *testing.T) {
	var got error
	parse := func(ctx context.Context, q string) (PreparedStatements, error) {
		fn := func(ctx context.Context, w DataWriter, p []Parameter) error {
			cr, err := w.CopyIn(BinaryFormat)
			if err != nil {
				return err
			}
			got = cr.Read()
			if got != nil {
				return got
			}
			return errors.New("handler saw success after CopyFail")
		}
		return Prepared(NewStatement(fn, WithColumns(Columns{{Name: "a", Oid: oid.T_int4}}))), nil
	}
	srv := newSrv(t, parse)
	in := append(startup(), msg('Q', cstr("copy"))...)
	in = append(in, msg('f', cstr("nope"))...)
	_, types := run(t, srv, in, 500*time.Millisecond)
	t.Logf("transcript %q err=%v", types, got)
	if got == nil || got == io.EOF {
		t.Fatalf("handler saw %v", got)
	}
	if n := bytes.Count([]byte(types), []byte("E")); n != 1 {
		t.Fatalf("%d ErrorResponses in %q", n, types)
	}
}

// C06: unknown statement / portal is an ErrorResponse, never silence or a drop.
func TestDefectC06UnknownNames(t *testing.T) {
	var seen [][]byte
	srv := stmtServer(t, &seen)
	in := startup()
	in = append(in, msg('B', cstr(""), cstr("nosuch"), u16(0), u16(0), u16(0))...)
	in = append(in, msg('S')...)
	in = append(in, msg('E', cstr("nosuch"), u32(0))...)
	in = append(in, msg('S')...)
	_, types := run(t, srv, in, 500*time.Millisecond)
	t.Logf("transcript %q", types)
	tail := types[bytes.LastIndexByte([]byte(types), 'S')+1:] // after the ParameterStatus block
	if n := bytes.Count([]byte(tail), []byte("E")); n != 2 {
		t.Fatalf("want 2 ErrorResponses after startup, transcript %q", types)
	}
}

// C16: concurrent Close never panics.
func TestDefectC16ConcurrentClose(t *testing.T) {
	for round := 0; round < 20000; round++ {
		srv := newSrv(t, nil)
		var wg sync.WaitGroup
		for i := 0; i < 8; i++ {
			wg.Add(1)
			go func() {
				defer wg.Done()
				srv.Close() //nolint:errcheck
			}()
		}
		wg.Wait()
	}
}

// C15: run with -race: connections must not share an unsynchronised type map.
func TestDefectC15SharedTypeMap(t *testing.T) {
	parse := func(ctx context.Context, q string) (PreparedStatements, error) {
		fn := func(ctx context.Context, w DataWriter, p []Parameter) error {
			for i := 0; i < 20; i++ {
				if err := w.Row([]any{int32(i), "x"}); err != nil {
					return err
				}
			}
			return w.Complete("OK")
		}
		return Prepared(NewStatement(fn, WithColumns(Columns{{Name: "a", Oid: oid.T_int4}, {Name: "b", Oid: oid.T_text}}))), nil
	}
	srv := newSrv(t, parse)
	var wg sync.WaitGroup
	for c := 0; c < 8; c++ {
		wg.Add(1)
		go func() {
			defer wg.Done()
			in := startup()
			for i := 0; i < 5; i++ {
				in = append(in, msg('Q', cstr("q"))...)
			}
			in = append(in, msg('X')...)
			run(t, srv, in, 2*time.Second)
		}()
	}
	wg.Wait()
}

// C19: after Terminate nothing else is served, even if more messages were pipelined in the
// same segment (they sit in the buffered reader), and the hook runs once.
func TestDefectC19TerminateStops(t *testing.T) {
	hooks, parsed := 0, 0
	parse := func(ctx context.Context, q string) (PreparedStatements, error) {
		parsed++
		return Prepared(NewStatement(func(ctx context.Context, w DataWriter, p []Parameter) error { return w.Complete("OK") })), nil
	}
	srv := newSrv(t, parse, TerminateConn(func(ctx context.Context) error { hooks++; return nil }))
	in := append(startup(), msg('X')...)
	in = append(in, msg('X')...)
	in = append(in, msg('Q', cstr("select 1"))...)
	_, types := run(t, srv, in, 500*time.Millisecond)
	t.Logf("transcript %q hooks=%d parsed=%d", types, hooks, parsed)
	if hooks != 1 || parsed != 0 {
		t.Fatalf("after Terminate: hook ran %d times, parser ran %d times", hooks, parsed)
	}
}

// C10: an oversized CopyData during COPY-in must be skipped in full; the message after it is
// processed normally (here: the next Query is answered).
func TestDefectC10OversizedCopyData(t *testing.T) {
	parse := func(ctx context.Context, q string) (PreparedStatements, error) {
		if q == "COPY" {
			return Prepared(NewStatement(func(ctx context.Context, w DataWriter, p []Parameter) error {
				r, err := w.CopyIn(BinaryFormat)
				if err != nil {
					return err
				}
				for {
					if err = r.Read(); err != nil {
						return err
					}
				}
			}, WithColumns(Columns{{Name: "a", Oid: oid.T_int4}}))), nil
		}
		return Prepared(NewStatement(func(ctx context.Context, w DataWriter, p []Parameter) error { return w.Complete("OK") })), nil
	}
	srv := newSrv(t, parse, MessageBufferSize(64))
	big := bytes.Repeat([]byte{'Q'}, 300)
	in := bytes.Join([][]byte{startup(), msg('Q', cstr("COPY")), msg('d', big), msg('Q', cstr("SELECT 1"))}, nil)
	_, types := run(t, srv, in, 700*time.Millisecond)
	t.Logf("transcript %q", types)
	if !bytes.HasSuffix([]byte(types), []byte("GEZCZ")) {
		t.Fatalf("after the oversized CopyData the next message was not processed normally: %q", types)
	}
}

// C03: bytes left over in the Query message (after the NUL) are not COPY data.
func TestDefectC03SurplusIntoCopy(t *testing.T) {
	var rows [][]any
	parse := func(ctx context.Context, q string) (PreparedStatements, error) {
		return Prepared(NewStatement(func(ctx context.Context, w DataWriter, p []Parameter) error {
			r, err := w.CopyIn(BinaryFormat)
			if err != nil {
				return err
			}
			br, err := NewBinaryColumnReader(ctx, r)
			if err != nil {
				return err
			}
			for {
				row, err := br.Read(ctx)
				if err != nil {
					break
				}
				rows = append(rows, row)
			}
			return w.Complete("COPY")
		}, WithColumns(Columns{{Name: "a", Oid: oid.T_int4}}))), nil
	}
	srv := newSrv(t, parse)
	surplus := bytes.Join([][]byte{u16(1), u32(4), u32(7)}, nil) // looks like one binary row
	in := bytes.Join([][]byte{startup(), msg('Q', cstr("COPY t FROM STDIN"), surplus), msg('c')}, nil)
	_, types := run(t, srv, in, 700*time.Millisecond)
	t.Logf("transcript %q rows=%v", types, rows)
	if len(rows) != 0 {
		t.Fatalf("bytes left over in the Query message were decoded as COPY row %v", rows)
	}
}

// C02: Describe with target byte 0: the ErrorResponse stays a list of fields closed by one zero byte.
func TestDefectC02DescribeNul(t *testing.T) {
	parse := func(ctx context.Context, q string) (PreparedStatements, error) {
		return Prepared(NewStatement(func(ctx context.Context, w DataWriter, p []Parameter) error { return w.Complete("OK") })), nil
	}
	srv := newSrv(t, parse)
	in := bytes.Join([][]byte{startup(), msg('D', []byte{0}, cstr("x")), msg('S')}, nil)
	frames, types := run(t, srv, in, 500*time.Millisecond)
	t.Logf("transcript %q", types)
	for _, f := range frames {
		if f.T != 'E' {
			continue
		}
		b := f.Body
		for len(b) > 0 && b[0] != 0 {
			i := bytes.IndexByte(b[1:], 0)
			if i < 0 {
				t.Fatalf("unterminated field in %q", f.Body)
			}
			b = b[1+i+1:]
		}
		if len(b) != 1 {
			t.Fatalf("ErrorResponse body is not fields + one terminator: %q", f.Body)
		}
	}
}
