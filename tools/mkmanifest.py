#!/usr/bin/env python3
"""Regenerates /verif/MANIFEST.json from tools/claims.json (one entry per claimed property)."""
import json, os
V = os.path.dirname(os.path.dirname(os.path.abspath(__file__)))
claims = json.load(open(os.path.join(V, "tools", "claims.json")))
props = [json.loads(l) for l in open(os.path.join(V, "properties.jsonl"))]
env = "GOFLAGS=-mod=mod GOPROXY=off GOSUMDB=off GOTOOLCHAIN=local GOWORK=off"
checks, na = [], []
for p in props:
    pid = p["id"]
    c = claims.get(pid)
    if not c or c.get("not_applicable"):
        na.append({"property_id": pid, "reason": (c or {}).get("not_applicable", "static check not built yet in this session (planned in DESIGN.md §4); nothing is claimed for it")})
        continue
    checks.append({
        "property_id": pid,
        "quick_cmd": f"{env} ./bin/pwv -prop {pid} -tier quick",
        "thorough_cmd": f"{env} ./bin/pwv -prop {pid} -tier thorough",
        "evidence_file": f"/verif/evidence/{pid}.json",
        "replay_cmd_template": f"{env} ./bin/pwv -prop {pid} -replay {{path}}",
        "engine": "pwv",
        "level_claimed": {"category": "other", "text": c["text"], "design_ref": c.get("design_ref", "DESIGN.md §4 " + pid)},
        "level_note": c["note"],
        "technique": c["technique"],
    })
m = {
    "version": 1,
    "setup_cmd": f"cd /verif/checker && {env} go build -o ../bin/pwv ./cmd/pwv",
    "hooks": {
        "guard": "verif",
        "enable": "none: static analysis needs no instrumentation; no hook commits exist in /repo (the build tag 'verif' is reserved and unused)",
        "baseline_off_cmd": f"cd /repo && {env} go test -vet=off -count=1 ./...",
        "source_commits": [],
        "add_only": True,
    },
    "engines": [{"name": "pwv", "path": "/verif/checker", "serves_properties": [c["property_id"] for c in checks],
                 "kind_free_text": "repository-specific static analyser over go/packages + go/ssa (x/tools v0.29.0): dominance, error-class, typestate/trace (CFG x DFA with summaries), ownership/provenance, linear bounds, lockset rules"}],
    "checks": checks,
    "not_applicable": na,
    "notes": "All verdicts come from static analysis of /repo's current working tree (type-checked source and SSA form); nothing is executed. 'fix:' commits in /repo repair genuine pinned-tree defects (see known_findings.jsonl, DESIGN.md §6). /verif/triage and /verif/seeded hold demonstrations only, never verdicts.",
}
json.dump(m, open(os.path.join(V, "MANIFEST.json"), "w"), indent=1)
print("claimed:", [c["property_id"] for c in checks], "not_applicable:", [n["property_id"] for n in na])
