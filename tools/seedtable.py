#!/usr/bin/env python3
"""Print the catch matrix of DESIGN.md section 7 from seeded/*/meta.json and seeded/titles.json."""
import json, glob, os
root = os.path.dirname(os.path.dirname(os.path.abspath(__file__)))
titles = json.load(open(os.path.join(root, "seeded", "titles.json")))
rows = []
for m in sorted(glob.glob(os.path.join(root, "seeded", "*", "meta.json"))):
    d = json.load(open(m))
    own = d["breaks_property"]
    fires = d["checks_that_fire"]
    fires = ([own] if own in fires else []) + [c for c in fires if c != own]
    txt = " ".join(fires) if fires else "**none**"
    if fires and own not in fires:
        txt += " (not " + own + ")"
    rows.append((d["seed"], titles.get(d["seed"], ""), txt))
half = (len(rows) + 1) // 2
print("| seed | fires | seed | fires |")
print("|---|---|---|---|")
for i in range(half):
    a = rows[i]
    b = rows[i + half] if i + half < len(rows) else ("", "", "")
    print(f"| {a[0]} {a[1]} | {a[2]} | {b[0]} {b[1]} | {b[2]} |")
own = sum(1 for s, _, t in rows if "none" not in t and "(not" not in t)
anyc = sum(1 for s, _, t in rows if "none" not in t)
print()
print(f"{len(rows)} seeded changes: {anyc} detected, {own} of them by the check of the property they target.")
