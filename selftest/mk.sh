#!/bin/bash
# mk.sh <name> <file> <python-expr old> <new>  : creates selftest/mut/<name>.diff replacing the first occurrence of old by new in /repo/<file>
set -eu
cd /repo
python3 - "$2" "$3" "$4" <<'PY'
import sys
p,old,new=sys.argv[1:4]
s=open(p).read()
assert old in s, "pattern not found: "+old
open(p,'w').write(s.replace(old,new,1))
PY
mkdir -p /verif/selftest/mut
git diff > /verif/selftest/mut/$1.diff
export GOFLAGS=-mod=mod GOPROXY=off GOSUMDB=off GOTOOLCHAIN=local
go build ./... || echo "DOES NOT COMPILE: $1"
git checkout -- .
