#!/bin/bash
# seed_confirm.sh <seed> : re-confirm a stored seeded change against /repo's HEAD in a scratch worktree
# (clean tree: demo passes; with the change: builds, suite passes, demo fails). Prints one line.
set -u
export GOFLAGS=-mod=mod GOPROXY=off GOSUMDB=off GOTOOLCHAIN=local
sd=$1; D=/verif/seeded/$sd
W=$(mktemp -d /tmp/seedc.XXXXXX); rmdir $W
git -C /repo worktree add -q --detach $W HEAD || exit 2
trap 'git -C /repo worktree remove --force '$W' >/dev/null 2>&1; rm -rf '$W EXIT
place=$(python3 -c "import json;print(json.load(open('$D/meta.json'))['demo']['place_at'])")
runcmd=$(python3 -c "import json;print(json.load(open('$D/meta.json'))['demo']['run'])")
cd $W
git apply --check $D/patch.diff 2>/dev/null || { echo "$sd: PATCH DOES NOT APPLY on HEAD"; exit 1; }
cp $D/demo_test.go $place
eval "$runcmd" >/dev/null 2>&1; crc=$?
git apply $D/patch.diff
go build ./... >/dev/null 2>&1; brc=$?
eval "$runcmd" >/dev/null 2>&1; drc=$?
rm -f $place
suite=$(timeout 300 go test -vet=off -count=1 ./... 2>&1 | grep -E "^(FAIL|---|panic)" | head -2)
ok=CONFIRMED; if [ $crc -ne 0 ] || [ $brc -ne 0 ] || [ $drc -eq 0 ] || [ -n "$suite" ]; then ok="NOT-CONFIRMED"; fi
echo "$sd: $ok clean_demo_rc=$crc build_rc=$brc patched_demo_rc=$drc suite='${suite}'"
