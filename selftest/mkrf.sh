#!/bin/bash
# mkrf.sh <name> <file> <old> <new>: like mk.sh but stores a behaviour-preserving refactoring under selftest/refactor/ and runs the test suite
set -eu
cd /repo
python3 - "$2" "$3" "$4" <<'PY'
import sys
p,old,new=sys.argv[1:4]
s=open(p).read()
assert old in s, "pattern not found: "+old[:60]
open(p,'w').write(s.replace(old,new,1))
PY
git diff > /verif/selftest/refactor/$1.diff
export GOFLAGS=-mod=mod GOPROXY=off GOSUMDB=off GOTOOLCHAIN=local
(go build ./... && go test -vet=off -count=1 ./... >/dev/null 2>&1) || echo "BROKEN: $1"
git checkout -- .
