#!/bin/bash
# regress.sh: every stored mutant must still be detected by its check (development helper, not a registered check)
cd /verif
benign="c02_count_off c03_reset_keep"
fail=0
for m in selftest/mut/*.diff; do
  n=$(basename $m .diff); p=$(echo $n | cut -c1-3 | tr c C)
  case " $benign " in *" $n "*) continue;; esac
  git -C /repo apply --check /verif/$m 2>/dev/null || { echo "SKIP $n (does not apply)"; continue; }
  out=$(./selftest/try.sh $m $p 2>&1 | grep -E "^== " )
  echo "$out" | grep -q "exit=1" || { echo "MISSED $n by $p: $out"; fail=1; }
done
python3 - <<'PY' > /tmp/seedlist.txt
import json,glob
for m in sorted(glob.glob('/verif/seeded/*/meta.json')):
    d=json.load(open(m))
    own=d['breaks_property']
    checks=d['checks_that_fire']
    print(d['seed'], d['base_commit'], own, ' '.join(checks))
PY
head=$(git -C /repo rev-parse --short HEAD)
while read seed base own checks; do
  [ -z "$checks" ] && continue
  opt=""; git -C /repo apply --check /verif/seeded/$seed/patch.diff 2>/dev/null || opt="-B $base"
  out=$(./selftest/try.sh $opt seeded/$seed/patch.diff $checks 2>&1 | grep -E "^== ")
  for c in $checks; do echo "$out" | grep -q "$c exit=1" || { echo "MISSED seeded/$seed by $c"; fail=1; }; done
done < /tmp/seedlist.txt
rm -f /tmp/seedlist.txt
[ $fail = 0 ] && echo "regress: all stored mutants still detected"
