#!/bin/bash
# [SRCROOT=/tmp/s2 OFFSET=2] seed_verify.sh <ID> <N> : confirm a seeded change produced by a sub-agent in $SRCROOT/<ID>/out/<N>/ (stored as <ID>-<N+OFFSET>)
# (clean tree: demo passes; patched: builds, suite passes, demo fails), run all 20 checks against it,
# and store it as /verif/seeded/<ID>-<N>/ {patch.diff, demo_test.go, meta.json}.
set -u
export GOFLAGS=-mod=mod GOPROXY=off GOSUMDB=off GOTOOLCHAIN=local
ID=$1; N=$2; SRC=${SRCROOT:-/tmp/wt}/$ID/out/$N; SN=$((N+${OFFSET:-0}))
[ -f $SRC/patch.diff ] || { echo "no patch in $SRC"; exit 2; }
BASE=HEAD
git -C /repo apply --check $SRC/patch.diff 2>/dev/null || BASE=08bd7f5
W=$(mktemp -d /tmp/seedv.XXXXXX); rmdir $W
git -C /repo worktree add -q --detach $W $BASE || exit 2
trap 'git -C /repo worktree remove --force '$W' >/dev/null 2>&1; rm -rf '$W EXIT
PKG=$(grep -m1 '^package ' $SRC/demo_test.go | awk '{print $2}')
case $PKG in wire|wire_test) DIR=. ;; buffer|buffer_test) DIR=pkg/buffer ;; errors|errors_test) DIR=errors ;; *) DIR=. ;; esac
TESTS=$(grep -oE '^func (Test[A-Za-z0-9_]+)' $SRC/demo_test.go | awk '{print $2}' | paste -sd'|')
cp $SRC/demo_test.go $W/$DIR/zz_seed_demo_test.go
cd $W
clean=$(go test -vet=off -count=1 -run "^($TESTS)\$" ./$DIR 2>&1); crc=$?; clean=$(echo "$clean" | tail -3)
git apply $SRC/patch.diff || { echo "patch does not apply on $BASE"; exit 2; }
go build ./... >/dev/null 2>&1; brc=$?
demo=$(go test -vet=off -count=1 -run "^($TESTS)\$" ./$DIR 2>&1); drc=$?; demo=$(echo "$demo" | grep -E "^(---|FAIL|panic|ok)" | head -4)
rm $W/$DIR/zz_seed_demo_test.go
suite=$(go test -vet=off -count=1 ./... 2>&1 | grep -E "^(FAIL|---|panic)" | head -3); src=$?
suiteok=1; [ -n "$suite" ] && suiteok=0
echo "$ID-$SN base=$BASE clean_demo_rc=$crc build_rc=$brc patched_demo_rc=$drc suite_ok=$suiteok"
if [ $crc -ne 0 ] || [ $brc -ne 0 ] || [ $drc -eq 0 ] || [ $suiteok -ne 1 ]; then echo "NOT CONFIRMED: $clean | $demo | $suite"; exit 1; fi
# run the checks against the change (in /repo itself, restored afterwards)
cd /verif
caught=""
if [ "$BASE" = HEAD ]; then OUT=$(./selftest/try.sh $SRC/patch.diff $(seq -f 'C%02g' 1 20)); else OUT=$(./selftest/try.sh -B $BASE $SRC/patch.diff $(seq -f 'C%02g' 1 20)); fi
caught=$(echo "$OUT" | grep -E "^== C[0-9]+ exit=1" | awk '{print $2}' | paste -sd' ')
mkdir -p /verif/seeded/$ID-$SN
cp $SRC/patch.diff /verif/seeded/$ID-$SN/patch.diff
cp $SRC/demo_test.go /verif/seeded/$ID-$SN/demo_test.go
python3 - "$ID" "$SN" "$BASE" "$DIR" "$TESTS" "$caught" "$SRC" <<'PY'
import json,sys,re,subprocess
ID,N,BASE,DIR,TESTS,caught,SRC=sys.argv[1:8]
notes=open(SRC+"/notes.md").read()
base=subprocess.check_output(["git","-C","/repo","rev-parse","--short",BASE]).decode().strip()
meta={"breaks_property":ID,"seed":f"{ID}-{N}","base_commit":base,
 "demo":{"file":"demo_test.go","place_at":f"{DIR}/zz_seed_demo_test.go","run":f"go test -vet=off -count=1 -run '^({TESTS})$' ./{DIR}"},
 "confirmed":{"clean_tree_demo":"pass","patched_build":"ok","patched_suite":"pass","patched_demo":"fail","how":"selftest/seed_verify.sh in a scratch worktree of /repo (removed afterwards)"},
 "needs_to_manifest":re.sub(r"\s+"," ",notes)[:900],
 "checks_that_fire":caught.split()}
json.dump(meta,open(f"/verif/seeded/{ID}-{N}/meta.json","w"),indent=1)
print("stored; caught by:",caught or "NONE")
PY
