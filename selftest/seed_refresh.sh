#!/bin/bash
# seed_refresh.sh [seed...] : re-run all 20 checks against every stored seeded change and rewrite
# checks_that_fire in its meta.json (development helper; applies each patch to /repo and restores it).
cd /verif
head=$(git -C /repo rev-parse --short HEAD)
seeds="$@"; [ -z "$seeds" ] && seeds=$(ls seeded)
for sd in $seeds; do
  frozen=$(python3 -c "import json;print(json.load(open('seeded/$sd/meta.json')).get('frozen',False))")
  [ "$frozen" = "True" ] && { echo "$sd: (frozen: superseded by a later fix, see its note)"; continue; }
  base=$(python3 -c "import json;print(json.load(open('seeded/$sd/meta.json'))['base_commit'])")
  opt=""; git -C /repo apply --check /verif/seeded/$sd/patch.diff 2>/dev/null || opt="-B $base"
  out=$(./selftest/try.sh $opt seeded/$sd/patch.diff $(seq -f 'C%02g' 1 20) 2>&1)
  fired=$(echo "$out" | grep -E "^== C[0-9]+ exit=1" | awk '{print $2}' | paste -sd' ')
  if [ -n "$opt" ]; then
    # the seed's base tree predates later fixes: checks that already fire on the base tree alone do not count
    basefired=$(./selftest/try.sh $opt none $(seq -f 'C%02g' 1 20) 2>&1 | grep -E "^== C[0-9]+ exit=1" | awk '{print $2}' | paste -sd' ')
    fired=$(for f in $fired; do case " $basefired " in *" $f "*) ;; *) echo $f;; esac; done | paste -sd' ')
  fi
  broken=$(echo "$out" | grep -E "^== C[0-9]+ exit=[2-9]" | awk '{print $2 $3}' | paste -sd' ')
  python3 - "$sd" "$fired" <<'PY'
import json,sys
sd,fired=sys.argv[1],sys.argv[2].split()
p=f"/verif/seeded/{sd}/meta.json"; m=json.load(open(p)); m["checks_that_fire"]=fired
json.dump(m,open(p,"w"),indent=1)
PY
  echo "$sd: ${fired:-NONE} ${broken:+BROKEN:$broken}"
done
