#!/bin/bash
# rf_stored.sh : every stored behaviour-preserving refactoring (own + found by independent authors)
# must leave all 20 checks silent. Prints one line per patch.
cd /verif
bad=0
for p in selftest/refactor/*.diff; do
  out=$(TRY_LINES=60 ./selftest/try.sh $p $(seq -f 'C%02g' 1 20) 2>&1)
  alarms=$(echo "$out" | grep -E "^== C[0-9]+ exit=[12]" | awk '{print $2 $3}' | paste -sd' ')
  echo "$(basename $p): ${alarms:-silent}"
  [ -n "$alarms" ] && bad=1
done
exit $bad
