#!/bin/bash
# Development helper (not a registered check): apply a patch (or reverse a fix commit with -R <sha>) to /repo,
# run the given property checks, and restore /repo.  usage: try.sh <patch.diff | -R sha> C01 C05 ...
set -u
P=""; if [ "$1" != "-R" ]; then P=$(realpath "$1"); fi
cd /repo || exit 2
if [ -n "$(git status --porcelain --untracked-files=no)" ]; then echo "repo dirty"; exit 2; fi
if [ "$1" = "-R" ]; then git show "$2" | git apply -R || exit 2; shift 2; else git apply "$P" || exit 2; shift; fi
trap 'git -C /repo checkout -- . ; git -C /repo clean -fdq -- . >/dev/null 2>&1' EXIT
for p in "$@"; do
  out=$(/verif/bin/pwv -prop "$p" 2>&1); rc=$?
  echo "== $p exit=$rc"; echo "$out" | grep -E "^(  rule|    failed|VIOLATION|KNOWN|ERROR|property=)" | head -${TRY_LINES:-12}
done
