#!/bin/bash
# Development helper (not a registered check): apply a patch (or reverse a fix commit with -R <sha>) to /repo,
# run the given property checks, and restore /repo.
#   usage: try.sh [-B <base-commit>] <patch.diff | -R sha> C01 C05 ...
# -B: first put the working tree at <base-commit>'s content (for seeded patches made before a later fix).
set -u
BASE=""
if [ "$1" = "-B" ]; then BASE=$2; shift 2; fi
P=""; if [ "$1" != "-R" ] && [ "$1" != "none" ]; then P=$(realpath "$1"); fi
# TRY_REPO=<scratch worktree of /repo> and TRY_BIN=<analyser binary> select another tree / binary (parallel development)
REPO=${TRY_REPO:-/repo}; BIN=${TRY_BIN:-/verif/bin/pwv}
# TRY_VERIF=<scratch dir> keeps the evidence of these trial runs out of /verif/evidence (known findings are copied in)
VARG=""; if [ -n "${TRY_VERIF:-}" ]; then mkdir -p $TRY_VERIF/evidence; cp /verif/known_findings.jsonl $TRY_VERIF/; VARG="-verif $TRY_VERIF"; fi
cd $REPO || exit 2
if [ -n "$(git status --porcelain --untracked-files=no)" ]; then echo "repo dirty"; exit 2; fi
trap 'git -C '$REPO' checkout -q HEAD -- . ; git -C '$REPO' clean -fdq -- . >/dev/null 2>&1' EXIT
if [ -n "$BASE" ]; then git checkout -q "$BASE" -- . || exit 2; fi
if [ "$1" = "none" ]; then shift; elif [ "$1" = "-R" ]; then git show "$2" | git apply -R || exit 2; shift 2; else git apply "$P" || exit 2; shift; fi
for p in "$@"; do
  out=$($BIN -prop "$p" -repo $REPO $VARG 2>&1); rc=$?
  echo "== $p exit=$rc"; echo "$out" | grep -E "^(  rule|    failed|VIOLATION|KNOWN|ERROR|property=)" | head -${TRY_LINES:-12}
done
