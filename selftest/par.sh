#!/bin/bash
# par.sh <seeds|refactors|mutants> : run the long self-test loops sharded over 5 scratch worktrees of /repo
# (/tmp/tw1..N, N = $PAR_N, default 5; created and removed by the caller). Output: one line per item on stdout.
cd /verif
kind=$1
case $kind in
  seeds) items=$(ls seeded | grep -E "^C[0-9]+-[0-9]+$");;
  refactors) items=$(ls selftest/refactor/${PAR_GLOB:-*}.diff);;
  mutants) items=$(ls selftest/mut/*.diff);;
esac
i=0
N=${PAR_N:-5}
for it in $items; do echo "$((i % N + 1)) $it"; i=$((i+1)); done > /tmp/par.$kind.list
for w in $(seq 1 $N); do
  (
  export TRY_REPO=/tmp/tw$w
  grep "^$w " /tmp/par.$kind.list | while read _ it; do
    case $kind in
      seeds) ./selftest/seed_refresh.sh $it;;
      refactors)
        out=$(TRY_LINES=60 ./selftest/try.sh $it $(seq -f 'C%02g' 1 20) 2>&1)
        alarms=$(echo "$out" | grep -E "^== C[0-9]+ exit=[12]" | awk '{print $2 $3}' | paste -sd' ')
        echo "$(basename $it): ${alarms:-silent}";;
      mutants)
        n=$(basename $it .diff); p=$(echo $n | cut -c1-3 | tr c C)
        out=$(./selftest/try.sh $it $p 2>&1 | grep -E "^== ")
        echo "$n: $out";;
    esac
  done
  ) &
done
wait
