#!/bin/bash
# rf_eval.sh <dir-with-Cxx/out/N/patch.diff> : run all 20 checks on every behaviour-preserving refactoring found; print alarms
cd /verif
for d in $1/C*/out/[0-9]; do
  [ -f $d/patch.diff ] || continue
  id=$(echo $d | sed -E 's#.*/(C[0-9]+)/out/([0-9])#\1-\2#')
  out=$(TRY_LINES=60 ./selftest/try.sh $d/patch.diff $(seq -f 'C%02g' 1 20) 2>&1)
  alarms=$(echo "$out" | grep -E "^== C[0-9]+ exit=[12]" | awk '{print $2 $3}' | paste -sd' ')
  echo "$id: ${alarms:-silent}"
  if [ -n "$alarms" ]; then echo "$out" | grep -E "failed|ERROR" | cut -c1-260 | sort | uniq | head -8; fi
done
